"""Regenerates MANIFEST.json and levels.json from the table below (run: python3 tools_manifest.py)."""
import json

PROPS = [json.loads(l)["id"] for l in open("properties.jsonl")]
A_ALL = ["A1", "A2", "A3", "A4", "A5", "A6", "A7"]
CLAIMS = {
    "C04": dict(
        level="proof",
        text="Every clause about repository logic is a verification condition generated from the AST of the real "
             "Matrix/Angle/Length methods and discharged unsat by z3 for all matrix entries, points, angles and "
             "arguments: matrix_multiply order, p*(A*B)=(p*A)*B, two-sided inverse, identity, every pre_/post_ "
             "operation (with centre given/omitted/None) equals left/right multiplication by the elementary matrix, "
             "constructors have the SVG 1.1 7.6 entries, Matrix.parse applies each of the 11 functions for every "
             "valid arity and angle unit so that the right-most function acts first, unit-bearing translations "
             "resolve at render time. Regex tokenisation and float() of numerals are an assumed runtime contract "
             "(A5) exercised by a bounded check.",
        note="floats as reals (A1); cos/sin/tan uninterpreted (A3); re/float()/str methods assumed (A5); trusted: "
             "pyvc executor (differentially tested against CPython per obligation), z3",
        technique="deductive verification: VCs from the real AST, z3; sidecar contracts",
        design="5 (C04)", assumptions=["A1", "A2", "A3", "A5", "A7"]),
    "C11": dict(
        level="proof",
        text="Viewbox.viewbox_transform is executed symbolically for all ten align values x {absent, align only, meet, "
             "slice} (exhaustive) with symbolic positive element/viewBox sizes and arbitrary origins: the returned "
             "transform text is one of four templates, a part is omitted only when it is the identity, its numerals "
             "are the scale/translate of SVG 2 section 8.2, and Matrix(text) is that transform; lemmas prove "
             "inside/over, touching and per-axis alignment; incomplete viewBox gives no transform; zero viewBox size "
             "raises ZeroDivisionError only (SVG.parse turns that into 'rendering disabled': bounded check). B: the ways the "
             "element size is supplied to SVG.parse (attributes with units/percentages, caller size, viewBox default) and "
             "nested viewports (an inner svg without preserveAspectRatio uses the default whatever its ancestors say).",
        note="floats as reals (A1): the 12-decimal formatting of the numerals is opaque (A5); SVG.parse defaulting of "
             "width/height is document-level and only bounded-checked",
        technique="deductive verification: VCs from the real AST, z3; sidecar contracts",
        design="5 (C11)", assumptions=["A1", "A2", "A5", "A7"]),
    "C12": dict(
        level="proof",
        text="Every cell of the Length tables is a verification condition over symbolic amounts, ppi and reference "
             "sizes with the unit(s) fixed: value() for the 14 units (resolved by exactly the datum it needs, else "
             "stays the Length itself), and +, -, /, ==, <,<=,>,>= exhaustively over the 196 ordered unit pairs: "
             "commensurable pairs never raise and agree with the operation on resolved values (exact CSS ratios; the "
             "six-digit inch constants within 2e-6 relative), incommensurable pairs raise ValueError only.",
        note="floats as reals (A1); parsing of the length text (REGEX_LENGTH, float()) is an assumed runtime contract "
             "(A5) exercised by a bounded check; six-digit constants 0.393701/0.0393701 accepted to 2e-6",
        technique="deductive verification: VCs from the real AST, z3; sidecar contracts",
        design="5 (C12)", assumptions=["A1", "A2", "A5", "A7"]),
    "C13": dict(
        level="proof",
        text="Keyword chain: all 147 SVG keywords + transparent in four letter-case spellings against a table "
             "transcribed from the specification (exhaustive). Word layout: rgb_to_int packing/clamping, every getter, "
             "every component setter's frame (other channels bit-for-bit), packed get-after-set, __eq__ - for all "
             "32-bit words (integer VCs, discharged through an exact bit-vector translation). rgb()/rgba()/percent "
             "forms for all numeric arguments (clamping, rounding). hsl_to_int equals 255 x the CSS colour of the hue "
             "modulo a full turn for every saturation/lightness and every hue fraction, whole turns -3..3 enumerated; "
             "hsl()/hsla() text and the h/s/l setters are verified against that contract (modular rule); the hue, saturation "
             "and lightness getters equal the standard RGB -> HSL conversion for all 2^24 channel values. Hex forms on "
             "representative digit strings; exhaustive 3/4-digit strings and Color(c.hex)==c are bounded checks.",
        note="A1 reals; A4 integers mathematical; A5: regexes/int()/float()/str.lower run natively on concrete text, "
             "numerals opaque; hue periodicity beyond |3| turns rests on Python's float % (A1)",
        technique="deductive verification: VCs from the real AST, z3 (+ exact int->bit-vector backend); sidecar contracts",
        design="5 (C13)", assumptions=["A1", "A2", "A4", "A5", "A7"]),
}

CLAIMS.update({
    'C01': dict(level='proof', text="P: the real SVGLexicalParser.parse + Path builder callbacks are executed symbolically for every command letter (20) x interpreter state (19 stored prefixes enumerating last-two-segments x what the subpath-start scan finds: Move / Close / nothing) x 1-2 operand groups, segment-completing z at every pair position, moves with extra pairs: the appended segments equal one step of SVG 2 section 9.3 (spec/step.py) for all coordinate values. Prefix independence: an audit of the real AST, re-run with every obligation (pyvc/loops.py), checks that the builder state is read from the stored list only through its length, its last two and first elements and two reverse scans that stop at the first Move/Close, so the enumerated prefixes cover every stored list. B: 106k grammar strings (all letters x number spellings x separators x packed flags, random command sequences) against an independent EBNF reader + interpreter.", note='token regexes run on a representative numeral spelling (A5) in the symbolic part; Arc endpoint constructor enters through an assumed contract (bounded check C05/endpoint_arcs)', technique='deductive verification of kernels (pyvc VCs, z3) + labelled bounded run-time contract checks on the real code', design='5 (parser cluster)', assumptions=['A1', 'A2', 'A5', 'A6', 'A7']),
    'C02': dict(level='other', text='P (all t, all matrices): point(t) of Line/Close/Quadratic/Cubic is the Bernstein form; every segment __imul__ maps each defining point; (X*M).point(t)=M(X.point(t)) and (X*A)*B=X*(A*B) for all Bezier kinds with fresh results and unchanged operands; Arc: point_at_t equals the conjugate form under the representation invariant, Arc.__imul__ (after the fix) leaves exactly the image ellipse with orthogonal radius points and a parameter rotation for ANY matrix, lemmas compose these into (arc*M).point_at_t(+-(t-t0))=M(arc.point_at_t(t)). P-shape-bounded: Path.reify, Path.segments(True), Subpath.__imul__, Rect/SimpleLine/Polyshape.segments(True) on representative segment lists. B: Arc.get_start_t (atan2/tan) and round shapes, 40 matrices on the real code.', note='arc start parameter through atan2(tan) is only bounded-checked; orthogonality threshold 1e-12 of Arc.__imul__ stated in the contract', technique='deductive verification of kernels (pyvc VCs, z3) + labelled bounded run-time contract checks on the real code', design='5 (C02)', assumptions=['A1', 'A2', 'A3', 'A7']),
    'C03': dict(level='exploration', text='Bounded: generated documents (depth<=4, <=12 elements, 12-transform pool, units and percentages, nested svg/use/defs/display:none) x configurations (reify, ppi, caller size/transform) compared shape by shape with an independent evaluator written from SVG 2 (spec/docgeom.py). The viewport transform table (every align x meet/slice/none, all branches of the final translate/scale text) is proved here too (shared with C11). Kernels proved elsewhere: Matrix.parse order (C04), shape decompositions and transformed=image (C06/C02), Length units (C12).', note='whole-document postconditions are not within reach of the deductive verifier (xml.etree C parser, string-typed data flow); the 13 defect classes this check found were repaired (fixed entries of known_findings.json), so no failure is attributed to a known class any more', technique='bounded run-time contract on SVG.parse against an independent document evaluator; P kernels on Use/viewport/shape functions', design='5 (document cluster)', assumptions=['A2', 'A7']),
    'C05': dict(level='other', text='P: degenerate inputs (zero rx / zero ry / coincident endpoints, all flags, all coordinates): endpoints kept, points of the straight line, chord length, ordered box; Arc.point_at_t is the conjugate-diameter form hence on the ellipse; radii/rotation readers. NOT proved: the F.6.5 centre/extent computation of Arc._svg_parameterize - its whole-function VC (308 paths, 4436 conditions, nonlinear with sqrt/acos) exceeded every solver budget; it is covered only by the bounded check C05/endpoint_arcs (grid over points, radii ratios 1e-3..1e3, rotations, flags; independent F.6.5 oracle).', note='F.6.5 parameterisation bounded only; floats as reals', technique='deductive verification of kernels (pyvc VCs, z3) + labelled bounded run-time contract checks on the real code', design='5 (C05)', assumptions=['A1', 'A2', 'A3', 'A7']),
    'C06': dict(level='other', text='P: Rect corner-radius decision table (16 cells: absent/zero/small/large per axis), sharp and rounded Rect.segments against SVG 2 10.2 (exact edges, quarter-ellipse corner arcs), zero dimension / negative radius, SimpleLine, Circle/Ellipse four quarter arcs from (cx+rx,cy). P-shape-bounded: Polyline/Polygon for point-list lengths 0,1,2,3,5; segments(True) = matrix image of segments(False) for Rect/rounded Rect/SimpleLine/Polyshape. B: circles, ellipses and rounded rects under 58 matrices (incl. rotation-then-anisotropic-scale and its transpose) sampled against the image of the user-space decomposition (check C05/endpoint_arcs, shape cases).', note='round shapes under reflections with zero diagonal keep the un-mirrored direction (known finding, pinned by a test)', technique='deductive verification of kernels (pyvc VCs, z3) + labelled bounded run-time contract checks on the real code', design='5 (C06)', assumptions=['A1', 'A2', 'A3', 'A5', 'A7']),
    'C07': dict(level='exploration', text='P: for 13 kind sequences (lines, quadratics, cubics, closes, two subpaths) x relative in {None,False,True} x smooth in {None,False,True} x stored flags, Path(p.d(relative, smooth)) has the same kinds and the same points as p for all coordinate values, numerals treated as opaque (A5); the arc command written by Arc.d re-parses to the constructor arguments (end point, radii = lengths of the radius vectors, rotation = direction of the first, flags = extent and direction). B: 2.8k paths from grammar-random strings x 9 (relative, smooth) combinations + subpaths, compared pointwise within the 12-digit format (tolerance stated in the check): this is where the numeral rounding itself is exercised.', note='%-formatting and float() are outside the SMT theories; arc radii printed with 6 digits and Subpath.d without a move are known findings pinned by tests', technique='deductive verification of d() -> parse with opaque numerals (pyvc VCs, z3) + bounded run-time contract on the real code for the 12-digit rounding', design='5 (C07)', assumptions=['A2', 'A5', 'A7']),
    'C08': dict(level='other', text='P: Line/Close/Move boxes; QuadraticBezier.bbox containment for all t in [0,1], ordering and tightness (every side is an endpoint or the interior extremum); implicit_stroke_width = w*sqrt|det|; zero-extent arc box ordered. P-shape-bounded: Shape.bbox = union of segment boxes grown by half the effective stroke width iff a stroke is painted (transformed x with_stroke x paint cases), Group.union_bbox. CubicBezier._real_minmax (closed-form branch |D| >= 1e-8): containment for all t in [0,1], ordering and tightness, by a modular proof - the cubic is parametrised by its critical points, PathSegment.point enters through its contract with abstract values, and four algebraic lemmas (difference identity, monotone pieces, closed-form roots = critical points, no critical point => monotone) are discharged in the same run. B: near-quadratic cubics (|D| < 1e-8), arcs, groups, use - dense sampling oracle.', note='Arc.bbox and the near-quadratic branch of CubicBezier._real_minmax are bounded-checked only; open finding F85: the box of a small cubic far from the origin misses up to 1e-8 of the coordinate magnitude (cancellation), larger misses are violations', technique='deductive verification of kernels (pyvc VCs, z3) + labelled bounded run-time contract checks on the real code', design='5 (C08)', assumptions=['A1', 'A2', 'A3', 'A7']),
    'C09': dict(level='other', text='P (prefix-independence audit as C01): for every command letter x malformed operand window (0..arity-1 numbers, one group plus extras, trailing garbage, z followed by a number) x 4 stored prefixes, with symbolic numbers: parse returns or raises ValueError only, the stored prefix is retained and every retained segment has numeric coordinates. B: 21.7k arbitrary strings (truncations, token edits, non-ASCII, 1e6-character inputs with a linear-time check) on the real code, then d()/bbox()/length()/transform on the result.', note="ASSUMED (not proved): the endpoint-form Arc constructor returns normally for numeric arguments (bounded: C05/endpoint_arcs, C09/arbitrary_strings). Known findings: 'z' with nothing to close stores Close(None,None) (pinned by tests); F84: a grammar-conforming arc whose lengths differ by more than about 1e150 is rejected with ValueError (thorough tier only)", technique='deductive verification of kernels (pyvc VCs, z3) + labelled bounded run-time contract checks on the real code', design='5 (parser cluster)', assumptions=['A1', 'A2', 'A5', 'A6', 'A7']),
    'C10': dict(level='fault_enumeration', text='Bounded fault enumeration: 40 base documents x every attribute position x malformed-value pools (transforms, colours, lengths, point lists, viewBox, path data, href retargeting incl. cycles): all single faults + sampled pairs/triples; the parse must return a tree and every shape outside the faulty subtree must equal the parse of the document without the faulty element. The reference parse (document without the offending element) runs in a second, independent instance of the library, so state a failed element leaves behind cannot colour the expectation; use chains that run into a cycle they are not part of are included. Kernels (P): Matrix.parse raises ValueError only for every malformed arity; the 96 malformed path-data windows of C09 (retained prefix, ValueError only); and on every explored path of every obligation the frame clause module_level_state_is_not_written (no object created by the module body - class attributes, shared helpers - is written by a function under contract, which is what makes one element unable to influence the next).', note='document-level; 9 defect classes found by this check were repaired (see known_findings.json fixed entries)', technique='bounded fault enumeration on SVG.parse (real code); exceptional postconditions of value parsers proved as kernels', design='5 (document cluster)', assumptions=['A2', 'A7']),
    'C14': dict(level='exploration', text='Bounded: full table of the 128 source subsets {attribute, *, type, .class, type.class, #id, inline} per property on the element, ancestors, use, rule-order permutations, comma lists, comments, currentColor, opacities, display:none, transforms x vector-effect x reify, against spec/cascade.py. Kernel (P): implicit_stroke_width = w*sqrt|det|.', note='document-level; one open finding (two classes on one element, rule order)', technique='bounded run-time contract on SVG.parse against an independent cascade evaluator; stroke-width kernel proved', design='5 (document cluster)', assumptions=['A2', 'A7']),
    'C15': dict(level='other', text='P: Linear.length is the Euclidean distance (0 without start), moves contribute 0, distance is invariant under rotation/reflection/translation/reversal and scales by |s| (lemma), circular arc shortcut radius*angle. P-shape-bounded: Shape.length = sum, fractions, Shape.point walk on a representative path, also from a state whose cache is invalid and holds stale fractions; 12 Path / Subpath mutators (append, insert, extend, setitem, delitem, +=, line, closed, reverse, reify, subpath reverse, subpath *=) leave the cached lengths invalid or consistent and length() afterwards is the sum over the present segments. B: true arc length vs Gauss-Legendre quadrature for all segment kinds and error settings.', note='accuracy of the recursive chord subdivision / quadratic closed form is an open finding (error semantics of segment_length)', technique='deductive verification of kernels (pyvc VCs, z3) + labelled bounded run-time contract checks on the real code', design='5 (C15)', assumptions=['A1', 'A2', 'A3', 'A7']),
    'C16': dict(level='other', text='P: per-segment reversal q(t)=p(1-t) for Line/Close/Quadratic/Cubic, involution, Arc.reverse swaps endpoints and negates the sweep keeping the ellipse, Subpath.__imul__ window; an arc that was evaluated and is then reversed or transformed answers like a newly built one (no stale hidden state; t_at_point / point_at_angle / angle_at_point enter through an audited frame contract). S: Path.reverse on 9 and Subpath.reverse on 10 representative kind sequences with symbolic coordinates: reversed order, each segment reversed, closes stay closed, other subpaths untouched, no Point object shared between segments, a following in-place transform maps every point exactly once, twice restores; every Path mutator leaves the cached lengths invalid or consistent. B: 40k paths: all structures with <=3 subpaths and <=5 segments, whole-path and subpath-view reversal, twice, interleaved with a transform, against an independent reversal.', note='path-level relinking of subpaths without their own move is bounded only; five defect classes for subpaths without their own move are open findings', technique='deductive verification of kernels (pyvc VCs, z3) + labelled bounded run-time contract checks on the real code', design='5 (C16)', assumptions=['A1', 'A2', 'A7']),
    'C17': dict(level='other', text='P: Path.__iadd__/__add__ with text equal continuing the parse on the stored state (state-dependent tails t, l, s, z after each kind of prefix), __add__ leaves the operand unchanged and shares nothing, Move + text; the continuation itself is the C01 step obligations, which depend on the stored segments only. B: 50k command-boundary splits of grammar strings.', note='as C01', technique='deductive verification of kernels (pyvc VCs, z3) + labelled bounded run-time contract checks on the real code', design='5 (parser cluster)', assumptions=['A1', 'A2', 'A5', 'A7']),
    'C18': dict(level='other', text='P (decided on the final symbolic heap): copy of Point/Matrix/Color/Length and of every segment kind (with and without start, all flags) is equal in value, a distinct object, shares no mutable object and leaves the source unchanged; x * M for Point (both operand orders), Matrix and every segment kind with an arbitrary matrix (the identity included) is a new object sharing nothing with either operand; Matrix operators fresh/unchanged (C04). P-shape-bounded: path + path / path += path / path + subpath copy the appended segments; paints colour / none / unset; copy(shape), Path(path/subpath/shape), shape*M, abs(shape), Group copy with nested group - reach(result) and reach(source) disjoint - on representative segment/point lists.', note='list-valued fields have a representative shape (one element of every kind)', technique='deductive verification of kernels (pyvc VCs, z3) + labelled bounded run-time contract checks on the real code', design='5 (C18)', assumptions=['A1', 'A2', 'A5', 'A7']),
    'C19': dict(level='other', text='P: zero extent yields no curves. P-shape-bounded (explicit counts 0,1,2,3,5; coordinates, radii, rotation, sweep symbolic): exactly n curves of the requested kind, first starts at the arc start, last ends at the arc end, consecutive curves join exactly, no point object shared with the arc; for counts 1,2,3 and both orientations of the stored radius vectors: interior joints are the arc points at equal parameter steps, cubic control points lie on the arc tangents at both ends in the direction of travel, quadratic control points on the ray through the mid-parameter point; Path.approximate_arcs_with_cubics/quads on 7 kind sequences (arc first, last, alone, repeated, before a close): no arc remains, each became its chain in place, other segments untouched, path connected. B: radial error <= 1e-3 / 1e-2 of the larger radius at the default subdivision and non-increasing under refinement; paths with embedded arcs.', note='the error bound is an accuracy claim checked only on the bounded family', technique='deductive verification of kernels (pyvc VCs, z3) + labelled bounded run-time contract checks on the real code', design='5 (C19)', assumptions=['A1', 'A2', 'A3', 'A7']),
    'C20': dict(level='exploration', text='Bounded: documents of the C03 generator and constructor-built trees, string_xml / write_xml (svg, svgz), re-parse and compare shapes, geometry (1e-6), paint, ids; second generation stability.', note='document-level; 8 defect classes are open findings', technique='bounded run-time contract write -> parse on the real code', design='5 (document cluster)', assumptions=['A2', 'A7']),
})


def main():
    checks = []
    levels = {}
    for pid in PROPS:
        if pid not in CLAIMS:
            continue
        c = CLAIMS[pid]
        checks.append({
            "property_id": pid,
            "quick_cmd": "./check %s" % pid,
            "thorough_cmd": "./check %s --tier thorough" % pid,
            "evidence_file": "evidence/%s.json" % pid,
            "replay_cmd_template": "./check %s --replay {path}" % pid,
            "engine": "pyvc",
            "level_claimed": {"category": c["level"], "text": c["text"], "design_ref": c["design"]},
            "level_note": c["note"],
            "technique": c["technique"],
        })
        levels[pid] = {"level": c["level"], "assumptions": c["assumptions"],
                       "explanation": c.get("explanation", c["text"]),
                       "extra_assumptions": c.get("extra_assumptions", [])}
    m = {
        "version": 1,
        "setup_cmd": "python3-vt -c \"import z3, cvc5\" && /venv/bin/python -c \"import sys; sys.path.insert(0,'/repo'); import svgelements\"",
        "hooks": {"guard": "SVGELEMENTS_VERIF",
                  "enable": "no hooks: contracts are sidecar files under /verif/contracts keyed by qualified function "
                            "name; /repo is read (AST) and imported, never instrumented",
                  "baseline_off_cmd": "cd /repo && /venv/bin/python -m pytest -ra -q -p no:cacheprovider --timeout=900 --continue-on-collection-errors",
                  "source_commits": [], "add_only": True},
        "engines": [{"name": "pyvc", "path": "pyvc", "serves_properties": sorted(CLAIMS),
                     "kind_free_text": "AST-to-SMT symbolic executor (VC generator) over the real svgelements.py + "
                                       "sidecar contracts, discharged by z3/cvc5; bounded run-time contract checks "
                                       "as labelled stand-ins"}],
        "checks": checks,
        "notes": "see DESIGN.md; exit codes: 0 held, 1 violation, 2 undecided, 3 checker fault",
        "not_applicable": [{"property_id": p, "reason": NA.get(p, "check not built yet (build in progress, see "
                                                                   "DESIGN.md section 5 for the plan)")}
                           for p in PROPS if p not in CLAIMS],
    }
    json.dump(m, open("MANIFEST.json", "w"), indent=1)
    json.dump(levels, open("levels.json", "w"), indent=1)


NA = {}
if __name__ == "__main__":
    main()
