"""Regenerates MANIFEST.json and levels.json from the table below (run: python3 tools_manifest.py)."""
import json

PROPS = [json.loads(l)["id"] for l in open("properties.jsonl")]
A_ALL = ["A1", "A2", "A3", "A4", "A5", "A6", "A7"]
CLAIMS = {
    "C04": dict(
        level="proof",
        text="Every clause about repository logic is a verification condition generated from the AST of the real "
             "Matrix/Angle/Length methods and discharged unsat by z3 for all matrix entries, points, angles and "
             "arguments: matrix_multiply order, p*(A*B)=(p*A)*B, two-sided inverse, identity, every pre_/post_ "
             "operation (with centre given/omitted/None) equals left/right multiplication by the elementary matrix, "
             "constructors have the SVG 1.1 7.6 entries, Matrix.parse applies each of the 11 functions for every "
             "valid arity and angle unit so that the right-most function acts first, unit-bearing translations "
             "resolve at render time. Regex tokenisation and float() of numerals are an assumed runtime contract "
             "(A5) exercised by a bounded check.",
        note="floats as reals (A1); cos/sin/tan uninterpreted (A3); re/float()/str methods assumed (A5); trusted: "
             "pyvc executor (differentially tested against CPython per obligation), z3",
        technique="deductive verification: VCs from the real AST, z3; sidecar contracts",
        design="5 (C04)", assumptions=["A1", "A2", "A3", "A5", "A7"]),
    "C11": dict(
        level="proof",
        text="Viewbox.viewbox_transform is executed symbolically for all ten align values x {absent, align only, meet, "
             "slice} (exhaustive) with symbolic positive element/viewBox sizes and arbitrary origins: the returned "
             "transform text is one of four templates, a part is omitted only when it is the identity, its numerals "
             "are the scale/translate of SVG 2 section 8.2, and Matrix(text) is that transform; lemmas prove "
             "inside/over, touching and per-axis alignment; incomplete viewBox gives no transform; zero viewBox size "
             "raises ZeroDivisionError only (SVG.parse turns that into 'rendering disabled': bounded check).",
        note="floats as reals (A1): the 12-decimal formatting of the numerals is opaque (A5); SVG.parse defaulting of "
             "width/height is document-level and only bounded-checked",
        technique="deductive verification: VCs from the real AST, z3; sidecar contracts",
        design="5 (C11)", assumptions=["A1", "A2", "A5", "A7"]),
    "C12": dict(
        level="proof",
        text="Every cell of the Length tables is a verification condition over symbolic amounts, ppi and reference "
             "sizes with the unit(s) fixed: value() for the 14 units (resolved by exactly the datum it needs, else "
             "stays the Length itself), and +, -, /, ==, <,<=,>,>= exhaustively over the 196 ordered unit pairs: "
             "commensurable pairs never raise and agree with the operation on resolved values (exact CSS ratios; the "
             "six-digit inch constants within 2e-6 relative), incommensurable pairs raise ValueError only.",
        note="floats as reals (A1); parsing of the length text (REGEX_LENGTH, float()) is an assumed runtime contract "
             "(A5) exercised by a bounded check; six-digit constants 0.393701/0.0393701 accepted to 2e-6",
        technique="deductive verification: VCs from the real AST, z3; sidecar contracts",
        design="5 (C12)", assumptions=["A1", "A2", "A5", "A7"]),
    "C13": dict(
        level="proof",
        text="Keyword chain: all 147 SVG keywords + transparent in four letter-case spellings against a table "
             "transcribed from the specification (exhaustive). Word layout: rgb_to_int packing/clamping, every getter, "
             "every component setter's frame (other channels bit-for-bit), packed get-after-set, __eq__ - for all "
             "32-bit words (integer VCs, discharged through an exact bit-vector translation). rgb()/rgba()/percent "
             "forms for all numeric arguments (clamping, rounding). hsl_to_int equals 255 x the CSS colour of the hue "
             "modulo a full turn for every saturation/lightness and every hue fraction, whole turns -3..3 enumerated; "
             "hsl()/hsla() text and the h/s/l setters are verified against that contract (modular rule). Hex forms on "
             "representative digit strings; exhaustive 3/4-digit strings and Color(c.hex)==c are bounded checks.",
        note="A1 reals; A4 integers mathematical; A5: regexes/int()/float()/str.lower run natively on concrete text, "
             "numerals opaque; hue periodicity beyond |3| turns rests on Python's float % (A1)",
        technique="deductive verification: VCs from the real AST, z3 (+ exact int->bit-vector backend); sidecar contracts",
        design="5 (C13)", assumptions=["A1", "A2", "A4", "A5", "A7"]),
}


def main():
    checks = []
    levels = {}
    for pid in PROPS:
        if pid not in CLAIMS:
            continue
        c = CLAIMS[pid]
        checks.append({
            "property_id": pid,
            "quick_cmd": "./check %s" % pid,
            "thorough_cmd": "./check %s --tier thorough" % pid,
            "evidence_file": "evidence/%s.json" % pid,
            "replay_cmd_template": "./check %s --replay {path}" % pid,
            "engine": "pyvc",
            "level_claimed": {"category": c["level"], "text": c["text"], "design_ref": c["design"]},
            "level_note": c["note"],
            "technique": c["technique"],
        })
        levels[pid] = {"level": c["level"], "assumptions": c["assumptions"],
                       "explanation": c.get("explanation", c["text"]),
                       "extra_assumptions": c.get("extra_assumptions", [])}
    m = {
        "version": 1,
        "setup_cmd": "python3-vt -c \"import z3, cvc5\" && /venv/bin/python -c \"import sys; sys.path.insert(0,'/repo'); import svgelements\"",
        "hooks": {"guard": "SVGELEMENTS_VERIF",
                  "enable": "no hooks: contracts are sidecar files under /verif/contracts keyed by qualified function "
                            "name; /repo is read (AST) and imported, never instrumented",
                  "baseline_off_cmd": "cd /repo && /venv/bin/python -m pytest -ra -q -p no:cacheprovider --timeout=900 --continue-on-collection-errors",
                  "source_commits": [], "add_only": True},
        "engines": [{"name": "pyvc", "path": "pyvc", "serves_properties": sorted(CLAIMS),
                     "kind_free_text": "AST-to-SMT symbolic executor (VC generator) over the real svgelements.py + "
                                       "sidecar contracts, discharged by z3/cvc5; bounded run-time contract checks "
                                       "as labelled stand-ins"}],
        "checks": checks,
        "notes": "see DESIGN.md; exit codes: 0 held, 1 violation, 2 undecided, 3 checker fault",
        "not_applicable": [{"property_id": p, "reason": NA.get(p, "check not built yet (build in progress, see "
                                                                   "DESIGN.md section 5 for the plan)")}
                           for p in PROPS if p not in CLAIMS],
    }
    json.dump(m, open("MANIFEST.json", "w"), indent=1)
    json.dump(levels, open("levels.json", "w"), indent=1)


NA = {}
if __name__ == "__main__":
    main()
