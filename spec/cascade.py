"""Independent SVG/CSS cascade evaluator over an xml.etree tree (oracle of C14).

Written from the specifications, not from svgelements:
  * CSS 2.1 section 6.4.1 (cascading order), 6.4.3 (specificity), 6.2 (inheritance), 4.1.9 (comments)
  * SVG 1.1 section 6.4 ("presentation attributes ... specificity 0, inserted at the start of the author style
    sheet"), SVG 1.1 section 5.6 (the 'use' shadow tree inherits from the 'use' element, rules matched on the
    referenced element), 11.2/11.3/11.4 (fill, stroke, stroke-width, fill-opacity, stroke-opacity, initial values),
    12.2 ('color', currentColor), 11.5 (display), 7.6 (transform list), 7.7/7.8 (viewBox, preserveAspectRatio)
  * SVG Tiny 1.2 / SVG 2 vector-effect="non-scaling-stroke"

What is implemented - precisely:
  selectors    compound selectors made of an optional type name or '*', followed by any number of '.class' and
               '#id' parts: '*', 'rect', '.c', 'rect.c', '#e' (and e.g. 'rect#e.c').  Comma lists are split.  Any
               other selector (combinators, attributes, pseudo classes) makes the rule "unsupported" and it is ignored.
  specificity  (ids, classes, types); '*' counts nothing.  So #id > type.class > .class > type > '*'.
  cascade      candidates for (element, property): the presentation attribute (specificity (0,0,0), position before
               every rule), every matching declaration of every <style> element of the document in document order,
               the inline style attribute.  Winner: inline beats everything; otherwise the highest
               (specificity, position) - i.e. later wins among equal specificity, and a '*' rule beats the attribute.
               '!important' is not supported (a declaration carrying it is dropped from the oracle: out of scope).
  comments     '/* ... */' removed before tokenising style sheets and inline styles.
  inheritance  fill, stroke, stroke-width, color, fill-opacity, stroke-opacity inherit; display and vector-effect do
               not.  The parent of an element instantiated by 'use' is the 'use' element (not its parent in 'defs').
  initial      fill black, stroke none, stroke-width 1, opacities 1, display inline, color = the caller's colour.
  currentColor resolved on the element that declares it (SVG 1.1 computed value) to that element's computed 'color';
               descendants inherit the resolved colour.  (The generator never sets 'color' below such an element, so
               the CSS Color 3 "inherit the keyword" reading gives the same answers.)
  opacity      used paint = colour with alpha = own_alpha * clamp(opacity, 0, 1), reported exactly (0..255 float):
               the check accepts any 8 bit alpha within 0.5 of it (any rounding rule).  'none' has no alpha.
  display      an element whose display is none, and its whole subtree (including 'use' instances below it), is absent.
  stroke width w * sqrt(|det(M)|), M = accumulated transform from the root viewport to the element (viewBox
               transform, ancestors' transform attributes, x/y translation of 'use', own transform); for
               vector-effect="non-scaling-stroke" on the element itself, M = the root viewBox transform alone.
"""
import json
import math
import os
import re

SHAPES = ("rect", "circle", "ellipse", "line", "polyline", "polygon", "path")
CONTAINERS = ("svg", "g", "a")
NEVER_RENDERED = ("defs", "style", "clipPath", "pattern", "symbol", "mask", "marker", "title", "desc", "metadata",
                  "linearGradient", "radialGradient")
INHERITED = ("fill", "stroke", "stroke-width", "color", "fill-opacity", "stroke-opacity")
INITIAL = {"fill": "black", "stroke": "none", "stroke-width": "1", "fill-opacity": "1", "stroke-opacity": "1",
           "display": "inline", "vector-effect": "none"}
XLINK = "{http://www.w3.org/1999/xlink}href"

_COLORS = None


def _keywords():
    global _COLORS
    if _COLORS is None:
        with open(os.path.join(os.path.dirname(os.path.abspath(__file__)), "svg_colors.json")) as f:
            _COLORS = {k: tuple(v) for k, v in json.load(f)["colors"].items()}
    return _COLORS


def local(tag):
    return tag.rsplit("}", 1)[-1] if isinstance(tag, str) else ""


# ---------------------------------------------------------------- style sheets

def strip_comments(text):
    out, i = [], 0
    while True:
        j = text.find("/*", i)
        if j < 0:
            out.append(text[i:])
            break
        out.append(text[i:j])
        k = text.find("*/", j + 2)
        if k < 0:
            break  # unterminated comment swallows the rest (CSS 2.1 4.2)
        i = k + 2
    return "".join(out)


def parse_declarations(text):
    """'a:b; c : d' -> [(a, b), (c, d)]; declarations without ':' or with '!important' are dropped"""
    decls = []
    for part in strip_comments(text).split(";"):
        if ":" not in part:
            continue
        name, value = part.split(":", 1)
        name, value = name.strip().lower(), value.strip()
        if not name or not value or "!" in value:
            continue
        decls.append((name, value))
    return decls


_SEL = re.compile(r"^(\*|[A-Za-z_][\w-]*)?((?:[.#][A-Za-z_][\w-]*)*)$")


def parse_selector(text):
    """-> (type or None, classes, ids) or None when the selector is outside the supported (compound) subset"""
    m = _SEL.match(text.strip())
    if not m or not text.strip():
        return None
    typ = m.group(1)
    classes = re.findall(r"\.([A-Za-z_][\w-]*)", m.group(2))
    ids = re.findall(r"#([A-Za-z_][\w-]*)", m.group(2))
    return (None if typ in (None, "*") else typ, classes, ids)


def specificity(sel):
    typ, classes, ids = sel
    return (len(ids), len(classes), 1 if typ else 0)


def selector_kind(sel):
    typ, classes, ids = sel
    if ids:
        return "id-rule"
    if classes:
        return "typeclass-rule" if typ else "class-rule"
    return "type-rule" if typ else "universal-rule"


def parse_stylesheet(text):
    """-> list of (selector, kind, specificity, declarations) in source order, one entry per selector of a list"""
    rules = []
    text = strip_comments(text or "")
    i = 0
    while True:
        j = text.find("{", i)
        if j < 0:
            break
        k = text.find("}", j)
        if k < 0:
            k = len(text)
        decls = parse_declarations(text[j + 1:k])
        for s in text[i:j].split(","):
            sel = parse_selector(s)
            if sel is not None:
                rules.append((sel, selector_kind(sel), specificity(sel), decls))
        i = k + 1
    return rules


def matches(sel, el):
    typ, classes, ids = sel
    if typ is not None and local(el.tag) != typ:
        return False
    have = (el.get("class") or "").split()
    if any(c not in have for c in classes):
        return False
    return all(el.get("id") == i for i in ids)


class Sheet:
    """All author rules of a document (every <style> element, document order)."""

    def __init__(self, root):
        self.root = root
        self.rules = []
        for el in root.iter():
            if local(el.tag) == "style":
                self.rules.extend(parse_stylesheet("".join(el.itertext())))
        self.ids = {}
        for el in root.iter():
            if el.get("id") is not None and el.get("id") not in self.ids:
                self.ids[el.get("id")] = el
        self.parent = {c: p for p in root.iter() for c in p}

    def declared(self, el, prop):
        """-> (value, source kind) of the cascade winner on this element, or (None, None)"""
        best = None
        if el.get(prop) is not None:
            best = ((0, (0, 0, 0), -1), el.get(prop).strip(), "attribute")
        pos = 0
        for sel, kind, spec, decls in self.rules:
            if matches(sel, el):
                for name, value in decls:
                    if name == prop:
                        rank = (0, spec, pos)
                        if best is None or rank >= best[0]:
                            best = (rank, value, kind)
                    pos += 1
            else:
                pos += len(decls)
        for name, value in parse_declarations(el.get("style") or ""):
            if name == prop:
                best = ((1, (0, 0, 0), 0), value, "inline")
        return (best[1], best[2]) if best else (None, None)

    def candidates(self, el, prop):
        """source kinds of every declaration of `prop` that applies to this element (diagnostics only)"""
        kinds = []
        if el.get(prop) is not None:
            kinds.append("attribute")
        for sel, kind, spec, decls in self.rules:
            if matches(sel, el) and any(name == prop for name, _ in decls):
                kinds.append(kind)
        if any(name == prop for name, _ in parse_declarations(el.get("style") or "")):
            kinds.append("inline")
        return kinds

    def chain_of(self, el):
        """document ancestors of el (root first), for elements that are not instantiated through 'use'"""
        chain = [el]
        while chain[0] in self.parent:
            chain.insert(0, self.parent[chain[0]])
        return chain

    def computed(self, chain, prop, caller_color="black"):
        """-> (value, provenance); chain = render-tree ancestors, root first, element last.
        provenance: '<source>' when the element itself declares it, 'inherited-<source>' from an ancestor,
        'default' / 'caller' for the initial value; a 'currentColor>' prefix when currentColor was followed."""
        el = chain[-1]
        value, src = self.declared(el, prop)
        if value is not None and value.lower() == "inherit":
            value = None
            force_inherit = True
        else:
            force_inherit = False
        if value is not None and prop == "color" and value.lower() == "currentcolor":
            value, force_inherit = None, True
        if value is None:
            if (prop in INHERITED or force_inherit) and len(chain) > 1:
                v, p = self.computed(chain[:-1], prop, caller_color)
                if not p.startswith("inherited-") and not p.startswith("currentColor>") and p not in ("default", "caller"):
                    p = "inherited-" + p
                return v, p
            if prop == "color":
                return caller_color, "caller"
            return INITIAL[prop], "default"
        if prop in ("fill", "stroke") and value.lower() == "currentcolor":
            v, p = self.computed(chain, "color", caller_color)
            where = "caller" if p == "caller" else ("ancestor" if p.startswith("inherited-") else "element")
            return v, "currentColor>" + where
        return value, src


def cascade(tree, element, prop, caller_color="black"):
    """Computed value of `prop` on `element` of the xml.etree tree/root `tree` (element not reached through 'use')."""
    root = tree.getroot() if hasattr(tree, "getroot") else tree
    sheet = Sheet(root)
    return sheet.computed(sheet.chain_of(element), prop, caller_color)[0]


# ---------------------------------------------------------------- values

def parse_color(text):
    """-> None for 'none', else (r, g, b, alpha 0..1).  #rgb #rrggbb #rgba #rrggbbaa keywords rgb() rgba(); else ValueError"""
    t = text.strip().lower()
    if t == "none":
        return None
    if t == "transparent":
        return (0, 0, 0, 0.0)
    if t.startswith("#"):
        h = t[1:]
        if len(h) in (3, 4) and all(c in "0123456789abcdef" for c in h):
            v = [int(c * 2, 16) for c in h]
        elif len(h) in (6, 8) and all(c in "0123456789abcdef" for c in h):
            v = [int(h[i:i + 2], 16) for i in range(0, len(h), 2)]
        else:
            raise ValueError(text)
        return (v[0], v[1], v[2], v[3] / 255.0 if len(v) == 4 else 1.0)
    if t in _keywords():
        r, g, b = _keywords()[t]
        return (r, g, b, 1.0)
    m = re.match(r"^rgba?\(([^)]*)\)$", t)
    if m:
        parts = [p.strip() for p in m.group(1).replace(",", " ").split()]
        if len(parts) in (3, 4):
            def chan(p):
                x = float(p[:-1]) * 2.55 if p.endswith("%") else float(p)
                return int(min(255, max(0, math.floor(x + 0.5))))

            a = 1.0
            if len(parts) == 4:
                a = float(parts[3][:-1]) / 100.0 if parts[3].endswith("%") else float(parts[3])
            return (chan(parts[0]), chan(parts[1]), chan(parts[2]), min(1.0, max(0.0, a)))
    raise ValueError(text)


def parse_number(text):
    m = re.match(r"^\s*([+-]?(?:\d+\.?\d*|\.\d+)(?:[eE][+-]?\d+)?)\s*(px)?\s*$", text)
    if not m:
        raise ValueError(text)
    return float(m.group(1))


def mat_mul(first, then):
    """matrix of 'apply `first`, then `then`' with (a b c d e f) = SVG matrix(a,b,c,d,e,f)"""
    a1, b1, c1, d1, e1, f1 = first
    a2, b2, c2, d2, e2, f2 = then
    return (a1 * a2 + b1 * c2, a1 * b2 + b1 * d2, c1 * a2 + d1 * c2, c1 * b2 + d1 * d2,
            e1 * a2 + f1 * c2 + e2, e1 * b2 + f1 * d2 + f2)


IDENT = (1.0, 0.0, 0.0, 1.0, 0.0, 0.0)


def det(m):
    return m[0] * m[3] - m[1] * m[2]


def parse_transform(text):
    """SVG 1.1 7.6 transform list -> matrix; the right-most function acts first on the point"""
    m = IDENT
    for name, args in re.findall(r"([A-Za-z]+)\s*\(([^)]*)\)", text or ""):
        v = [float(x) for x in re.findall(r"[+-]?(?:\d+\.?\d*|\.\d+)(?:[eE][+-]?\d+)?", args)]
        if name == "translate":
            t = (1, 0, 0, 1, v[0], v[1] if len(v) > 1 else 0.0)
        elif name == "scale":
            t = (v[0], 0, 0, v[1] if len(v) > 1 else v[0], 0, 0)
        elif name == "rotate":
            c, s = math.cos(math.radians(v[0])), math.sin(math.radians(v[0]))
            t = (c, s, -s, c, 0, 0)
            if len(v) == 3:
                t = mat_mul(mat_mul((1, 0, 0, 1, -v[1], -v[2]), t), (1, 0, 0, 1, v[1], v[2]))
        elif name == "skewX":
            t = (1, 0, math.tan(math.radians(v[0])), 1, 0, 0)
        elif name == "skewY":
            t = (1, math.tan(math.radians(v[0])), 0, 1, 0, 0)
        elif name == "matrix":
            t = tuple(v[:6])
        else:
            raise ValueError(text)
        m = mat_mul(t, m)  # functions to the right act first
    return m


def viewport_transform(svg_el):
    """root <svg> with absolute width/height and a viewBox (SVG 1.1 7.7/7.8; xMidYMid meet default, or 'none')"""
    vb = svg_el.get("viewBox")
    if vb is None:
        return IDENT
    x, y, w, h = [float(t) for t in vb.replace(",", " ").split()]
    ew = parse_number(svg_el.get("width")) if svg_el.get("width") is not None else w
    eh = parse_number(svg_el.get("height")) if svg_el.get("height") is not None else h
    par = (svg_el.get("preserveAspectRatio") or "xMidYMid meet").split()
    sx, sy = ew / w, eh / h
    if par[0] == "none":
        return (sx, 0, 0, sy, -x * sx, -y * sy)
    if par[0] != "xMidYMid":
        raise NotImplementedError(par[0])
    s = max(sx, sy) if len(par) > 1 and par[1] == "slice" else min(sx, sy)
    return (s, 0, 0, s, -x * s + (ew - w * s) / 2.0, -y * s + (eh - h * s) / 2.0)


# ---------------------------------------------------------------- render list

def _paint(sheet, chain, prop, caller_color):
    value, prov = sheet.computed(chain, prop, caller_color)
    col = parse_color(value)
    if col is None:
        return None, prov
    op, _ = sheet.computed(chain, prop + "-opacity", caller_color)
    o = min(1.0, max(0.0, float(op)))
    return {"rgb": [col[0], col[1], col[2]], "alpha": col[3] * o * 255.0}, prov


def render_list(root, caller_color="black"):
    """Expected rendered shapes of the document, in rendering order.  Each entry:
    {id, tag, path: ids/tags of render-tree ancestors, fill, stroke: None | {rgb, alpha(0..255 float)},
     declared: {property: kinds of all sources declaring it on the element},
     fill_from, stroke_from, width_from: provenance, stroke_width: declared w, ctm_det, viewport_det,
     non_scaling: bool, implicit_width: w*sqrt(|det|)}"""
    sheet = Sheet(root)
    out = []
    vp = viewport_transform(root) if local(root.tag) == "svg" else IDENT

    def visit(el, chain, ctm):
        tag = local(el.tag)
        chain = chain + [el]
        if sheet.computed(chain, "display", caller_color)[0].strip().lower() == "none":
            return
        if tag in NEVER_RENDERED:
            return
        if tag == "svg" and len(chain) > 1:
            raise NotImplementedError("nested svg is outside this evaluator")
        m = ctm
        if tag != "svg" and el.get("transform") is not None:
            m = mat_mul(parse_transform(el.get("transform")), m)
        if tag == "use":
            href = el.get("href") if el.get("href") is not None else el.get(XLINK)
            x = parse_number(el.get("x")) if el.get("x") is not None else 0.0
            y = parse_number(el.get("y")) if el.get("y") is not None else 0.0
            m = mat_mul((1, 0, 0, 1, x, y), m)
            target = sheet.ids.get(href[1:]) if href and href.startswith("#") else None
            if target is not None and target not in chain:
                visit(target, chain, m)
            return
        if tag in SHAPES:
            fill, fp = _paint(sheet, chain, "fill", caller_color)
            stroke, sp = _paint(sheet, chain, "stroke", caller_color)
            w, wp = sheet.computed(chain, "stroke-width", caller_color)
            w = parse_number(w)
            ve, _ = sheet.computed(chain, "vector-effect", caller_color)
            ns = ve.strip() == "non-scaling-stroke"
            d = abs(det(vp)) if ns else abs(det(m))
            out.append({"id": el.get("id"), "tag": tag,
                        "declared": {p: sheet.candidates(el, p) for p in ("fill", "stroke", "stroke-width")},
                        "path": [(c.get("id") or local(c.tag)) for c in chain[:-1]],
                        "fill": fill, "stroke": stroke, "fill_from": fp, "stroke_from": sp, "width_from": wp,
                        "stroke_width": w, "ctm_det": det(m), "viewport_det": det(vp), "non_scaling": ns,
                        "implicit_width": w * math.sqrt(d)})
            return
        if tag in CONTAINERS:
            for child in el:
                visit(child, chain, m)

    visit(root, [], vp)
    return out
