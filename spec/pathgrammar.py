"""Independent reader and interpreter of SVG 2 path data (SVG 2 section 9.3, EBNF of 9.3.9).

Written from the specification text only; shares no code with svgelements.

Grammar implemented (SVG 2, 9.3.9, with CSS-style numbers):

    svg_path   ::= wsp* ( moveto ( wsp* drawto )* )? wsp*
    drawto     ::= moveto | closepath | lineto | hlineto | vlineto | curveto | smooth_curveto
                 | quad | smooth_quad | arc
    moveto     ::= [Mm] wsp* pair ( comma_wsp? pair )*                  extra pairs are lineto
    closepath  ::= [Zz]
    lineto     ::= [Ll] wsp* ( pair ( comma_wsp? pair )*  |  closepath )
    hlineto    ::= [Hh] wsp* coord ( comma_wsp? coord )*
    curveto    ::= [Cc] wsp* ( triplet ( comma_wsp? triplet )* | pair* closepath )
    ...                                                                  (S/Q with doubles, T with pairs)
    arc        ::= [Aa] wsp* ( arcarg ( comma_wsp? arcarg )* | arcarg* number number number flag flag closepath )
    arcarg     ::= number comma_wsp? number comma_wsp? number comma_wsp? flag comma_wsp? flag comma_wsp? pair
    coord      ::= [+-]? ( digit+ ( "." digit+ )? | "." digit+ ) ( [eE] [+-]? digit+ )?
                   (no trailing-dot numbers: "2." is the number 2 followed by a stray ".")
    flag       ::= "0" | "1"                                            (one character; may be packed "0110,10")
    comma_wsp  ::= wsp+ ","? wsp* | "," wsp*
    wsp        ::= #x9 | #x20 | #xA | #xC | #xD

Segment-completing close path (SVG 2, 9.3.4.1): a closepath may stand in place of the FINAL coordinate pair
of a segment (after any number of complete groups of the same command).  The EBNF also admits a closepath
after fewer pairs (e.g. "C 1,2 z"), for which the prose defines no meaning; the reader reports those as
`ambiguous` and the checks do not judge them.  A completed segment is reported as the segment itself
(ending at the subpath start) followed by a zero-length Close.

Items returned by the reader are dicts:
    {"cmd": letter, "args": tuple_of_floats (flags as 0/1 ints), "zclose": bool, "occ": n, "first": bool,
     "span": (start, end)}
`occ` is the index of the command-letter occurrence the group belongs to (implicit repetitions share it);
"first" is True for the group that directly follows the letter.  Extra pairs after M/m are reported with
cmd "L"/"l" (same occ) as the specification prescribes.

interp(items) produces absolute segments:
    {"kind": "Move"|"Line"|"Close"|"QuadraticBezier"|"CubicBezier"|"Arc", "start": (x,y)|None, "end": (x,y),
     "control": (x,y) (quadratic) | "control1","control2" (cubic) | "rx","ry","rotation","large","sweep" (arc),
     "cmd": letter, "occ": n}
"""
import math

WSP = "\t \n\x0c\r"
DIGITS = "0123456789"
COMMANDS = "MmZzLlHhVvCcSsQqTtAa"
PAIRS = {"M": 1, "L": 1, "T": 1, "C": 3, "S": 2, "Q": 2}


class PathSyntaxError(ValueError):
    def __init__(self, pos, msg, items, occ_in_error, ambiguous=False):
        ValueError.__init__(self, "%s at %d" % (msg, pos))
        self.pos = pos
        self.msg = msg
        self.items = items
        self.occ_in_error = occ_in_error
        self.ambiguous = ambiguous
        self.overflow = False
        self.cmd = None
        self.cmd_pos = None
        self.bare = False


class _Reader:
    def __init__(self, s):
        self.s = s
        self.n = len(s)
        self.i = 0
        self.overflow = False
        self.cmd = None
        self.cmd_pos = None
        self.cmd_operands = 0

    def wsp(self):
        s, n, i = self.s, self.n, self.i
        while i < n and s[i] in WSP:
            i += 1
        self.i = i

    def comma_wsp(self):
        """optional comma_wsp; returns True if something was consumed"""
        i0 = self.i
        self.wsp()
        if self.i < self.n and self.s[self.i] == ",":
            self.i += 1
            self.wsp()
        return self.i != i0

    def number(self):
        """coordinate ::= sign? number; returns float or None (position unchanged on None)"""
        s, n, i = self.s, self.n, self.i
        j = i
        if j < n and s[j] in "+-":
            j += 1
        k = j
        while k < n and s[k] in DIGITS:
            k += 1
        intdigits = k - j
        if k + 1 < n and s[k] == "." and s[k + 1] in DIGITS:
            k += 1
            while k < n and s[k] in DIGITS:
                k += 1
        elif intdigits == 0:
            return None
        # exponent
        if k < n and s[k] in "eE":
            m = k + 1
            if m < n and s[m] in "+-":
                m += 1
            if m < n and s[m] in DIGITS:
                while m < n and s[m] in DIGITS:
                    m += 1
                k = m
        text = s[i:k]
        v = _to_float(text)
        if v in (math.inf, -math.inf):
            # syntactically a number, but outside the range of the number type (SVG 2 requires at least
            # single precision): reported as an error at this number, flagged `overflow`
            self.overflow = True
            return None
        self.i = k
        return v

    def flag(self):
        if self.i < self.n and self.s[self.i] in "01":
            v = int(self.s[self.i])
            self.i += 1
            return v
        return None

    def peek(self):
        return self.s[self.i] if self.i < self.n else ""


def _to_float(text):
    # decimal text -> float without relying on any library under test; Python's float() implements
    # correctly rounded decimal->binary conversion of exactly this syntax.
    return float(text)


def _item(cmd, args, zclose, occ, first, span):
    return {"cmd": cmd, "args": tuple(args), "zclose": zclose, "occ": occ, "first": first, "span": span}


def _read(s, require_move=True):
    """returns (items, error); error is None or a PathSyntaxError (returned, not raised)"""
    r = _Reader(s)
    items, err = _read1(r, s, require_move)
    if err is not None:
        if r.overflow:
            err.overflow = True
        # letter and position of the command in which the error lies (None when it lies between commands)
        err.cmd = r.cmd if err.occ_in_error is not None else None
        err.cmd_pos = r.cmd_pos if err.occ_in_error is not None else None
        err.bare = err.occ_in_error is not None and r.cmd_operands == 0
    return items, err


def _read1(r, s, require_move):
    items = []
    occ = -1
    first_command = True
    while True:
        r.wsp()
        if r.i >= r.n:
            return items, None
        c = r.peek()
        if c not in COMMANDS:
            return items, PathSyntaxError(r.i, "stray character %r where a command is expected" % c, items, None)
        if first_command and require_move and c not in "Mm":
            return items, PathSyntaxError(r.i, "path data must begin with a moveto", items, None)
        first_command = False
        occ += 1
        start = r.i
        r.cmd, r.cmd_pos, r.cmd_operands = c, start, 0
        r.i += 1
        U = c.upper()
        if U == "Z":
            items.append(_item(c, (), False, occ, True, (start, r.i)))
            continue
        r.wsp()
        ngroups = 0
        while True:
            gstart = r.i if ngroups else start
            vals = []
            zc = False
            if U in "HV":
                v = r.number()
                if v is None:
                    return items, PathSyntaxError(r.i, "%s: number missing or malformed" % c, items, occ)
                vals.append(v)
                r.cmd_operands += 1
            elif U == "A":
                for k in range(7):
                    if k:
                        r.comma_wsp()
                    if k == 5 and r.peek() and r.peek() in "Zz":
                        zc = True
                        break
                    v = r.flag() if k in (3, 4) else r.number()
                    if v is None:
                        return items, PathSyntaxError(
                            r.i, "%s: argument %d (%s) missing or malformed"
                            % (c, k + 1, "flag" if k in (3, 4) else "number"), items, occ)
                    vals.append(v)
                    r.cmd_operands += 1
            else:
                npairs = PAIRS[U]
                for k in range(2 * npairs):
                    if k:
                        r.comma_wsp()
                    if k % 2 == 0 and U != "M" and r.peek() and r.peek() in "Zz":
                        if k == 2 * npairs - 2:
                            zc = True
                            break
                        return items, PathSyntaxError(
                            r.i, "closepath after %d of %d pairs of %s: meaning undefined" % (k // 2, npairs, c),
                            items, occ, ambiguous=True)
                    v = r.number()
                    if v is None:
                        return items, PathSyntaxError(
                            r.i, "%s: coordinate %d of %d missing or malformed" % (c, k + 1, 2 * npairs), items, occ)
                    vals.append(v)
                    r.cmd_operands += 1
            cmd = c
            if U == "M" and ngroups > 0:
                cmd = "L" if c == "M" else "l"
            items.append(_item(cmd, vals, zc, occ, ngroups == 0, (gstart, r.i)))
            ngroups += 1
            if zc:
                r.i += 1  # the closepath letter that completed the segment
                items[-1]["span"] = (gstart, r.i)
                break
            save = r.i
            r.comma_wsp()
            nxt = r.peek()
            if nxt and nxt in "+-.0123456789":
                continue  # implicit repetition: another group must follow
            if "," in s[save:r.i]:
                return items, PathSyntaxError(save, "%s: comma not followed by a number" % c, items, occ)
            # a closepath here is an ordinary closepath (after complete groups the next pair would be the
            # FIRST pair of a new group; for one-pair commands L/T "L 1,2 z" is lineto + closepath)
            break


def parse(s):
    """items of a grammar-conforming string; raises PathSyntaxError otherwise"""
    items, err = _read(s, True)
    if err is not None:
        raise err
    return items


def parse_prefix(s, require_move=True):
    """(items before the first error, error or None).  items are the complete groups read before the error."""
    return _read(s, require_move)


def command_boundaries(s):
    """positions in a VALID string where a new command letter starts (excluding the first and excluding the
    closepath letters that complete a segment), i.e. the places where the string may be split for the
    continuation law."""
    items = parse(s)
    out = []
    seen = set()
    for it in items:
        if it["occ"] in seen:
            continue
        seen.add(it["occ"])
        out.append(it["span"][0])
    return out[1:]


# ---------------------------------------------------------------------------------------------------------
# interpreter
# ---------------------------------------------------------------------------------------------------------

def _refl(c, p):
    return (2.0 * p[0] - c[0], 2.0 * p[1] - c[1])


def interp(items, lenient_start=False, state=None):
    """absolute segments of the items (SVG 2 section 9.3).

    lenient_start: the data need not begin with a moveto; the current point is then undefined: the first
    segment gets start None, relative coordinates are taken as absolute (as for a leading 'm'), and a command
    that needs the current point (H, V, S, T, A, Z) ends the interpretation (returns what was read so far).
    """
    segs = []
    cur = None  # current point
    sub = None  # subpath start
    prev = None  # previous command letter class: 'C' (cubic family), 'Q' (quadratic family) or other
    prev_ctrl = None
    for it in items:
        c = it["cmd"]
        U = c.upper()
        rel = c.islower()
        a = it["args"]
        if cur is None and not (U == "M"):
            if not lenient_start or U in "HVSTAZ":
                break
        base = cur if (rel and cur is not None) else (0.0, 0.0)

        def pt(i):
            return (a[i] + base[0], a[i + 1] + base[1]) if rel else (a[i], a[i + 1])

        if U == "M":
            end = pt(0)
            segs.append({"kind": "Move", "start": cur, "end": end})
            cur = end
            sub = end
            prev = None
        elif U == "Z":
            segs.append({"kind": "Close", "start": cur, "end": sub})
            cur = sub
            prev = None
        elif U in "LHV":
            if it["zclose"]:
                end = sub
            elif U == "L":
                end = pt(0)
            elif U == "H":
                end = (a[0] + (cur[0] if rel else 0.0), cur[1])
            else:
                end = (cur[0], a[0] + (cur[1] if rel else 0.0))
            segs.append({"kind": "Line", "start": cur, "end": end})
            if sub is None:
                sub = cur if cur is not None else end
            cur = end
            prev = None
        elif U == "C":
            c1 = pt(0)
            c2 = pt(2)
            end = sub if it["zclose"] else pt(4)
            segs.append({"kind": "CubicBezier", "start": cur, "control1": c1, "control2": c2, "end": end})
            cur = end
            prev, prev_ctrl = "C", c2
        elif U == "S":
            c1 = _refl(prev_ctrl, cur) if prev == "C" else cur
            c2 = pt(0)
            end = sub if it["zclose"] else pt(2)
            segs.append({"kind": "CubicBezier", "start": cur, "control1": c1, "control2": c2, "end": end})
            cur = end
            prev, prev_ctrl = "C", c2
        elif U == "Q":
            c1 = pt(0)
            end = sub if it["zclose"] else pt(2)
            segs.append({"kind": "QuadraticBezier", "start": cur, "control": c1, "end": end})
            cur = end
            prev, prev_ctrl = "Q", c1
        elif U == "T":
            c1 = _refl(prev_ctrl, cur) if prev == "Q" else cur
            end = sub if it["zclose"] else pt(0)
            segs.append({"kind": "QuadraticBezier", "start": cur, "control": c1, "end": end})
            cur = end
            prev, prev_ctrl = "Q", c1
        elif U == "A":
            end = sub if it["zclose"] else pt(5)
            segs.append({"kind": "Arc", "start": cur, "end": end, "rx": abs(a[0]), "ry": abs(a[1]),
                         "rotation": a[2], "large": int(a[3]), "sweep": int(a[4])})
            cur = end
            prev = None
        segs[-1]["cmd"] = c
        segs[-1]["occ"] = it["occ"]
        if it["zclose"]:
            segs.append({"kind": "Close", "start": cur, "end": sub, "cmd": "z", "occ": it["occ"]})
            cur = sub
            prev = None
        if sub is None and cur is not None and U != "M":
            sub = cur
    return segs


# ---------------------------------------------------------------------------------------------------------
# elliptical arcs: SVG implementation notes F.6.5 (endpoint -> centre) and F.6.6 (out-of-range radii)
# ---------------------------------------------------------------------------------------------------------

def arc_center(seg):
    """centre parameterisation of an arc segment dict.

    returns None when the arc degenerates to a straight line (rx == 0 or ry == 0, F.6.2) or is omitted
    (start == end); otherwise dict(cx, cy, rx, ry, phi, theta1, dtheta, lam) with angles in radians;
    lam is the F.6.6 ratio (radii were scaled up by sqrt(lam) when lam > 1)."""
    x1, y1 = seg["start"]
    x2, y2 = seg["end"]
    rx, ry = abs(seg["rx"]), abs(seg["ry"])
    if (x1 == x2 and y1 == y2) or rx == 0 or ry == 0:
        return None
    phi = math.radians(math.fmod(seg["rotation"], 360.0))
    cp, sp = math.cos(phi), math.sin(phi)
    hx, hy = (x1 - x2) / 2.0, (y1 - y2) / 2.0
    x1p = cp * hx + sp * hy
    y1p = -sp * hx + cp * hy
    lam = (x1p / rx) ** 2 + (y1p / ry) ** 2
    if lam > 1.0:
        k = math.sqrt(lam)
        rx, ry = rx * k, ry * k
        co = 0.0
    else:
        num = rx * rx * ry * ry - rx * rx * y1p * y1p - ry * ry * x1p * x1p
        den = rx * rx * y1p * y1p + ry * ry * x1p * x1p
        co = math.sqrt(max(0.0, num / den))
    if bool(seg["large"]) == bool(seg["sweep"]):
        co = -co
    cxp = co * rx * y1p / ry
    cyp = -co * ry * x1p / rx
    cx = cp * cxp - sp * cyp + (x1 + x2) / 2.0
    cy = sp * cxp + cp * cyp + (y1 + y2) / 2.0
    ux, uy = (x1p - cxp) / rx, (y1p - cyp) / ry
    vx, vy = (-x1p - cxp) / rx, (-y1p - cyp) / ry
    theta1 = math.atan2(uy, ux)
    dtheta = math.atan2(ux * vy - uy * vx, ux * vx + uy * vy)
    if seg["sweep"] and dtheta < 0:
        dtheta += 2.0 * math.pi
    elif not seg["sweep"] and dtheta > 0:
        dtheta -= 2.0 * math.pi
    return {"cx": cx, "cy": cy, "rx": rx, "ry": ry, "phi": phi, "theta1": theta1, "dtheta": dtheta, "lam": lam}


def arc_point(seg, t, cen=None):
    """point of the arc at fraction t of its angular extent (the parameterisation of F.6.3)"""
    if cen is None:
        cen = arc_center(seg)
    if cen is None:
        x1, y1 = seg["start"]
        x2, y2 = seg["end"]
        return (x1 + (x2 - x1) * t, y1 + (y2 - y1) * t)
    th = cen["theta1"] + t * cen["dtheta"]
    cp, sp = math.cos(cen["phi"]), math.sin(cen["phi"])
    ex, ey = cen["rx"] * math.cos(th), cen["ry"] * math.sin(th)
    return (cen["cx"] + cp * ex - sp * ey, cen["cy"] + sp * ex + cp * ey)


def seg_point(seg, t):
    """point of any oracle segment at parameter t (Bezier parameter / arc angle fraction)"""
    k = seg["kind"]
    if k == "Move":
        return seg["end"]
    s, e = seg["start"], seg["end"]
    if k in ("Line", "Close"):
        return (s[0] + (e[0] - s[0]) * t, s[1] + (e[1] - s[1]) * t)
    u = 1.0 - t
    if k == "QuadraticBezier":
        c = seg["control"]
        return (u * u * s[0] + 2 * u * t * c[0] + t * t * e[0], u * u * s[1] + 2 * u * t * c[1] + t * t * e[1])
    if k == "CubicBezier":
        a, b = seg["control1"], seg["control2"]
        return (u * u * u * s[0] + 3 * u * u * t * a[0] + 3 * u * t * t * b[0] + t * t * t * e[0],
                u * u * u * s[1] + 3 * u * u * t * a[1] + 3 * u * t * t * b[1] + t * t * t * e[1])
    return arc_point(seg, t)
