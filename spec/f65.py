"""Independent oracle for elliptical arcs and curve lengths (pure Python floats; no numpy/scipy/mpmath).

Written from the SVG 1.1 / SVG 2 implementation notes, NOT from svgelements:

  F.6.2  out-of-range parameters: identical endpoints -> the segment is omitted; rx == 0 or ry == 0 -> a straight
         line from start to end; negative radii -> absolute values; flags: any non-zero value is 1; rotation mod 360.
  F.6.5  conversion from endpoint to centre parameterisation (steps 1-4).
  F.6.6  step 3: radii that are too small are scaled up uniformly by sqrt(lambda).

plus: the implicit equation of an ellipse, radial deviation of a point from an ellipse, point of an arc at a
fraction of its sweep, bounding boxes by analytic extrema, and arc length by Gauss-Legendre quadrature of the speed
(adaptive bisection, so cusps - where the speed has a kink - converge too).
"""
import math

TAU = 2.0 * math.pi


# ----------------------------------------------------------------------------------------------- F.6.5 / F.6.6
def _angle(ux, uy, vx, vy):
    """Signed angle from vector u to vector v (F.6.5.4), in (-pi, pi]."""
    return math.atan2(ux * vy - uy * vx, ux * vx + uy * vy)


def endpoint_to_center(x1, y1, rx, ry, phi_deg, fa, fs, x2, y2):
    """SVG F.6.5 with the F.6.2 / F.6.6 corrections.

    Returns a dict with "kind" in {"empty", "line", "arc"}. For "arc": cx, cy, rx, ry (effective, after abs and
    scale-up), phi (radians), theta1, dtheta (radians; dtheta > 0 iff fs, |dtheta| > pi iff fa apart from the
    half-turn boundary), lam (the F.6.6 lambda computed with the given radii)."""
    x1 = float(x1)
    y1 = float(y1)
    x2 = float(x2)
    y2 = float(y2)
    fa = 1 if fa else 0
    fs = 1 if fs else 0
    if x1 == x2 and y1 == y2:
        return {"kind": "empty", "x1": x1, "y1": y1, "x2": x2, "y2": y2}
    if rx == 0 or ry == 0:
        return {"kind": "line", "x1": x1, "y1": y1, "x2": x2, "y2": y2}
    rx = abs(float(rx))
    ry = abs(float(ry))
    phi = math.radians(math.fmod(float(phi_deg), 360.0))
    cp = math.cos(phi)
    sp = math.sin(phi)
    # step 1
    dx = (x1 - x2) / 2.0
    dy = (y1 - y2) / 2.0
    x1p = cp * dx + sp * dy
    y1p = -sp * dx + cp * dy
    # F.6.6 step 3
    lam = (x1p / rx) ** 2 + (y1p / ry) ** 2
    if lam > 1.0:
        s = math.sqrt(lam)
        rx *= s
        ry *= s
    # step 2 (written with the normalised coordinates a = x1'/rx, b = y1'/ry: radicand = (1 - a^2 - b^2)/(a^2+b^2))
    a = x1p / rx
    b = y1p / ry
    q = a * a + b * b
    rad = (1.0 - q) / q
    if rad < 0.0:
        rad = 0.0
    co = math.sqrt(rad)
    if fa == fs:
        co = -co
    cxp = co * rx * b
    cyp = -co * ry * a
    # step 3
    cx = cp * cxp - sp * cyp + (x1 + x2) / 2.0
    cy = sp * cxp + cp * cyp + (y1 + y2) / 2.0
    # step 4
    ux = (x1p - cxp) / rx
    uy = (y1p - cyp) / ry
    vx = (-x1p - cxp) / rx
    vy = (-y1p - cyp) / ry
    theta1 = _angle(1.0, 0.0, ux, uy)
    dtheta = _angle(ux, uy, vx, vy)
    if fs == 0 and dtheta > 0:
        dtheta -= TAU
    elif fs == 1 and dtheta < 0:
        dtheta += TAU
    return {"kind": "arc", "cx": cx, "cy": cy, "rx": rx, "ry": ry, "phi": phi, "theta1": theta1, "dtheta": dtheta,
            "lam": lam, "x1": x1, "y1": y1, "x2": x2, "y2": y2, "fa": fa, "fs": fs}


def ellipse_point(cx, cy, rx, ry, phi, theta):
    """F.6.3 equation: the point of the ellipse at eccentric angle theta."""
    cp = math.cos(phi)
    sp = math.sin(phi)
    ct = math.cos(theta)
    st = math.sin(theta)
    return (cx + rx * ct * cp - ry * st * sp, cy + rx * ct * sp + ry * st * cp)


def arc_point(c, frac):
    """Point of a centre-parameterised arc (dict from endpoint_to_center, or any dict with cx..dtheta) at the given
    fraction of its sweep; "line" and "empty" kinds interpolate the chord."""
    if c["kind"] != "arc":
        return (c["x1"] + (c["x2"] - c["x1"]) * frac, c["y1"] + (c["y2"] - c["y1"]) * frac)
    return ellipse_point(c["cx"], c["cy"], c["rx"], c["ry"], c["phi"], c["theta1"] + frac * c["dtheta"])


def ellipse_frame(cx, cy, rx, ry, phi, x, y):
    """Coordinates of (x, y) in the frame of the ellipse, normalised by the radii: a point of the ellipse has
    u^2 + v^2 == 1."""
    cp = math.cos(phi)
    sp = math.sin(phi)
    dx = x - cx
    dy = y - cy
    return ((cp * dx + sp * dy) / rx, (-sp * dx + cp * dy) / ry)


def ellipse_implicit(cx, cy, rx, ry, phi, x, y):
    """u^2 + v^2 - 1: zero exactly on the ellipse."""
    u, v = ellipse_frame(cx, cy, rx, ry, phi, x, y)
    return u * u + v * v - 1.0


def ellipse_radial_deviation(cx, cy, rx, ry, phi, x, y):
    """Distance from (x, y) to the point where the ray from the centre through (x, y) meets the ellipse (the
    implicit equation scaled to a distance). It bounds the distance to the ellipse from above and is at most
    max(rx,ry)/min(rx,ry) times that distance."""
    u, v = ellipse_frame(cx, cy, rx, ry, phi, x, y)
    s = math.hypot(u, v)
    d = math.hypot(x - cx, y - cy)
    if s == 0.0:
        return min(rx, ry)
    return abs(d - d / s)


def ellipse_normal_deviation(cx, cy, rx, ry, phi, x, y):
    """First-order distance to the ellipse: F / |grad F| with F = u^2+v^2-1 (tight for small deviations)."""
    u, v = ellipse_frame(cx, cy, rx, ry, phi, x, y)
    f = u * u + v * v - 1.0
    g = 2.0 * math.hypot(u / rx, v / ry)
    if g == 0.0:
        return min(rx, ry)
    return abs(f) / g


def eccentric_angle(cx, cy, rx, ry, phi, x, y):
    u, v = ellipse_frame(cx, cy, rx, ry, phi, x, y)
    return math.atan2(v, u)


# ----------------------------------------------------------------------------------------------- bounding boxes
def ellipse_arc_bbox(cx, cy, rx, ry, phi, theta1, dtheta):
    """Tight bounding box of the arc theta in [theta1, theta1+dtheta] by analytic extrema."""
    pts = [ellipse_point(cx, cy, rx, ry, phi, theta1), ellipse_point(cx, cy, rx, ry, phi, theta1 + dtheta)]
    cp = math.cos(phi)
    sp = math.sin(phi)
    # x(theta) = cx + rx cp cos - ry sp sin : stationary at theta = atan2(-ry sp, rx cp) + k pi
    # y(theta) = cy + rx sp cos + ry cp sin : stationary at theta = atan2(ry cp, rx sp) + k pi
    lo = min(theta1, theta1 + dtheta)
    hi = max(theta1, theta1 + dtheta)
    for base in (math.atan2(-ry * sp, rx * cp), math.atan2(ry * cp, rx * sp)):
        k0 = math.ceil((lo - base) / math.pi)
        k = k0
        n = 0
        while base + k * math.pi <= hi and n < 8:
            pts.append(ellipse_point(cx, cy, rx, ry, phi, base + k * math.pi))
            k += 1
            n += 1
    xs = [p[0] for p in pts]
    ys = [p[1] for p in pts]
    return (min(xs), min(ys), max(xs), max(ys))


# ----------------------------------------------------------------------------------------------- quadrature
def _legendre(n, x):
    p0, p1 = 1.0, x
    for k in range(2, n + 1):
        p0, p1 = p1, ((2 * k - 1) * x * p1 - (k - 1) * p0) / k
    dp = n * (x * p1 - p0) / (x * x - 1.0)
    return p1, dp


def gauss_legendre(n):
    """Nodes and weights of the n-point Gauss-Legendre rule on [-1, 1] (Newton iteration on P_n)."""
    xs = []
    ws = []
    for i in range(n):
        x = math.cos(math.pi * (i + 0.75) / (n + 0.5))
        for _ in range(100):
            p, dp = _legendre(n, x)
            dx = p / dp
            x -= dx
            if abs(dx) < 1e-16:
                break
        p, dp = _legendre(n, x)
        xs.append(x)
        ws.append(2.0 / ((1.0 - x * x) * dp * dp))
    return xs, ws


_GL = {}


def _rule(n):
    if n not in _GL:
        _GL[n] = gauss_legendre(n)
    return _GL[n]


def _gl(f, a, b, n):
    xs, ws = _rule(n)
    h = (b - a) / 2.0
    m = (a + b) / 2.0
    return h * math.fsum(w * f(m + h * x) for x, w in zip(xs, ws))


def integrate(f, a, b, rel=1e-13, abs_tol=0.0, n=24, pieces=4, max_depth=48):
    """Adaptive Gauss-Legendre: [a,b] is cut into `pieces`, each piece is bisected until the n-point rule on the
    piece agrees with the sum over its halves to rel*|total estimate| + abs_tol (or max_depth)."""
    if a == b:
        return 0.0
    edges = [a + (b - a) * i / pieces for i in range(pieces + 1)]
    coarse = [_gl(f, edges[i], edges[i + 1], n) for i in range(pieces)]
    scale = math.fsum(abs(c) for c in coarse)
    tol = rel * scale + abs_tol
    parts = []

    def rec(lo, hi, whole, depth):
        mid = (lo + hi) / 2.0
        left = _gl(f, lo, mid, n)
        right = _gl(f, mid, hi, n)
        if abs(left + right - whole) <= tol * (hi - lo) / (b - a) or depth >= max_depth or mid == lo or mid == hi:
            parts.append(left + right)
            return
        rec(lo, mid, left, depth + 1)
        rec(mid, hi, right, depth + 1)

    for i in range(pieces):
        rec(edges[i], edges[i + 1], coarse[i], 0)
    return math.fsum(parts)


# ----------------------------------------------------------------------------------------------- curves
def line_length(p0, p1):
    return math.hypot(p1[0] - p0[0], p1[1] - p0[1])


def bezier_point(ctrl, t):
    """de Casteljau on a list of control points (2 = line, 3 = quadratic, 4 = cubic)."""
    pts = [(float(p[0]), float(p[1])) for p in ctrl]
    while len(pts) > 1:
        pts = [((1.0 - t) * pts[i][0] + t * pts[i + 1][0], (1.0 - t) * pts[i][1] + t * pts[i + 1][1])
               for i in range(len(pts) - 1)]
    return pts[0]


def bezier_speed(ctrl):
    n = len(ctrl) - 1
    d = [(n * (ctrl[i + 1][0] - ctrl[i][0]), n * (ctrl[i + 1][1] - ctrl[i][1])) for i in range(n)]

    def speed(t):
        if len(d) == 1:
            return math.hypot(d[0][0], d[0][1])
        x, y = bezier_point(d, t)
        return math.hypot(x, y)

    return speed


def bezier_length(ctrl, rel=1e-13):
    """Arc length of a Bezier curve of degree 1..3: integral of |B'(t)| over [0,1]."""
    if len(ctrl) == 2:
        return line_length(ctrl[0], ctrl[1])
    return integrate(bezier_speed(ctrl), 0.0, 1.0, rel=rel)


def ellipse_arc_length(rx, ry, theta1, dtheta, rel=1e-13):
    """Arc length of theta -> (rx cos theta, ry sin theta) over [theta1, theta1+dtheta] (rotation and centre do not
    matter): integral of sqrt(rx^2 sin^2 + ry^2 cos^2)."""
    rx = abs(rx)
    ry = abs(ry)

    def speed(t):
        return math.hypot(rx * math.sin(t), ry * math.cos(t))

    a = theta1
    b = theta1 + dtheta
    turns = max(1, int(math.ceil(abs(dtheta) / (math.pi / 2.0))))
    return abs(integrate(speed, a, b, rel=rel, pieces=4 * turns))


def bezier_bbox(ctrl):
    """Tight bounding box of a Bezier curve of degree 1..3 from the real roots of the derivative in (0,1)."""
    out = []
    for ax in (0, 1):
        v = [float(p[ax]) for p in ctrl]
        ts = [0.0, 1.0]
        if len(v) == 3:
            den = v[0] - 2 * v[1] + v[2]
            if den != 0:
                ts.append((v[0] - v[1]) / den)
        elif len(v) == 4:
            # derivative/3 = a t^2 + b t + c
            a = -v[0] + 3 * v[1] - 3 * v[2] + v[3]
            b = 2 * (v[0] - 2 * v[1] + v[2])
            c = v[1] - v[0]
            ts.extend(_quadratic_roots(a, b, c))
        vals = [bezier_point([(x, 0.0) for x in v], t)[0] for t in ts if 0.0 <= t <= 1.0]
        out.append((min(vals), max(vals)))
    return (out[0][0], out[1][0], out[0][1], out[1][1])


def _quadratic_roots(a, b, c):
    """Real roots of a t^2 + b t + c, numerically stable (no cancellation), degenerate cases included."""
    if a == 0:
        if b == 0:
            return []
        return [-c / b]
    disc = b * b - 4 * a * c
    if disc < 0:
        return []
    sq = math.sqrt(disc)
    q = -0.5 * (b + math.copysign(sq, b)) if b != 0 else -0.5 * sq
    roots = []
    if q != 0:
        roots.append(c / q)
    roots.append(q / a)
    return roots
