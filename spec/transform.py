"""Independent evaluator of SVG / CSS 2-D transform lists (SVG 1.1 section 7.6, SVG 2 section 8.5,
CSS Transforms 1 sections 10-12).  Written from the specifications; shares no code with svgelements.

Grammar read (names and units ASCII case-insensitive):

    transform-list ::= wsp* ( transform ( comma-wsp* transform )* )? wsp*
    transform      ::= name wsp* "(" wsp* number-with-unit ( comma-wsp number-with-unit )* wsp* ")"
    name           ::= matrix | translate | translateX | translateY | scale | scaleX | scaleY | rotate
                     | skew | skewX | skewY
    number         ::= [+-]? ( digit+ ("." digit*)? | "." digit+ ) ( [eE] [+-]? digit+ )?
    comma-wsp      ::= wsp+ ","? wsp* | "," wsp*          (and nothing at all before a sign: "1-2")

Semantics: the list denotes the product T1 . T2 ... Tn of its functions in the order written, acting on column
vectors, i.e. the RIGHT-most function is applied to a point first.  A matrix is reported as the SVG 6-tuple
(a, b, c, d, e, f) = [[a, c, e], [b, d, f], [0, 0, 1]].

    matrix(a b c d e f)
    translate(tx [ty = 0])   translateX(tx)   translateY(ty)
    scale(sx [sy = sx])      scaleX(sx)       scaleY(sy)
    rotate(angle [cx cy])    = translate(cx, cy) rotate(angle) translate(-cx, -cy)
    skewX(a) = [[1, tan a], [0, 1]]    skewY(a) = [[1, 0], [tan a, 1]]    skew(ax [ay = 0]) = [[1, tan ax], [tan ay, 1]]

Angles: deg (default when unitless), grad (400 per turn), rad, turn.  Lengths (translate, rotate centre):
px and unitless = 1 user unit, pt = 4/3, pc = 16, in = ppi, cm = ppi / 2.54, mm = ppi / 25.4, Q = ppi / 101.6,
% of width (x) / height (y), em = font_size, ex = font_height.

All arithmetic on the numbers is exact (fractions.Fraction); sines, cosines and tangents come from math and are
then carried as exact fractions of the returned doubles, so the only rounding is the one inside math.sin/cos/tan
and the final conversion to float.
"""
import math
from fractions import Fraction

WSP = " \t\n\r\x0c"
ARGC = {
    "matrix": (6,), "translate": (1, 2), "translatex": (1,), "translatey": (1,), "scale": (1, 2), "scalex": (1,),
    "scaley": (1,), "rotate": (1, 3), "skew": (1, 2), "skewx": (1,), "skewy": (1,),
}
ANGLE_UNITS = {"": Fraction(1, 360), "deg": Fraction(1, 360), "grad": Fraction(1, 400), "turn": Fraction(1)}


class TransformSyntaxError(ValueError):
    pass


def _number(s, i):
    n = len(s)
    j = i
    if j < n and s[j] in "+-":
        j += 1
    k = j
    while k < n and s[k].isdigit() and s[k] in "0123456789":
        k += 1
    nd = k - j
    if k < n and s[k] == ".":
        m = k + 1
        while m < n and s[m] in "0123456789":
            m += 1
        if m - k - 1 > 0 or nd > 0:
            nd += m - k - 1
            k = m
    if nd == 0:
        return None, i
    if k < n and s[k] in "eE":
        m = k + 1
        if m < n and s[m] in "+-":
            m += 1
        if m < n and s[m] in "0123456789":
            while m < n and s[m] in "0123456789":
                m += 1
            k = m
    text = s[i:k]
    t = text
    if t.endswith("."):
        t = t[:-1]
    t = t.replace(".e", "e").replace(".E", "E") if (".e" in t or ".E" in t) else t
    return Fraction(t), k


def parse(s):
    """list of (lower-case name, [(Fraction, lower-case unit), ...])"""
    out = []
    i, n = 0, len(s)

    def wsp(i):
        while i < n and s[i] in WSP:
            i += 1
        return i

    i = wsp(i)
    first = True
    while i < n:
        if not first:
            # comma-wsp* between transforms
            while i < n and (s[i] in WSP or s[i] == ","):
                i += 1
            if i >= n:
                break
        first = False
        j = i
        while j < n and (s[j].isalpha() and s[j].isascii()):
            j += 1
        name = s[i:j].lower()
        if name not in ARGC:
            raise TransformSyntaxError("unknown transform function %r at %d" % (s[i:j], i))
        i = wsp(j)
        if i >= n or s[i] != "(":
            raise TransformSyntaxError("'(' expected at %d" % i)
        i = wsp(i + 1)
        args = []
        while True:
            v, k = _number(s, i)
            if v is None:
                raise TransformSyntaxError("number expected at %d" % i)
            i = k
            u = i
            while u < n and ((s[u].isalpha() and s[u].isascii()) or s[u] == "%"):
                u += 1
            args.append((v, s[i:u].lower()))
            i = wsp(u)
            if i < n and s[i] == ")":
                i += 1
                break
            if i < n and s[i] == ",":
                i = wsp(i + 1)
            if i >= n:
                raise TransformSyntaxError("')' expected")
        if len(args) not in ARGC[name]:
            raise TransformSyntaxError("%s takes %s arguments, got %d" % (name, ARGC[name], len(args)))
        out.append((name, args))
        i = wsp(i)
    return out


def _angle(arg):
    """angle in radians as a float"""
    v, u = arg
    if u == "rad":
        return float(v)
    if u not in ANGLE_UNITS:
        raise TransformSyntaxError("not an angle unit: %r" % u)
    turns = v * ANGLE_UNITS[u]
    return float(turns * 2) * math.pi


def _length(arg, axis, env):
    v, u = arg
    ppi = env.get("ppi")
    if u in ("", "px"):
        return v
    if u == "pt":
        return v * Fraction(4, 3)
    if u == "pc":
        return v * 16
    if u in ("in", "cm", "mm", "q"):
        if ppi is None:
            raise TransformSyntaxError("unit %r needs ppi" % u)
        ppi = Fraction(ppi)
        return v * ppi / {"in": Fraction(1), "cm": Fraction(254, 100), "mm": Fraction(254, 10), "q": Fraction(1016, 10)}[u]
    if u == "%":
        ref = env.get("width" if axis == "x" else "height")
        if ref is None:
            ref = env.get("relative_length")
        if ref is None:
            raise TransformSyntaxError("% needs a reference length")
        return v * Fraction(ref) / 100
    if u == "em":
        return v * Fraction(env["font_size"])
    if u == "ex":
        return v * Fraction(env["font_height"])
    raise TransformSyntaxError("not a length unit: %r" % u)


def _plain(arg):
    v, u = arg
    if u != "":
        raise TransformSyntaxError("plain number expected, got unit %r" % u)
    return v


def _mul(m, n):
    a, b, c, d, e, f = m
    A, B, C, D, E, F = n
    return (a * A + c * B, b * A + d * B, a * C + c * D, b * C + d * D, a * E + c * F + e, b * E + d * F + f)


def function_matrix(name, args, env=None):
    env = env or {}
    F = Fraction
    one, zero = F(1), F(0)
    if name == "matrix":
        return tuple(_plain(a) for a in args)
    if name == "translate":
        tx = _length(args[0], "x", env)
        ty = _length(args[1], "y", env) if len(args) > 1 else zero
        return (one, zero, zero, one, tx, ty)
    if name == "translatex":
        return (one, zero, zero, one, _length(args[0], "x", env), zero)
    if name == "translatey":
        return (one, zero, zero, one, zero, _length(args[0], "y", env))
    if name == "scale":
        sx = _plain(args[0])
        sy = _plain(args[1]) if len(args) > 1 else sx
        return (sx, zero, zero, sy, zero, zero)
    if name == "scalex":
        return (_plain(args[0]), zero, zero, one, zero, zero)
    if name == "scaley":
        return (one, zero, zero, _plain(args[0]), zero, zero)
    if name == "rotate":
        t = _angle(args[0])
        c, s = F(math.cos(t)), F(math.sin(t))
        r = (c, s, -s, c, zero, zero)
        if len(args) == 3:
            cx, cy = _length(args[1], "x", env), _length(args[2], "y", env)
            r = _mul(_mul((one, zero, zero, one, cx, cy), r), (one, zero, zero, one, -cx, -cy))
        return r
    if name == "skewx":
        return (one, zero, F(math.tan(_angle(args[0]))), one, zero, zero)
    if name == "skewy":
        return (one, F(math.tan(_angle(args[0]))), zero, one, zero, zero)
    if name == "skew":
        ax = F(math.tan(_angle(args[0])))
        ay = F(math.tan(_angle(args[1]))) if len(args) > 1 else zero
        return (one, ay, ax, one, zero, zero)
    raise TransformSyntaxError(name)


def evaluate(s, **env):
    """(a, b, c, d, e, f) as floats of the transform list s; env: ppi, width, height, relative_length,
    font_size, font_height"""
    m = (Fraction(1), Fraction(0), Fraction(0), Fraction(1), Fraction(0), Fraction(0))
    for name, args in parse(s):
        m = _mul(m, function_matrix(name, args, env))
    return tuple(float(x) for x in m)


def apply(m, p):
    a, b, c, d, e, f = m
    return (a * p[0] + c * p[1] + e, b * p[0] + d * p[1] + f)
