"""One command group of SVG 2 section 9.3 path data, written from the specification (independent of the library).

state = dict(cur=(x, y) or None, start=(x, y) or None (current subpath's initial point),
             last=("Q"|"C"|None, control point of the previous curve))
A segment is a tuple (kind, start, c1, c2, end, arc) with unused entries None.
Numbers may be floats or symbolic values: only + - * and unary minus are used.
"""

ARITY = {"M": 2, "L": 2, "H": 1, "V": 1, "C": 6, "S": 4, "Q": 4, "T": 2, "A": 7, "Z": 0}


def reflect(ctrl, about):
    return (2 * about[0] - ctrl[0], 2 * about[1] - ctrl[1])


def group(state, cmd, vals, first_of_command=True, z_at=None):
    """apply one operand group of command letter `cmd`; returns (segment, new_state).
    z_at: index of the coordinate pair replaced by a segment-completing 'z' (SVG 2), counted in pairs."""
    up = cmd.upper()
    rel = cmd.islower()
    cur, start, last = state["cur"], state["start"], state["last"]

    def pair(i, pair_index):
        if z_at is not None and pair_index >= z_at:
            return start          # the close path replaces the missing pair(s) by the subpath's initial point
        x, y = vals[i], vals[i + 1]
        if rel and cur is not None:
            return (cur[0] + x, cur[1] + y)
        return (x, y)

    if up == "M":
        p = pair(0, 0)
        if first_of_command:
            return ("Move", cur, None, None, p, None), dict(cur=p, start=p, last=(None, None))
        return ("Line", cur, None, None, p, None), dict(cur=p, start=start, last=(None, None))
    if up == "Z":
        return ("Close", cur, None, None, start, None), dict(cur=start, start=start, last=(None, None))
    if up == "L":
        p = pair(0, 0)
        return ("Line", cur, None, None, p, None), dict(cur=p, start=start, last=(None, None))
    if up == "H":
        x = vals[0] + cur[0] if rel else vals[0]
        p = (x, cur[1])
        return ("Line", cur, None, None, p, None), dict(cur=p, start=start, last=(None, None))
    if up == "V":
        y = vals[0] + cur[1] if rel else vals[0]
        p = (cur[0], y)
        return ("Line", cur, None, None, p, None), dict(cur=p, start=start, last=(None, None))
    if up == "C":
        c1, c2, p = pair(0, 0), pair(2, 1), pair(4, 2)
        return ("CubicBezier", cur, c1, c2, p, None), dict(cur=p, start=start, last=("C", c2))
    if up == "S":
        c1 = reflect(last[1], cur) if last[0] == "C" else cur
        c2, p = pair(0, 0), pair(2, 1)
        return ("CubicBezier", cur, c1, c2, p, None), dict(cur=p, start=start, last=("C", c2))
    if up == "Q":
        c, p = pair(0, 0), pair(2, 1)
        return ("QuadraticBezier", cur, c, None, p, None), dict(cur=p, start=start, last=("Q", c))
    if up == "T":
        c = reflect(last[1], cur) if last[0] == "Q" else cur
        p = pair(0, 0)
        return ("QuadraticBezier", cur, c, None, p, None), dict(cur=p, start=start, last=("Q", c))
    if up == "A":
        rx, ry, rot, fa, fs = vals[0], vals[1], vals[2], vals[3], vals[4]
        p = pair(5, 0)
        return ("Arc", cur, None, None, p, (rx, ry, rot, fa, fs)), dict(cur=p, start=start, last=(None, None))
    raise ValueError(cmd)
