"""Independent evaluator of the rendered geometry of an SVG document.

Written from the specifications, not from svgelements:
  * SVG 2 ch. 8.2  (viewBox / preserveAspectRatio equivalent transform), ch. 8.5 (transform lists: the
    right-most function is applied to the coordinates first), ch. 8.9 (percentages: x/width against the width
    of the nearest viewport = the viewBox width if the svg establishing it has a viewBox, y/height against the
    height, every other length against sqrt((w^2+h^2)/2)),
  * SVG 2 ch. 5.6  (use = group carrying the use's transform followed by translate(x, y), containing the
    referenced element; defs never rendered directly; display:none subtrees not rendered),
  * SVG 2 ch. 10   (equivalent paths of rect, circle, ellipse, line, polyline, polygon), ch. 9 (path data),
  * CSS Values 3   (1in = 96px ... here 1in = ppi user units, 1cm = ppi/2.54, 1mm = ppi/25.4, and the
    pixel anchored 1pt = 4/3, 1pc = 16 user units - the project's stated unit convention).

Two conventions of the library's *caller interface* (not of SVG) are taken over because SVG leaves the size of
the outermost viewport to the user agent: caller width/height give the outermost viewport; if they are not
given the viewBox size of the root svg is used, or 1000 when there is none.

A matrix is the tuple (a, b, c, d, e, f):  x' = a x + c y + e,  y' = b x + d y + f.
"""
import math
import re
import xml.etree.ElementTree as ET

SVGNS = "{http://www.w3.org/2000/svg}"
XLINK_HREF = "{http://www.w3.org/1999/xlink}href"
IDENT = (1.0, 0.0, 0.0, 1.0, 0.0, 0.0)

SHAPE_TAGS = ("rect", "circle", "ellipse", "line", "polyline", "polygon", "path")

_NUM = r"[+-]?(?:\d+\.?\d*|\.\d+)(?:[eE][+-]?\d+)?"
_RE_LEN = re.compile(r"^\s*(" + _NUM + r")\s*(px|in|cm|mm|pt|pc|%|)\s*$")
_RE_NUM = re.compile(_NUM)
_RE_TF = re.compile(r"\s*([A-Za-z]+)\s*\(([^)]*)\)\s*,?")
_RE_PATH = re.compile(r"([MmLlHhVvCcQqZz])|(" + _NUM + ")")


class Unsupported(Exception):
    """The document uses something this evaluator does not interpret."""


# ---------------------------------------------------------------------------------------------- matrices

def mmul(m, n):
    """Product m.n : n is applied to the coordinates first, then m."""
    a, b, c, d, e, f = m
    A, B, C, D, E, F = n
    return (a * A + c * B, b * A + d * B, a * C + c * D, b * C + d * D, a * E + c * F + e, b * E + d * F + f)


def mapply(m, p):
    a, b, c, d, e, f = m
    x, y = p
    return (a * x + c * y + e, b * x + d * y + f)


def mdet(m):
    return m[0] * m[3] - m[1] * m[2]


def minv(m):
    a, b, c, d, e, f = m
    det = a * d - b * c
    ia, ib, ic, id_ = d / det, -b / det, -c / det, a / det
    return (ia, ib, ic, id_, -(ia * e + ic * f), -(ib * e + id_ * f))


def translate(tx, ty=0.0):
    return (1.0, 0.0, 0.0, 1.0, tx, ty)


def scale(sx, sy=None):
    return (sx, 0.0, 0.0, sx if sy is None else sy, 0.0, 0.0)


def parse_transform(text):
    """SVG transform list -> matrix. 'A B C' means the matrix product A.B.C (C is applied first)."""
    m = IDENT
    if text is None:
        return m
    pos = 0
    text = text.strip()
    while pos < len(text):
        mt = _RE_TF.match(text, pos)
        if mt is None:
            raise Unsupported("transform %r" % text)
        pos = mt.end()
        name = mt.group(1)
        args = [float(v) for v in _RE_NUM.findall(mt.group(2))]
        if name == "matrix" and len(args) == 6:
            t = tuple(args)
        elif name == "translate" and len(args) in (1, 2):
            t = translate(args[0], args[1] if len(args) == 2 else 0.0)
        elif name == "scale" and len(args) in (1, 2):
            t = scale(args[0], args[1] if len(args) == 2 else args[0])
        elif name == "rotate" and len(args) in (1, 3):
            r = math.radians(args[0])
            co, si = math.cos(r), math.sin(r)
            t = (co, si, -si, co, 0.0, 0.0)
            if len(args) == 3:
                t = mmul(mmul(translate(args[1], args[2]), t), translate(-args[1], -args[2]))
        elif name == "skewX" and len(args) == 1:
            t = (1.0, 0.0, math.tan(math.radians(args[0])), 1.0, 0.0, 0.0)
        elif name == "skewY" and len(args) == 1:
            t = (1.0, math.tan(math.radians(args[0])), 0.0, 1.0, 0.0, 0.0)
        else:
            raise Unsupported("transform function %r" % mt.group(0))
        m = mmul(m, t)
    return m


def transform_class(m, eps=1e-12):
    a, b, c, d, e, f = m
    if abs(b) < eps and abs(c) < eps:
        if abs(a - 1) < eps and abs(d - 1) < eps:
            return "identity" if abs(e) < eps and abs(f) < eps else "translate"
        if a * d < 0:
            return "reflect"
        if a < 0:
            return "halfturn-scale"
        return "uniform-scale" if abs(a - d) < 1e-9 * max(abs(a), abs(d)) else "scale"
    det = a * d - b * c
    if det < 0:
        return "general-negdet"
    if abs(a - d) < 1e-9 * (abs(a) + abs(d) + 1e-300) and abs(b + c) < 1e-9 * (abs(b) + abs(c) + 1e-300):
        return "rotate-scale"
    return "general"


# ---------------------------------------------------------------------------------------------- lengths

UNIT_EPS = [0.0]  # relative perturbation of the physical units (sensitivity analysis only, see evaluate())


def _eps(unit):
    e = UNIT_EPS[0]
    return e.get(unit, 0.0) if isinstance(e, dict) else e


def length(text, ref, ppi):
    """Resolve a length / percentage attribute value into user units. ref: what 100% means."""
    mt = _RE_LEN.match(str(text))
    if mt is None:
        raise Unsupported("length %r" % (text,))
    v = float(mt.group(1))
    u = mt.group(2)
    if u in ("", "px"):
        return v
    if u == "%":
        return v * ref / 100.0
    if u == "in":
        return v * ppi * (1.0 + _eps("in"))
    if u == "cm":
        return v * ppi / 2.54 * (1.0 + _eps("cm"))
    if u == "mm":
        return v * ppi / 25.4 * (1.0 + _eps("mm"))
    if u == "pt":
        return v * 4.0 / 3.0
    if u == "pc":
        return v * 16.0
    raise Unsupported("unit %r" % u)


def length_flags(text):
    mt = _RE_LEN.match(str(text))
    if mt is None:
        return ""
    u = mt.group(2)
    return "%" if u == "%" else ("unit" if u not in ("", "px") else "")


def viewbox_transform(e_x, e_y, e_w, e_h, vb, par):
    """SVG 2 section 8.2 'equivalent transform of an SVG viewport'."""
    vb_x, vb_y, vb_w, vb_h = vb
    align, mos = "xMidYMid", "meet"
    if par is not None:
        parts = par.split()
        if parts and parts[0] == "defer":
            parts = parts[1:]
        if parts:
            align = parts[0]
        if len(parts) > 1:
            mos = parts[1]
    sx = e_w / vb_w
    sy = e_h / vb_h
    if align != "none" and mos == "meet":
        sx = sy = min(sx, sy)
    elif align != "none" and mos == "slice":
        sx = sy = max(sx, sy)
    tx = e_x - vb_x * sx
    ty = e_y - vb_y * sy
    if "xMid" in align:
        tx += (e_w - vb_w * sx) / 2.0
    if "xMax" in align:
        tx += e_w - vb_w * sx
    if "YMid" in align:
        ty += (e_h - vb_h * sy) / 2.0
    if "YMax" in align:
        ty += e_h - vb_h * sy
    return mmul(translate(tx, ty), scale(sx, sy))


# ---------------------------------------------------------------------------------------------- primitives
# ("M", p)  ("L", p0, p1)  ("Z", p0, p1)  ("Q", p0, c, p1)  ("C", p0, c1, c2, p1)
# ("E", m, cx, cy, rx, ry, a0, a1): m applied to (cx + rx cos a, cy + ry sin a), a from a0 to a1.

def prim_point(pr, t):
    k = pr[0]
    if k == "M":
        return pr[1]
    if k in ("L", "Z"):
        (x0, y0), (x1, y1) = pr[1], pr[2]
        return (x0 + (x1 - x0) * t, y0 + (y1 - y0) * t)
    if k == "Q":
        (x0, y0), (x1, y1), (x2, y2) = pr[1], pr[2], pr[3]
        u = 1 - t
        return (u * u * x0 + 2 * u * t * x1 + t * t * x2, u * u * y0 + 2 * u * t * y1 + t * t * y2)
    if k == "C":
        (x0, y0), (x1, y1), (x2, y2), (x3, y3) = pr[1], pr[2], pr[3], pr[4]
        u = 1 - t
        return (u * u * u * x0 + 3 * u * u * t * x1 + 3 * u * t * t * x2 + t * t * t * x3,
                u * u * u * y0 + 3 * u * u * t * y1 + 3 * u * t * t * y2 + t * t * t * y3)
    if k == "E":
        _, m, cx, cy, rx, ry, a0, a1 = pr
        a = a0 + (a1 - a0) * t
        return mapply(m, (cx + rx * math.cos(a), cy + ry * math.sin(a)))
    raise ValueError(k)


def prim_map(pr, m):
    k = pr[0]
    if k == "E":
        return ("E", mmul(m, pr[1])) + tuple(pr[2:])
    return (k,) + tuple(mapply(m, p) for p in pr[1:])


def closest_on_curve(point_fn, p, coarse=24, iters=48):
    """min over t in [0,1] of |point_fn(t) - p| (coarse scan + golden section); returns (dist, t)."""
    px, py = p
    best_t, best_d = 0.0, None
    ds = []
    for i in range(coarse + 1):
        t = i / coarse
        x, y = point_fn(t)
        dd = (x - px) * (x - px) + (y - py) * (y - py)
        ds.append(dd)
        if best_d is None or dd < best_d:
            best_d, best_t = dd, t
    lo = max(0.0, best_t - 1.0 / coarse)
    hi = min(1.0, best_t + 1.0 / coarse)
    g = 0.6180339887498949
    c = hi - g * (hi - lo)
    d = lo + g * (hi - lo)

    def f(t):
        x, y = point_fn(t)
        return (x - px) * (x - px) + (y - py) * (y - py)

    fc, fd = f(c), f(d)
    for _ in range(iters):
        if fc < fd:
            hi, d, fd = d, c, fc
            c = hi - g * (hi - lo)
            fc = f(c)
        else:
            lo, c, fc = c, d, fd
            d = lo + g * (hi - lo)
            fd = f(d)
        if hi - lo < 1e-13:
            break
    t = (lo + hi) / 2
    ft = f(t)
    if ft < best_d:
        best_d, best_t = ft, t
    return math.sqrt(best_d), best_t


def dist_point_prim(pr, p):
    k = pr[0]
    if k == "M":
        return math.hypot(pr[1][0] - p[0], pr[1][1] - p[1])
    if k in ("L", "Z"):
        (x0, y0), (x1, y1) = pr[1], pr[2]
        dx, dy = x1 - x0, y1 - y0
        l2 = dx * dx + dy * dy
        t = 0.0 if l2 == 0 else max(0.0, min(1.0, ((p[0] - x0) * dx + (p[1] - y0) * dy) / l2))
        return math.hypot(x0 + t * dx - p[0], y0 + t * dy - p[1])
    return closest_on_curve(lambda t: prim_point(pr, t), p)[0]


def dist_point_prims(prims, p):
    best = None
    for pr in prims:
        if pr[0] == "M" and len(prims) > 1:
            continue
        d = dist_point_prim(pr, p)
        if best is None or d < best:
            best = d
    return best


# ---------------------------------------------------------------------------------------------- path data

def parse_path(d):
    """Path data restricted to M L H V C Q Z (absolute and relative, implicit repeats) -> primitives."""
    toks = []
    pos = 0
    d = d or ""
    for mt in _RE_PATH.finditer(d):
        if d[pos:mt.start()].strip(" \t\r\n,") != "":
            raise Unsupported("path data %r" % d)
        pos = mt.end()
        toks.append(mt.group(1) if mt.group(1) else float(mt.group(2)))
    if d[pos:].strip(" \t\r\n,") != "":
        raise Unsupported("path data %r" % d)
    prims = []
    i = 0
    cur = (0.0, 0.0)
    start = None
    cmd = None
    nargs = {"M": 2, "L": 2, "H": 1, "V": 1, "C": 6, "Q": 4, "Z": 0}
    while i < len(toks):
        if isinstance(toks[i], str):
            cmd = toks[i]
            i += 1
            if cmd in "Zz":
                if start is None:
                    raise Unsupported("close without subpath")
                prims.append(("Z", cur, start))
                cur = start
                cmd = None
                continue
        elif cmd is None:
            raise Unsupported("number without command")
        n = nargs[cmd.upper()]
        a = toks[i:i + n]
        if len(a) != n or any(isinstance(v, str) for v in a):
            raise Unsupported("argument count")
        i += n
        rel = cmd.islower()
        ox, oy = cur if rel else (0.0, 0.0)
        C = cmd.upper()
        if C == "M":
            cur = (ox + a[0], oy + a[1])
            start = cur
            prims.append(("M", cur))
            cmd = "l" if rel else "L"
        elif C == "L":
            nxt = (ox + a[0], oy + a[1])
            prims.append(("L", cur, nxt))
            cur = nxt
        elif C == "H":
            nxt = ((cur[0] if rel else 0.0) + a[0], cur[1])
            prims.append(("L", cur, nxt))
            cur = nxt
        elif C == "V":
            nxt = (cur[0], (cur[1] if rel else 0.0) + a[0])
            prims.append(("L", cur, nxt))
            cur = nxt
        elif C == "C":
            c1 = (ox + a[0], oy + a[1])
            c2 = (ox + a[2], oy + a[3])
            nxt = (ox + a[4], oy + a[5])
            prims.append(("C", cur, c1, c2, nxt))
            cur = nxt
        elif C == "Q":
            c1 = (ox + a[0], oy + a[1])
            nxt = (ox + a[2], oy + a[3])
            prims.append(("Q", cur, c1, nxt))
            cur = nxt
        if start is None:
            raise Unsupported("drawing before moveto")
    return prims


# ---------------------------------------------------------------------------------------------- evaluator

class RShape(object):
    """One rendered shape: kind, id, primitives in absolute coordinates, provenance."""

    __slots__ = ("kind", "id", "prims", "ctm", "chain", "flags", "local_scale", "attrs")

    def samples(self, per_curve=4):
        """Outline points that must lie on the rendered shape (segment ends + interior points)."""
        pts = []
        for pr in self.prims:
            k = pr[0]
            if k == "M":
                pts.append(pr[1])
            elif k in ("L", "Z"):
                pts.append(prim_point(pr, 0.5))
                pts.append(pr[2])
            else:
                for j in range(1, per_curve + 1):
                    pts.append(prim_point(pr, j / float(per_curve)))
        return pts

    def coord_scale(self):
        s = 1.0
        for pr in self.prims:
            if pr[0] == "E":
                for t in (0.0, 0.5, 1.0):
                    x, y = prim_point(pr, t)
                    s = max(s, abs(x), abs(y))
            else:
                for x, y in pr[1:]:
                    s = max(s, abs(x), abs(y))
        return s

    def pattern(self):
        return ">".join(self.chain)

    def as_json(self):
        out = []
        for pr in self.prims:
            if pr[0] == "E":
                out.append(["E"] + [[round(c, 9) for c in prim_point(pr, t)] for t in (0, 0.5, 1)])
            else:
                out.append([pr[0]] + [[round(c, 9) for c in p] for p in pr[1:]])
        return {"kind": self.kind, "id": self.id, "outline": out}


def _local(tag):
    return tag[len(SVGNS):] if isinstance(tag, str) and tag.startswith(SVGNS) else tag


def _display_none(el):
    if el.get("display", "").strip().lower() == "none":
        return True
    st = el.get("style")
    if st:
        val = None
        for decl in st.split(";"):
            kv = decl.split(":")
            if len(kv) == 2 and kv[0].strip() == "display":
                val = kv[1].strip().lower()
        if val == "none":
            return True
        if val is not None:
            return False
    return False


def _href(el):
    h = el.get("href")
    if h is None:
        h = el.get(XLINK_HREF)
    return h


def _points(text):
    nums = [float(v) for v in _RE_NUM.findall(text or "")]
    if len(nums) % 2:
        raise Unsupported("odd points")
    return [(nums[i], nums[i + 1]) for i in range(0, len(nums), 2)]


def rect_prims(x, y, w, h, rx, ry):
    if rx == 0 or ry == 0:
        return [("M", (x, y)), ("L", (x, y), (x + w, y)), ("L", (x + w, y), (x + w, y + h)),
                ("L", (x + w, y + h), (x, y + h)), ("Z", (x, y + h), (x, y))]
    hp = math.pi / 2
    I = IDENT
    return [
        ("M", (x + rx, y)),
        ("L", (x + rx, y), (x + w - rx, y)),
        ("E", I, x + w - rx, y + ry, rx, ry, -hp, 0.0),
        ("L", (x + w, y + ry), (x + w, y + h - ry)),
        ("E", I, x + w - rx, y + h - ry, rx, ry, 0.0, hp),
        ("L", (x + w - rx, y + h), (x + rx, y + h)),
        ("E", I, x + rx, y + h - ry, rx, ry, hp, 2 * hp),
        ("L", (x, y + h - ry), (x, y + ry)),
        ("E", I, x + rx, y + ry, rx, ry, 2 * hp, 3 * hp),
        ("Z", (x + rx, y), (x + rx, y)),
    ]


def ellipse_prims(cx, cy, rx, ry):
    hp = math.pi / 2
    out = [("M", (cx + rx, cy))]
    for q in range(4):
        out.append(("E", IDENT, cx, cy, rx, ry, q * hp, (q + 1) * hp))
    out.append(("Z", (cx + rx, cy), (cx + rx, cy)))
    return out


class Evaluator(object):
    def __init__(self, text, ppi=96.0, width=None, height=None, transform=None):
        self.root = ET.fromstring(text)
        self.ppi = float(ppi)
        self.cw, self.ch = width, height
        self.ctransform = transform
        self.ids = {}
        for el in self.root.iter():
            i = el.get("id")
            if i is not None:
                self.ids[i] = el  # like a user agent resolving a fragment: last wins is UA specific; ids are unique here
        self.shapes = []

    # geometry of the shapes in user space ------------------------------------------------------------
    def _shape(self, el, tag, vw, vh):
        ppi = self.ppi
        diag = math.sqrt((vw * vw + vh * vh) / 2.0)
        flags = set()

        def L(name, ref, default="0"):
            v = el.get(name, default)
            f = length_flags(v)
            if f:
                flags.add(f)
            return length(v, ref, ppi)

        if tag == "rect":
            if el.get("width") is None or el.get("height") is None:
                return None, flags  # auto -> 0: not rendered
            x, y = L("x", vw), L("y", vh)
            w, h = L("width", vw), L("height", vh)
            rxa, rya = el.get("rx"), el.get("ry")
            if (rxa is not None and "%" in rxa) or (rya is not None and "%" in rya):
                raise Unsupported("percentage corner radius (SVG 1.1 and SVG 2 disagree)")
            if w < 0 or h < 0:
                raise Unsupported("negative size")
            if w == 0 or h == 0:
                return None, flags
            rx = L("rx", vw) if rxa is not None else None
            ry = L("ry", vh) if rya is not None else None
            if (rx is not None and rx < 0) or (ry is not None and ry < 0):
                raise Unsupported("negative radius")
            if rx is None and ry is None:
                rx = ry = 0.0
            elif rx is None:
                rx = ry
            elif ry is None:
                ry = rx
            rx = min(rx, w / 2.0)
            ry = min(ry, h / 2.0)
            return rect_prims(x, y, w, h, rx, ry), flags
        if tag == "circle":
            cx, cy = L("cx", vw), L("cy", vh)
            r = L("r", diag)
            if r < 0:
                raise Unsupported("negative radius")
            if r == 0:
                return None, flags
            return ellipse_prims(cx, cy, r, r), flags
        if tag == "ellipse":
            cx, cy = L("cx", vw), L("cy", vh)
            if el.get("rx") is None or el.get("ry") is None:
                raise Unsupported("auto radius")
            rx, ry = L("rx", vw), L("ry", vh)
            if rx < 0 or ry < 0:
                raise Unsupported("negative radius")
            if rx == 0 or ry == 0:
                return None, flags
            return ellipse_prims(cx, cy, rx, ry), flags
        if tag == "line":
            p0 = (L("x1", vw), L("y1", vh))
            p1 = (L("x2", vw), L("y2", vh))
            return [("M", p0), ("L", p0, p1)], flags
        if tag in ("polyline", "polygon"):
            pts = _points(el.get("points"))
            if len(pts) == 0:
                return None, flags
            out = [("M", pts[0])]
            for i in range(1, len(pts)):
                out.append(("L", pts[i - 1], pts[i]))
            if tag == "polygon":
                out.append(("Z", pts[-1], pts[0]))
            return out, flags
        if tag == "path":
            prims = parse_path(el.get("d"))
            if not prims:
                return None, flags
            return prims, flags
        raise Unsupported(tag)

    # tree walk -----------------------------------------------------------------------------------------
    def _walk(self, el, ctm, vw, vh, chain, flags, outermost=False, via_use=()):
        tag = _local(el.tag)
        if _display_none(el):
            return
        ppi = self.ppi
        if tag == "svg":
            fl = set(flags)

            def L(name, ref, default):
                v = el.get(name, default)
                f = length_flags(v)
                if f:
                    fl.add(f)
                return length(v, ref, ppi)

            w = L("width", vw, "100%")
            h = L("height", vh, "100%")
            if outermost:
                x = y = 0.0  # x and y have no effect on outermost svg elements
            else:
                x = L("x", vw, "0")
                y = L("y", vh, "0")
            if w < 0 or h < 0:
                raise Unsupported("negative viewport size")
            if w == 0 or h == 0:
                return  # a value of zero disables rendering of the element
            m = mmul(ctm, parse_transform(el.get("transform")))
            if el.get("transform"):
                fl.add("transform")
            vb = el.get("viewBox")
            if vb is not None:
                nums = [float(v) for v in _RE_NUM.findall(vb)]
                if len(nums) != 4 or nums[2] < 0 or nums[3] < 0:
                    raise Unsupported("viewBox %r" % vb)
                if nums[2] == 0 or nums[3] == 0:
                    return
                m = mmul(m, viewbox_transform(x, y, w, h, nums, el.get("preserveAspectRatio")))
                nvw, nvh = nums[2], nums[3]
                fl.add("viewBox")
            else:
                m = mmul(m, translate(x, y))
                nvw, nvh = w, h
            for ch in el:
                self._walk(ch, m, nvw, nvh, chain + ["svg"], fl, via_use=via_use)
            return
        if tag == "g":
            fl = set(flags)
            if el.get("transform"):
                fl.add("transform")
            m = mmul(ctm, parse_transform(el.get("transform")))
            for ch in el:
                self._walk(ch, m, vw, vh, chain + ["g"], fl, via_use=via_use)
            return
        if tag in ("defs", "title", "desc", "metadata", "style", "clipPath", "mask", "pattern", "symbol",
                   "linearGradient", "radialGradient", "marker", "filter"):
            return  # never rendered directly
        if tag == "use":
            href = _href(el)
            if not href or not href.startswith("#") or href[1:] not in self.ids:
                return
            ref = self.ids[href[1:]]
            if ref in via_use:
                raise Unsupported("cyclic use")
            # a reference to an ancestor is a cycle too
            rtag = _local(ref.tag)
            if rtag in ("svg", "symbol"):
                raise Unsupported("use of svg/symbol")
            fl = set(flags)
            xs, ys = el.get("x", "0"), el.get("y", "0")
            for v in (xs, ys):
                f = length_flags(v)
                if f:
                    fl.add(f)
            if el.get("transform"):
                fl.add("transform")
            if xs != "0" or ys != "0":
                fl.add("use-xy")
            x = length(xs, vw, ppi)
            y = length(ys, vh, ppi)
            m = mmul(mmul(ctm, parse_transform(el.get("transform"))), translate(x, y))
            if len(via_use) > 8:
                raise Unsupported("use nesting too deep")
            self._walk(ref, m, vw, vh, chain + ["use"], fl, via_use=via_use + (ref, el))
            return
        if tag in SHAPE_TAGS:
            prims, sfl = self._shape(el, tag, vw, vh)
            if prims is None:
                return
            fl = set(flags) | sfl
            if el.get("transform"):
                fl.add("transform")
            m = mmul(ctm, parse_transform(el.get("transform")))
            s = RShape()
            s.kind = tag
            s.id = el.get("id")
            s.ctm = m
            s.local_scale = 1.0
            for pr in prims:
                if pr[0] == "E":
                    s.local_scale = max(s.local_scale, abs(pr[2]) + pr[4], abs(pr[3]) + pr[5])
                else:
                    for px, py in pr[1:]:
                        s.local_scale = max(s.local_scale, abs(px), abs(py))
            s.prims = [prim_map(pr, m) for pr in prims]
            s.chain = chain + [tag]
            s.flags = fl
            s.attrs = dict(el.attrib)
            self.shapes.append(s)
            return
        raise Unsupported("element %r" % tag)

    def run(self):
        root = self.root
        if _local(root.tag) != "svg":
            raise Unsupported("root is not svg")
        ppi = self.ppi
        vbn = None
        vb = root.get("viewBox")
        if vb is not None:
            vbn = [float(v) for v in _RE_NUM.findall(vb)]
            if len(vbn) != 4:
                raise Unsupported("viewBox")

        def caller(v, axis):
            if v is None:
                return vbn[2 + axis] if vbn is not None else 1000.0
            if isinstance(v, (int, float)):
                return float(v)
            return length(v, 0.0, ppi)

        vw = caller(self.cw, 0)
        vh = caller(self.ch, 1)
        flags = set()
        if self.ctransform:
            flags.add("transform")
        self._walk(root, parse_transform(self.ctransform), vw, vh, [], flags, outermost=True)
        return self.shapes


def evaluate(text, ppi=96.0, width=None, height=None, transform=None, unit_eps=0.0):
    """-> list of RShape, in document (rendering) order.
    unit_eps != 0 evaluates the same document with every physical unit (in, cm, mm) scaled by (1 + unit_eps)
    (a dict {unit: eps} perturbs the named units only - the units' constants err independently of one another):
    the difference to the exact evaluation says how far a relative error of unit_eps in the unit conversion
    moves each point (it can exceed unit_eps times the final coordinate when large terms cancel)."""
    UNIT_EPS[0] = unit_eps
    try:
        return Evaluator(text, ppi, width, height, transform).run()
    finally:
        UNIT_EPS[0] = 0.0


def max_deviation(s1, s2):
    """largest distance between corresponding outline points of two evaluations of the same shape."""
    dev = 0.0
    for p1, p2 in zip(s1.prims, s2.prims):
        if p1[0] == "E":
            for t in (0.0, 0.25, 0.5, 0.75, 1.0):
                a, b = prim_point(p1, t), prim_point(p2, t)
                dev = max(dev, math.hypot(a[0] - b[0], a[1] - b[1]))
        else:
            for a, b in zip(p1[1:], p2[1:]):
                dev = max(dev, math.hypot(a[0] - b[0], a[1] - b[1]))
    return dev


def not_rendered_ids(text):
    """ids of shapes that live only inside defs / display:none subtrees and are never referenced by a rendered use:
    computed as (all shape ids) - (ids of rendered shapes) by the caller; here: classification of where an id lives."""
    root = ET.fromstring(text)
    where = {}

    def rec(el, ctx):
        tag = _local(el.tag)
        c = ctx
        if tag == "defs":
            c = "defs"
        elif _display_none(el) and ctx is None:
            c = "display-none"
        i = el.get("id")
        if i is not None:
            where[i] = c
        for ch in el:
            rec(ch, c)

    rec(root, None)
    return where
