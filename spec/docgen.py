"""Generator of bounded SVG documents for the document-level bounded checks (C03, C20).

Vocabulary: svg, g, defs, use (nested use, use of groups, use of use), rect/circle/ellipse/line/polyline/
polygon/path (path data restricted to M L H V C Q Z, absolute and relative), nested svg with
x/y/width/height/viewBox/preserveAspectRatio, display:none, transforms on any element, lengths with units and
percentages. Bounds: container depth <= 4 below the root, <= 12 elements below the root.

Everything here is deterministic given the random.Random instance passed in. No svgelements import.
"""

HEAD = '<svg xmlns="http://www.w3.org/2000/svg" xmlns:xlink="http://www.w3.org/1999/xlink"'

TRANSFORMS = [
    "translate(10,5)",
    "translate(-3.5)",
    "scale(2)",
    "scale(1.5,0.5)",
    "scale(-1,1)",
    "scale(1,-2)",
    "rotate(30)",
    "rotate(45 10 20)",
    "skewX(20)",
    "skewY(-15)",
    "matrix(1 0.5 -0.5 1 3 4)",
    "matrix(0 1 1 0 0 0)",
    "translate(5,5) rotate(90) scale(2)",
]
T_SYSTEMATIC = [None, "translate(10,5)", "scale(1.5,0.5)", "scale(-1,1)", "rotate(45 10 20)", "skewX(20)",
                "matrix(1 0.5 -0.5 1 3 4)"]

ALIGNS = ["none", "xMinYMin", "xMidYMin", "xMaxYMin", "xMinYMid", "xMidYMid", "xMaxYMid", "xMinYMax", "xMidYMax",
          "xMaxYMax"]
PARS = [a + s for a in ALIGNS for s in ("", " meet", " slice")]

KINDS = ["rect", "circle", "ellipse", "line", "polyline", "polygon", "path"]

PPIS = [96, 72, 254]
SIZES = [None, 500, "10cm"]
CALLER_TRANSFORMS = [None, "scale(2)"]


def config_pairs():
    """The 18 (ppi, size, caller transform) combinations; each is run with reify True and False = 36 configs."""
    out = []
    for ppi in PPIS:
        for size in SIZES:
            for tr in CALLER_TRANSFORMS:
                out.append({"ppi": ppi, "width": size, "height": size, "transform": tr})
    return out


class Node(object):
    def __init__(self, tag, attrs=None, children=None):
        self.tag = tag
        self.attrs = list(attrs or [])  # ordered (name, value)
        self.children = list(children or [])

    def set(self, k, v):
        for i, (k0, v0) in enumerate(self.attrs):
            if k0 == k:  # no duplicate attributes: style declarations are appended, others replaced
                self.attrs[i] = (k, (v0 + ";" + v) if k == "style" else v)
                return self
        self.attrs.append((k, v))
        return self

    def text(self, root=True):
        a = "".join(' %s="%s"' % (k, v) for k, v in self.attrs)
        head = HEAD if (root and self.tag == "svg") else "<" + self.tag
        if not self.children:
            return head + a + "/>"
        return head + a + ">" + "".join(c.text(False) for c in self.children) + "</" + self.tag + ">"


def fmt(v):
    s = "%.4f" % v
    s = s.rstrip("0").rstrip(".")
    return "0" if s in ("-0", "") else s


def num(rng, lo, hi):
    k = rng.choice((0, 0, 1, 2))
    return fmt(round(rng.uniform(lo, hi), k))


def length(rng, lo, hi, p_unit=0.18, p_pct=0.14, positive=False):
    r = rng.random()
    if r < p_unit:
        u = rng.choice(("cm", "mm", "in", "pt", "pc"))
        rngs = {"cm": (0.1, 3), "mm": (1, 30), "in": (0.05, 1.2), "pt": (1, 70), "pc": (0.2, 5)}[u]
        if lo < 0 and not positive and rng.random() < 0.2:
            return "-" + num(rng, *rngs) + u
        return num(rng, max(rngs[0], 0.05), rngs[1]) + u
    if r < p_unit + p_pct:
        return num(rng, 1, 90) + "%"
    v = num(rng, lo, hi)
    if positive and float(v) <= 0:
        v = "1"
    return v


PAINTS = ["red", "#00f", "#336699", "none", "rgb(10,20,30)", "#12345680", "lime", "#11223300", "rgba(4,5,6,0)"]


def paint(rng, node, p=0.5):
    if rng.random() >= p:
        return
    if rng.random() < 0.3:
        node.set("style", "fill:%s;stroke:%s;stroke-width:%s" % (rng.choice(PAINTS), rng.choice(PAINTS),
                                                                   num(rng, 0.5, 4)))
        return
    if rng.random() < 0.7:
        node.set("fill", rng.choice(PAINTS))
    if rng.random() < 0.6:
        node.set("stroke", rng.choice(PAINTS))
        if rng.random() < 0.7:
            node.set("stroke-width", num(rng, 0.5, 5))
        if rng.random() < 0.3:
            node.set("stroke-opacity", rng.choice(("0.5", "0.25")))
    if rng.random() < 0.2:
        node.set("fill-opacity", rng.choice(("0.5", "0.75")))


def path_data(rng):
    out = []
    nsub = rng.choice((1, 1, 1, 2))
    for s in range(nsub):
        rel_m = s > 0 and rng.random() < 0.5
        out.append("%s%s,%s" % ("m" if rel_m else "M", num(rng, -20, 80), num(rng, -20, 80)))
        for _ in range(rng.randint(1, 4)):
            c = rng.choice("LlHhVvCcQqLl")
            a = c.isupper()
            lo, hi = (-20, 90) if a else (-30, 30)
            if c in "Ll":
                n = rng.choice((1, 1, 2))
                out.append(c + " ".join("%s,%s" % (num(rng, lo, hi), num(rng, lo, hi)) for _ in range(n)))
            elif c in "HhVv":
                out.append(c + num(rng, lo, hi))
            elif c in "Cc":
                out.append(c + " ".join("%s,%s" % (num(rng, lo, hi), num(rng, lo, hi)) for _ in range(3)))
            else:
                out.append(c + " ".join("%s %s" % (num(rng, lo, hi), num(rng, lo, hi)) for _ in range(2)))
        if rng.random() < 0.5:
            out.append(rng.choice("Zz"))
    return " ".join(out)


def shape(rng, kind, sid, units=True, with_paint=True, zero=0.01):
    pu, pp = (0.18, 0.14) if units else (0.0, 0.0)
    n = Node(kind, [("id", sid)])

    def L(lo, hi, positive=False):
        return length(rng, lo, hi, pu, pp, positive)

    if kind == "rect":
        if rng.random() < 0.75:
            n.set("x", L(-20, 80))
        if rng.random() < 0.75:
            n.set("y", L(-20, 80))
        n.set("width", "0" if rng.random() < zero else L(1, 90, True))
        n.set("height", L(1, 90, True))
        r = rng.random()
        if r < 0.15:
            n.set("rx", length(rng, 0.5, 30, pu, 0.0, True))
        elif r < 0.25:
            n.set("ry", length(rng, 0.5, 30, pu, 0.0, True))
        elif r < 0.4:
            n.set("rx", length(rng, 0.5, 30, pu, 0.0, True))
            n.set("ry", length(rng, 0.5, 30, pu, 0.0, True))
    elif kind == "circle":
        if rng.random() < 0.8:
            n.set("cx", L(-20, 80))
        if rng.random() < 0.8:
            n.set("cy", L(-20, 80))
        n.set("r", "0" if rng.random() < zero else length(rng, 1, 50, pu, 0.04 if units else 0.0, True))
    elif kind == "ellipse":
        if rng.random() < 0.8:
            n.set("cx", L(-20, 80))
        if rng.random() < 0.8:
            n.set("cy", L(-20, 80))
        n.set("rx", L(1, 50, True))
        n.set("ry", L(1, 50, True))
    elif kind == "line":
        for a in ("x1", "y1", "x2", "y2"):
            if rng.random() < 0.85:
                n.set(a, L(-20, 90))
    elif kind in ("polyline", "polygon"):
        k = rng.randint(2, 5)
        sep = rng.choice((",", " "))
        n.set("points", " ".join("%s%s%s" % (num(rng, -20, 90), sep, num(rng, -20, 90)) for _ in range(k)))
    elif kind == "path":
        n.set("d", path_data(rng))
    if with_paint:
        paint(rng, n)
    return n


def canonical_shape(kind, sid, variant="plain"):
    """Fixed representative of each kind; variant in plain / unit / percent."""
    v = {"plain": 0, "unit": 1, "percent": 2}[variant]
    n = Node(kind, [("id", sid)])
    if kind == "rect":
        a = [("x", ("3", "1mm", "10%")[v]), ("y", ("4", "0.1in", "5%")[v]),
             ("width", ("30", "1cm", "40%")[v]), ("height", ("20", "24pt", "25%")[v])]
        if v < 2:
            a += [("rx", ("4", "2mm")[v]), ("ry", ("6", "3pt")[v])]
    elif kind == "circle":
        a = [("cx", ("12", "5mm", "30%")[v]), ("cy", ("9", "0.2in", "40%")[v]), ("r", ("7", "6pt", "7")[v])]
    elif kind == "ellipse":
        a = [("cx", ("12", "5mm", "30%")[v]), ("cy", ("9", "0.2in", "40%")[v]),
             ("rx", ("11", "1pc", "20%")[v]), ("ry", ("5", "2mm", "10%")[v])]
    elif kind == "line":
        a = [("x1", ("1", "1mm", "10%")[v]), ("y1", ("2", "2pt", "20%")[v]),
             ("x2", ("31", "1cm", "60%")[v]), ("y2", ("17", "0.3in", "45%")[v])]
    elif kind in ("polyline", "polygon"):
        a = [("points", ("1,2 30,4 20,25 5,18", "1 2 30 4 20 25", "1,2,30,4 20,25,5,18 0,9")[v])]
    else:
        a = [("d", ("M3,4 L30,6 l5,12 H10 v-6 C12,2 20,30 28,9 q-4,9 -12,3 Z",
                    "M3,4 30,6 35,18 m2,2 h8 V3 z",
                    "m3,4 c3,9 12,-4 16,5 Q30,30 2,20 z M40,1 l4,4")[v])]
    for k, val in a:
        n.set(k, val)
    return n


def root_svg(rng):
    root = Node("svg")
    r = rng.random()
    if r < 0.5:
        root.set("width", num(rng, 50, 400))
        root.set("height", num(rng, 50, 400))
    elif r < 0.65:
        root.set("width", rng.choice(("10cm", "4in", "120mm", "300pt")))
        root.set("height", rng.choice(("8cm", "3in", "90mm", "20pc")))
    elif r < 0.75:
        root.set("width", rng.choice(("100%", "50%")))
        root.set("height", rng.choice(("100%", "80%")))
    elif r < 0.8:
        root.set("width", num(rng, 50, 400))
    if rng.random() < 0.5:
        root.set("viewBox", "%s %s %s %s" % (rng.choice(("0", "0", "-10", "5.5")), rng.choice(("0", "0", "20", "-7")),
                                             num(rng, 20, 300), num(rng, 20, 300)))
        if rng.random() < 0.45:
            root.set("preserveAspectRatio", rng.choice(PARS))
    if rng.random() < 0.08:
        root.set("transform", rng.choice(TRANSFORMS))
    if rng.random() < 0.03:
        root.set("x", num(rng, 1, 30))
        root.set("y", num(rng, 1, 30))
    return root


def nested_svg(rng):
    n = Node("svg")
    if rng.random() < 0.6:
        n.set("x", length(rng, -10, 60, 0.1, 0.15))
    if rng.random() < 0.6:
        n.set("y", length(rng, -10, 60, 0.1, 0.15))
    if rng.random() < 0.8:
        n.set("width", length(rng, 10, 200, 0.1, 0.2, True))
    if rng.random() < 0.8:
        n.set("height", length(rng, 10, 200, 0.1, 0.2, True))
    if rng.random() < 0.6:
        n.set("viewBox", "%s %s %s %s" % (rng.choice(("0", "0", "-5", "12.5")), rng.choice(("0", "0", "8", "-3")),
                                          num(rng, 10, 200), num(rng, 10, 200)))
        if rng.random() < 0.5:
            n.set("preserveAspectRatio", rng.choice(PARS))
    elif rng.random() < 0.15:
        n.set("preserveAspectRatio", rng.choice(PARS))  # no effect without a viewBox
    if rng.random() < 0.15:
        n.set("transform", rng.choice(TRANSFORMS))
    return n


class DocBuilder(object):
    def __init__(self, rng, max_elements=12, max_depth=4, with_paint=True):
        self.rng = rng
        self.budget = rng.randint(1, max_elements)
        self.max_depth = max_depth
        self.nid = 0
        self.targets = []  # ids that may be referenced by a use generated later (no cycles possible)
        self.with_paint = with_paint

    def new_id(self, p):
        self.nid += 1
        return "%s%d" % (p, self.nid)

    def take(self):
        if self.budget <= 0:
            return False
        self.budget -= 1
        return True

    def maybe_transform(self, n, p=0.3):
        if self.rng.random() < p:
            n.set("transform", self.rng.choice(TRANSFORMS))

    def use(self, targets):
        rng = self.rng
        n = Node("use", [("id", self.new_id("u"))])
        n.set(rng.choice(("xlink:href", "xlink:href", "href")), "#" + rng.choice(targets))
        if rng.random() < 0.6:
            n.set("x", length(rng, -20, 60, 0.1, 0.1))
        if rng.random() < 0.6:
            n.set("y", length(rng, -20, 60, 0.1, 0.1))
        if rng.random() < 0.1:
            n.set("width", num(rng, 5, 50))
            n.set("height", num(rng, 5, 50))
        self.maybe_transform(n, 0.4)
        if rng.random() < 0.03:
            n.set("display", "none")
        return n

    def a_shape(self):
        rng = self.rng
        n = shape(rng, rng.choice(KINDS), self.new_id("s"), with_paint=self.with_paint)
        self.maybe_transform(n, 0.3)
        if rng.random() < 0.03:
            n.set(*rng.choice((("display", "none"), ("style", "display:none"))))
        return n

    def children(self, parent, depth, targets, in_defs=False):
        """Fill parent with a random number of children; depth = depth of parent (root = 0)."""
        rng = self.rng
        k = rng.randint(1, 4)
        for _ in range(k):
            if not self.take():
                return
            r = rng.random()
            can_nest = depth + 1 < self.max_depth
            if r < 0.5 or (not can_nest and r < 0.8) or (r >= 0.8 and not targets):
                n = self.a_shape()
                parent.children.append(n)
                if not in_defs:
                    targets.append(dict(n.attrs)["id"])
            elif r < 0.66:
                n = Node("g", [("id", self.new_id("g"))])
                self.maybe_transform(n, 0.5)
                if rng.random() < 0.06:
                    n.set(*rng.choice((("display", "none"), ("style", "display:none"))))
                if self.with_paint and rng.random() < 0.2:
                    n.set("fill", rng.choice(PAINTS))
                parent.children.append(n)
                self.children(n, depth + 1, targets, in_defs)
                if not in_defs:
                    targets.append(dict(n.attrs)["id"])  # closed now: later uses cannot be inside it
            elif r < 0.8:
                n = nested_svg(rng)
                parent.children.append(n)
                self.children(n, depth + 1, targets, in_defs)
            else:
                parent.children.append(self.use(targets))

    def build(self):
        rng = self.rng
        root = root_svg(rng)
        defs = None
        def_ids = []
        if rng.random() < 0.55:
            defs = Node("defs")
            for _ in range(rng.randint(1, 3)):
                if not self.take():
                    break
                r = rng.random()
                if r < 0.55:
                    n = shape(rng, rng.choice(KINDS), self.new_id("d"), with_paint=self.with_paint, zero=0.0)
                    self.maybe_transform(n, 0.3)
                elif r < 0.8 or not def_ids:
                    n = Node("g", [("id", self.new_id("d"))])
                    self.maybe_transform(n, 0.5)
                    for _ in range(rng.randint(1, 3)):
                        if not self.take():
                            break
                        if def_ids and rng.random() < 0.35:
                            n.children.append(self.use(list(def_ids)))
                        else:
                            c = shape(rng, rng.choice(KINDS), self.new_id("s"), with_paint=self.with_paint, zero=0.0)
                            self.maybe_transform(c, 0.3)
                            n.children.append(c)
                else:
                    n = self.use(list(def_ids))
                    n.attrs[0] = ("id", self.new_id("d"))
                defs.children.append(n)
                def_ids.append(dict(n.attrs)["id"])
        targets = list(def_ids)
        where = rng.choice(("first", "first", "last", "inner"))
        if defs is not None and where == "first":
            root.children.append(defs)
        if self.budget <= 0:
            self.budget = 1
        self.children(root, 0, targets)
        while self.budget > 0 and rng.random() < 0.5:
            self.children(root, 0, targets)
        if defs is not None and where == "last":
            root.children.append(defs)
        if defs is not None and where == "inner":
            # inside the first group if there is one (defs may appear anywhere)
            gs = [c for c in root.children if c.tag == "g"]
            (gs[0] if gs else root).children.insert(0, defs)
        return root


def random_document(rng, max_elements=12, max_depth=4, with_paint=True):
    return DocBuilder(rng, max_elements, max_depth, with_paint).build().text()


# ----------------------------------------------------------------------------------------------- systematic

def _wrap(pattern, leaf, t, place):
    """Build the children of the root for one nesting pattern. t: transform string or None,
    place: 'leaf' (transform on the shape) or 'outer' (on the outermost wrapping element)."""
    def T(n, here):
        if t is not None and here:
            n.set("transform", t)
        return n

    on_leaf = place == "leaf"
    sid = dict(leaf.attrs)["id"]
    if pattern == "plain":
        return [T(leaf, True)]
    if pattern == "g":
        return [T(Node("g", [], [T(leaf, on_leaf)]), not on_leaf)]
    if pattern == "g-g":
        inner = Node("g", [("transform", "translate(2,3) scale(1.25)")], [T(leaf, on_leaf)])
        return [T(Node("g", [], [inner]), not on_leaf)]
    if pattern == "svg-viewbox":
        s = Node("svg", [("x", "12"), ("y", "7"), ("width", "80"), ("height", "50"), ("viewBox", "5 -5 160 150"),
                         ("preserveAspectRatio", "xMaxYMid meet")], [T(leaf, on_leaf)])
        return [T(s, not on_leaf)]
    if pattern == "svg-viewbox-none":
        s = Node("svg", [("x", "10%"), ("y", "1mm"), ("width", "40%"), ("height", "2cm"), ("viewBox", "0 0 60 120"),
                         ("preserveAspectRatio", "none")], [T(leaf, on_leaf)])
        return [T(s, not on_leaf)]
    if pattern == "svg-plain":
        s = Node("svg", [("x", "12"), ("y", "7"), ("width", "80"), ("height", "50")], [T(leaf, on_leaf)])
        return [T(s, not on_leaf)]
    if pattern == "svg-noxy":
        s = Node("svg", [("width", "80"), ("height", "50")], [T(leaf, on_leaf)])
        return [T(s, not on_leaf)]
    if pattern == "use":
        d = Node("defs", [], [T(leaf, on_leaf)])
        u = T(Node("use", [("xlink:href", "#" + sid), ("x", "6"), ("y", "-4")]), not on_leaf)
        return [d, u]
    if pattern == "use-noxy":
        d = Node("defs", [], [T(leaf, on_leaf)])
        u = T(Node("use", [("href", "#" + sid)]), not on_leaf)
        return [d, u]
    if pattern == "use-forward":
        d = Node("defs", [], [T(leaf, on_leaf)])
        u = T(Node("use", [("xlink:href", "#" + sid), ("x", "6"), ("y", "-4")]), not on_leaf)
        return [u, d]
    if pattern == "use-length":
        d = Node("defs", [], [T(leaf, on_leaf)])
        u = T(Node("use", [("xlink:href", "#" + sid), ("x", "5%"), ("y", "2mm")]), not on_leaf)
        return [d, u]
    if pattern == "use-group":
        g = Node("g", [("id", "G"), ("transform", "rotate(10)")], [T(leaf, on_leaf)])
        d = Node("defs", [], [g])
        u = T(Node("use", [("xlink:href", "#G"), ("x", "6"), ("y", "-4")]), not on_leaf)
        return [d, u]
    if pattern == "nested-use":
        inner = Node("use", [("xlink:href", "#" + sid), ("x", "3"), ("y", "2"), ("transform", "scale(0.5)")])
        g = Node("g", [("id", "G")], [inner])
        d = Node("defs", [], [T(leaf, on_leaf), g])
        u = T(Node("use", [("xlink:href", "#G"), ("x", "6"), ("y", "-4")]), not on_leaf)
        return [d, u]
    if pattern == "use-of-use":
        inner = Node("use", [("id", "U"), ("xlink:href", "#" + sid), ("x", "3"), ("y", "2")])
        d = Node("defs", [], [T(leaf, on_leaf), inner])
        u = T(Node("use", [("xlink:href", "#U"), ("x", "6"), ("y", "-4")]), not on_leaf)
        return [d, u]
    if pattern == "use-in-svg":
        d = Node("defs", [], [T(leaf, on_leaf)])
        u = T(Node("use", [("xlink:href", "#" + sid), ("x", "6")]), not on_leaf)
        s = Node("svg", [("x", "12"), ("y", "7"), ("width", "80"), ("height", "50"), ("viewBox", "0 0 40 40")], [u])
        return [d, s]
    if pattern == "use-direct":
        # the referenced shape is itself rendered, then rendered again through the use
        u = T(Node("use", [("xlink:href", "#" + sid), ("x", "6"), ("y", "-4")]), not on_leaf)
        return [T(leaf, on_leaf), u]
    if pattern == "after-svg":
        s = Node("svg", [("width", "80"), ("height", "50"), ("viewBox", "0 0 40 40")],
                 [Node("rect", [("id", "first"), ("width", "3"), ("height", "2")])])
        return [s, T(leaf, True)]
    raise ValueError(pattern)


PATTERNS = ["plain", "g", "g-g", "svg-viewbox", "svg-viewbox-none", "svg-plain", "svg-noxy", "use", "use-noxy",
            "use-forward", "use-length", "use-group", "nested-use", "use-of-use", "use-in-svg", "use-direct", "after-svg"]

ROOTS = [
    [("width", "200"), ("height", "120")],
    [("width", "300"), ("height", "150"), ("viewBox", "0 0 100 100")],
    [("width", "8cm"), ("height", "3in"), ("viewBox", "-10 5 90 140"), ("preserveAspectRatio", "xMinYMax slice")],
    [("viewBox", "0 0 240 160")],
    [],
]


def systematic(transforms=None, variants=("plain", "unit", "percent"), places=("leaf", "outer"), roots=None,
               patterns=None, kinds=None):
    """Yield (label, text): every kind x variant x pattern x transform x place x root."""
    transforms = T_SYSTEMATIC if transforms is None else transforms
    roots = ROOTS if roots is None else roots
    for kind in (kinds or KINDS):
        for variant in variants:
            for pattern in (patterns or PATTERNS):
                for t in transforms:
                    for place in places:
                        if t is None and place == "outer":
                            continue
                        if pattern in ("plain", "after-svg") and place == "outer":
                            continue
                        for ri, rattrs in enumerate(roots):
                            leaf = canonical_shape(kind, "L", variant)
                            root = Node("svg", list(rattrs), _wrap(pattern, leaf, t, place))
                            yield ("%s/%s/%s/%s/%s/root%d" % (kind, variant, pattern, t, place, ri), root.text())


def special_documents():
    """Hand-picked members of the family that the product construction above does not reach."""
    out = []
    R = '<rect id="a" x="2" y="3" width="10" height="5"/>'

    def doc(label, rootattrs, body):
        out.append((label, HEAD + rootattrs + ">" + body + "</svg>"))

    for par in PARS:
        doc("par-root/" + par, ' width="200" height="100" viewBox="0 0 50 80" preserveAspectRatio="%s"' % par, R)
        doc("par-nested/" + par, ' width="200" height="100"',
            '<svg x="5" y="6" width="90" height="30" viewBox="3 4 50 80" preserveAspectRatio="%s">%s</svg>' % (par, R))
    # unit scale on exactly one axis, unit scale with an offset, pure offset (the branches of the final
    # translate/scale text of the viewport transform), and a non-default preserveAspectRatio above a nested
    # viewport that does not set its own (the attribute is not inherited)
    doc("par-none-unit-x", ' width="100" height="300" viewBox="0 0 100 100" preserveAspectRatio="none"', R)
    doc("par-none-unit-y", ' width="300" height="100" viewBox="0 0 100 100" preserveAspectRatio="none"', R)
    doc("par-none-unit-x-offset", ' width="100" height="300" viewBox="7 9 100 100" preserveAspectRatio="none"', R)
    doc("par-none-unit-y-nested", ' width="200" height="100"',
        '<svg x="5" y="6" width="90" height="50" viewBox="3 4 30 50" preserveAspectRatio="none">%s</svg>' % R)
    doc("viewbox-pure-offset", ' width="100" height="100" viewBox="7 9 100 100"', R)
    # path coordinates that the writer prints in exponent form (tiny residues), exponents ending in 0 included
    doc("path-exponent-coordinates", ' width="100" height="100"',
        '<path id="e" d="M 2.5e-10,80 L 7.75e-20,1 l 2.5e-10,3.5e-10 L 3,1.5e-5 L 20.00000000025,8"/>')
    # a nested svg that is not rendered (zero size, zero-size viewBox) followed by geometry in percentages: the dead
    # viewport must not be the one those percentages refer to
    PCT = '<rect id="p" x="10%" y="10%" width="50%" height="50%"/><circle id="q" cx="50%" cy="50%" r="5%"/>'
    doc("dead-nested-viewport/zero-width", ' width="200" height="100"', '<svg width="0" height="50">%s</svg>%s' % (R, PCT))
    doc("dead-nested-viewport/zero-viewbox", ' width="400" height="200"',
        '<svg width="100" height="50" viewBox="0 0 0 10">%s</svg>%s' % (R, PCT))
    doc("dead-nested-viewport/in-group", ' width="200" height="100" viewBox="0 0 100 50"',
        '<g transform="translate(3,4)"><svg width="20" height="0">%s</svg>%s</g>' % (R, PCT))
    doc("hidden-group-then-percent", ' width="200" height="100"', '<g display="none"><svg width="30" height="40">%s</svg></g>%s' % (R, PCT))
    # paints whose alpha is exactly 0 or exactly 1 in the colour syntax itself, and opacity attributes of 0 and 1
    doc("alpha-zero-paint", ' width="100" height="100"',
        '<rect id="a" width="10" height="5" fill="#11223300" stroke="rgba(4,5,6,0)" stroke-width="2"/>'
        '<rect id="b" y="9" width="10" height="5" fill="#112233ff" stroke="rgba(4,5,6,1)" stroke-width="2"/>'
        '<rect id="c" y="19" width="10" height="5" fill="red" fill-opacity="0" stroke="blue" stroke-opacity="0"/>'
        '<rect id="d" y="29" width="10" height="5" fill="red" fill-opacity="1" stroke="blue" stroke-opacity="1"/>')
    for par in ("none", "xMinYMin slice", "xMaxYMax meet"):
        doc("par-not-inherited/" + par, ' width="200" height="100" viewBox="0 0 50 80" preserveAspectRatio="%s"' % par,
            '<svg x="5" y="6" width="90" height="30" viewBox="3 4 50 80">%s</svg>' % R)
    doc("defs-unreferenced", ' width="100" height="100"', "<defs>" + R + '<g id="gg"><circle id="c" r="3"/></g></defs>'
        '<circle id="d" cx="5" cy="5" r="2"/>')
    doc("display-none-attr", ' width="100" height="100"', '<g display="none">' + R + "</g>"
        '<circle id="d" cx="5" cy="5" r="2"/>')
    doc("display-none-style", ' width="100" height="100"', '<g style="display:none">' + R + "</g>"
        '<circle id="d" cx="5" cy="5" r="2"/>')
    doc("display-none-leaf", ' width="100" height="100"', '<rect id="a" display="none" width="4" height="4"/>'
        '<circle id="d" cx="5" cy="5" r="2"/>')
    doc("display-none-use", ' width="100" height="100"', "<defs>" + R + '</defs><use xlink:href="#a" display="none"/>'
        '<circle id="d" cx="5" cy="5" r="2"/>')
    doc("display-none-referenced", ' width="100" height="100"', '<g display="none">' + R + "</g>"
        '<use xlink:href="#a" x="5"/>')
    doc("after-display-none", ' width="100" height="100"', '<g display="none" transform="scale(3)">' + R + "</g>"
        '<circle id="d" cx="5" cy="5" r="2" transform="translate(1,1)"/>')
    doc("zero-rect", ' width="100" height="100"', '<rect id="z" width="0" height="5"/><circle id="d" cx="5" cy="5" r="2"/>')
    doc("zero-circle", ' width="100" height="100"', '<circle id="z" r="0"/><circle id="d" cx="5" cy="5" r="2"/>')
    doc("zero-ellipse", ' width="100" height="100"', '<ellipse id="z" rx="0" ry="4"/><circle id="d" cx="5" cy="5" r="2"/>')
    doc("zero-nested-svg", ' width="100" height="100"', '<svg width="0" height="10" viewBox="0 0 5 5">' + R + "</svg>"
        '<circle id="d" cx="5" cy="5" r="2"/>')
    doc("zero-nested-svg-novb", ' width="100" height="100"', '<svg width="0" height="10">' + R + "</svg>"
        '<circle id="d" cx="5" cy="5" r="2"/>')
    doc("root-xy", ' x="10" y="20" width="100" height="100"', R)
    doc("root-xy-viewbox", ' x="10" y="20" width="100" height="100" viewBox="0 0 50 50"', R)
    doc("root-transform", ' width="100" height="100" viewBox="0 0 50 50" transform="rotate(20)"', R)
    doc("circle-r-percent", ' width="200" height="100"', '<circle id="c" cx="50" cy="50" r="10%"/>')
    doc("circle-r-percent-vb", ' width="200" height="100" viewBox="0 0 300 400" preserveAspectRatio="none"',
        '<circle id="c" cx="50" cy="50" r="10%"/>')
    doc("nested-svg-default-size", ' width="200" height="100" viewBox="0 0 100 50"',
        '<svg viewBox="0 0 10 10">' + R + "</svg>")
    doc("nested-svg-default-size-novb", ' width="200" height="100" viewBox="0 0 100 50"',
        '<svg><rect id="p" x="10%" y="10%" width="50%" height="50%"/></svg>')
    doc("nested-svg-percent", ' width="200" height="100" viewBox="0 0 100 50"',
        '<svg x="10%" y="10%" width="50%" height="50%" viewBox="0 0 10 10">' + R + "</svg>")
    doc("nested-svg-in-g-percent", ' width="200" height="100"',
        '<g transform="scale(2)"><svg width="50%" height="50%"><rect id="p" width="50%" height="50%"/></svg></g>')
    doc("percent-after-nested-svg", ' width="200" height="100"',
        '<svg width="50" height="40"><rect id="q" width="1" height="1"/></svg>'
        '<rect id="p" x="10%" y="10%" width="50%" height="50%"/>')
    doc("percent-after-nested-svg-in-g", ' width="200" height="100"',
        '<g><svg width="50" height="40" viewBox="0 0 10 10"><rect id="q" width="1" height="1"/></svg></g>'
        '<line id="p" x1="10%" y1="10%" x2="50%" y2="50%"/>')
    doc("use-width-height", ' width="200" height="100"',
        "<defs>" + R + '</defs><use xlink:href="#a" x="1" y="1" width="30" height="30"/>')
    doc("use-missing-target", ' width="200" height="100"', '<use xlink:href="#nope" x="1"/>' + R)
    doc("use-percent-rotated", ' width="200" height="80"',
        "<defs>" + R + '</defs><use xlink:href="#a" x="10%" y="5%" transform="rotate(30)"/>')
    doc("line-reflected-diagonal", ' width="200" height="100"',
        '<line id="s" x2="87" transform="matrix(0 1 1 0 0 0)"/><rect id="r" x="7" width="10" height="5" '
        'transform="translate(-7,3)"/>')
    doc("svg-three-deep", ' width="400" height="400" viewBox="0 0 200 200"',
        '<svg x="10" y="10" width="100" height="100" viewBox="0 0 50 50"><svg x="5" y="5" width="20" height="40" '
        'viewBox="0 0 10 10" preserveAspectRatio="xMinYMax slice"><rect id="p" x="10%" y="1" width="50%" height="2"/>'
        "</svg></svg>")
    return out


def one_leaf_exhaustive(transforms, kinds=None):
    """All one-leaf documents with <= 2 containers below the root (depth <= 2) over the container alphabet
    {g, svg with viewBox, svg without viewBox, use, use of group}: (label, text)."""
    alphabet = ["g", "svg-viewbox", "svg-plain", "use", "use-group"]
    chains = [[]] + [[a] for a in alphabet] + [[a, b] for a in alphabet for b in alphabet]
    for kind in (kinds or KINDS):
        for chain in chains:
            for t in transforms:
                for place in (("leaf", "outer") if chain and t is not None else ("leaf",)):
                    for ri in (0, 1):
                        leaf = canonical_shape(kind, "L", "plain")
                        if t is not None and place == "leaf":
                            leaf.set("transform", t)
                        body = [leaf]
                        defs = []
                        nd = 0
                        for lvl, c in enumerate(reversed(chain)):
                            outer = (lvl == len(chain) - 1) and place == "outer" and t is not None
                            if c == "g":
                                n = Node("g", [("transform", "translate(2,3) scale(1.25)")] if not outer else [], body)
                            elif c == "svg-viewbox":
                                n = Node("svg", [("x", "12"), ("y", "7"), ("width", "80"), ("height", "50"),
                                                 ("viewBox", "5 -5 160 150")], body)
                            elif c == "svg-plain":
                                n = Node("svg", [("x", "12"), ("y", "7"), ("width", "80"), ("height", "50")], body)
                            else:
                                nd += 1
                                did = "D%d" % nd
                                if c == "use":
                                    if len(body) == 1 and dict(body[0].attrs).get("id"):
                                        tid = dict(body[0].attrs)["id"]
                                        defs.append(body[0])
                                    else:
                                        tid = did
                                        defs.append(Node("g", [("id", did)], body))
                                else:
                                    tid = did
                                    defs.append(Node("g", [("id", did), ("transform", "rotate(10)")], body))
                                n = Node("use", [("xlink:href", "#" + tid), ("x", "6"), ("y", "-4")])
                            if outer:
                                n.set("transform", t)
                            body = [n]
                        rattrs = ROOTS[ri]
                        kids = ([Node("defs", [], defs)] if defs else []) + body
                        yield ("%s/%s/%s/%s/root%d" % (kind, "+".join(chain) or "plain", t, place, ri),
                               Node("svg", list(rattrs), kids).text())
