"""C07 (P part): d() -> parse round trip with numerals opaque, and C16 path-level reversal on representative paths."""
from pyvc.registry import ob, family
from pyvc.api import And, Or, Not, Implies, Ite, Abs
from ._common import *  # noqa
from .parser import mk_prefix, view, seg_matches, same_pt, capture_arc, NUM, BUILDER
from .arc import sub, dot, cross

SHAPES = ["ML", "MLL", "MQ", "MQQ", "MC", "MCC", "MLZ", "MLZL", "MLM", "MQC", "MCQ", "MLQ", "MLC"]
REL = [None, False, True]
SMOOTH = [None, False, True]
D_FUNCS = ["Path.d", "Path.svg_d", "Move.d", "Line.d", "Close.d", "QuadraticBezier.d", "CubicBezier.d",
           "QuadraticBezier.is_smooth_from", "CubicBezier.is_smooth_from", "Point.__str__", "Point.__sub__",
           "Transformable.__abs__", "Path.reify", "Path.__copy__"] + BUILDER


def near(E, a, b, slack=4e-12):
    """equal up to the 1e-12 slack of Point.__eq__ (which decides whether the smooth shorthand is written and whether
    a joint is re-linked)"""
    if a is None or b is None:
        return a is None and b is None
    tol = E.const(slack)
    return And(Abs(a[0] - b[0]) <= tol, Abs(a[1] - b[1]) <= tol)


def set_flags(E, p, rels, smooths):
    for s, r, sm in zip(E.items(E.get(p, "_segments")), rels, smooths):
        E.set(s, "relative", r)
        E.set(s, "smooth", sm)


@family("C07/d_then_parse", [(sh, r, sm) for sh in SHAPES for r in REL for sm in SMOOTH], funcs=D_FUNCS, props=["C07"],
        kind="P", timeout_ms=30000,
        note="numerals are opaque: float(text of x) == x (A5); the 12-digit rounding itself is the bounded check C07/d_roundtrip")
def _(E, case):
    shape, rel, smooth = case
    p, state, kinds = mk_prefix(E, shape)
    n = len(kinds)
    # as-parsed flags: every combination that matters is reached through the choices below
    as_rel = E.choice("stored_relative_flags", [False, True])
    as_smooth = E.choice("stored_smooth_flags", [False, True])
    set_flags(E, p, [as_rel] * n, [as_smooth] * n)
    before = [view(E, s) for s in E.items(E.get(p, "_segments"))]
    text = E.call(p, "d", relative=rel, smooth=smooth)
    q = E.construct("Path", text)
    after = [view(E, s) for s in E.items(E.get(q, "_segments"))]
    E.ensure("same_number_and_kinds_of_segments", And(len(after) == len(before), *[a[0] == b[0] for a, b in zip(after, before)]))
    if len(after) != len(before):
        return
    conds = []
    for a, b in zip(after, before):
        conds.append(same_pt(a[4], b[4]))
        if b[0] != "Move":
            conds.append(same_pt(a[1], b[1]))
        conds.append(near(E, a[2], b[2]))
        conds.append(near(E, a[3], b[3]))
    E.ensure("same_geometry", And(*conds))
    still = [view(E, s) for s in E.items(E.get(p, "_segments"))]
    E.ensure("source_path_unchanged", And(*[seg_matches(E, a, b) for a, b in zip(still, before)]))


@family("C07/Arc.d/flags_and_operands", [(r, fa, fs) for r in REL for fa in (0, 1) for fs in (0, 1)],
        funcs=["Arc.d", "Arc.rx", "Arc.ry", "Arc.get_rotation", "Path.svg_d", "Path.d"] + BUILDER, props=["C07"], kind="P",
        timeout_ms=30000)
def _(E, case):
    """the arc command written for a stored arc re-parses to the same constructor arguments: absolute end point,
    radii |prx-center|, |pry-center|, rotation = direction of prx in degrees, large flag = |sweep| > half turn,
    sweep flag = sweep >= 0"""
    rel, fa, fs = case
    p, state, kinds = mk_prefix(E, "M")
    cur = state["cur"]
    ex, ey = E.reals("ex ey", NUM)
    ux, uy = E.reals("ux uy", NUM)
    k = E.real("k", lambda r: r.uniform(0.2, 3))
    E.assume(And(Or(ux != 0, uy != 0), k > 0))
    cx, cy = E.reals("cx cy", NUM)
    sw = E.real("sw", lambda r: r.uniform(0.1, 6) * (1 if fs else -1))
    half = E.pi
    E.assume(And(sw >= 0 if fs else sw < 0, (Abs(sw) > half) if fa else (Abs(sw) <= half)))
    arc = E.new("Arc", start=E.new("Point", x=cur[0], y=cur[1]), end=E.new("Point", x=ex, y=ey),
                center=E.new("Point", x=cx, y=cy), prx=E.new("Point", x=cx + ux, y=cy + uy),
                pry=E.new("Point", x=cx - k * uy, y=cy + k * ux), sweep=sw, relative=bool(rel), smooth=True)
    E.call(E.get(p, "_segments"), "append", arc)
    text = E.call(p, "d", relative=rel)
    if E.mode != "symbolic":
        q = E.construct("Path", text)
        a2 = E.items(E.get(q, "_segments"))[1]
        E.tol(1e-4, 1e-4)       # radii / rotation are printed with 6 digits (known finding); flags and end are exact
        E.ensure("end_point", pt_eq(a2.end, (ex, ey)))
        E.ensure("direction", (a2.sweep >= 0) if fs else (a2.sweep <= 0))
        return
    rec = []
    E.use_contract("Arc.__init__", capture_arc(rec))
    q = E.construct("Path", text)
    E.ensure("one_arc_constructed", len(rec) == 1)
    a = rec[0]
    rx, ry = a[1], a[2]
    E.ensure("radii_are_the_lengths_of_the_radius_vectors", And(rx >= 0, ry >= 0, rx * rx == ux * ux + uy * uy,
                                                                ry * ry == k * k * (ux * ux + uy * uy)))
    E.ensure("flags_denote_extent_and_direction", And(E.truth(a[4]) == bool(fa), E.truth(a[5]) == bool(fs)))
    endp = tuple(E.items(a[6])) if not hasattr(a[6], "x") else pt(a[6])
    E.ensure("end_point_is_the_stored_end", pt_eq(endp, (ex, ey)))
    rot = a[3] * E.pi / 180
    E.ensure("rotation_is_the_direction_of_the_first_radius_vector",
             And(E.cos(rot) * rx == ux, E.sin(rot) * rx == uy))


def unshared(E, segs):
    """ownership: every Point reachable from a segment belongs to that segment only - what makes a later in-place
    transform (which multiplies each segment's points) act exactly once on every point"""
    owners = {}
    for s in segs:
        for ident in E.reach(s):
            if ident in owners and owners[ident] is not s:
                return False
            owners[ident] = s
    return True


REV_SHAPES = ["ML", "MLL", "MLQ", "MQC", "MLZ", "MLLZ", "MLMQ", "MLZML", "MLLMC"]


@family("C16/Path.reverse/representative", REV_SHAPES, funcs=["Path.reverse", "Path.as_subpaths", "Subpath.reverse",
                                                            "Subpath._reverse_segments", "Subpath.index_to_path_index",
                                                            "Subpath._numeric_index", "PathSegment.reverse",
                                                            "CubicBezier.reverse", "Path.__iadd__", "Path.extend"],
        props=["C16"], kind="S", timeout_ms=30000,
        note="paths whose subpaths all begin with their own move; kind sequences enumerated, coordinates symbolic")
def _(E, shape):
    p, state, kinds = mk_prefix(E, shape)
    before = [view(E, s) for s in E.items(E.get(p, "_segments"))]
    # independent reversal: split at moves, reverse each drawn run, reverse the order of the subpaths
    subs, cur = [], []
    for v in before:
        if v[0] == "Move" and cur:
            subs.append(cur)
            cur = []
        cur.append(v)
    subs.append(cur)
    want = []
    for sp in reversed(subs):
        closed = sp[-1][0] == "Close"
        drawn = [v for v in sp if v[0] not in ("Move", "Close")]
        rev = [(k, e, c2 if k == "CubicBezier" else c1, c1 if k == "CubicBezier" else None, s)
               for (k, s, c1, c2, e) in reversed(drawn)]
        first = rev[0][1] if rev else sp[0][4]
        want.append(("Move", None, None, None, first))
        want += rev
        if closed:
            last_end = rev[-1][4] if rev else first
            want.append(("Close", last_end, None, None, first))
    E.call(p, "reverse")
    after = [view(E, s) for s in E.items(E.get(p, "_segments"))]
    E.ensure("same_number_of_segments", len(after) == len(want))
    if len(after) != len(want):
        return
    conds = []
    for a, w in zip(after, want):
        conds.append(a[0] == w[0])
        conds.append(same_pt(a[4], w[4]))
        if w[0] != "Move":
            conds += [same_pt(a[1], w[1]), same_pt(a[2], w[2]), same_pt(a[3], w[3])]
    E.ensure("subpaths_in_reverse_order_each_segment_reversed_closed_stays_closed", And(*conds))
    E.ensure("no_point_object_belongs_to_two_segments", unshared(E, E.items(E.get(p, "_segments"))))
    E.call(p, "reverse")
    again = [view(E, s) for s in E.items(E.get(p, "_segments"))]
    conds = [len(again) == len(before)]
    for a, b in zip(again, before):
        conds += [a[0] == b[0], same_pt(a[4], b[4]), same_pt(a[2], b[2]), same_pt(a[3], b[3])]
        if b[0] != "Move":
            conds.append(same_pt(a[1], b[1]))
    E.ensure("reversing_twice_restores_the_path", And(*conds))


def untouched(E, got, want):
    """same geometry; the start recorded on a *move* is the pen position before it (bookkeeping, not geometry) and
    follows the end of the reversed subpath in front of it"""
    if want[0] == "Move":
        return And(got[0] == want[0], same_pt(got[4], want[4]))
    return seg_matches(E, got, want)


SUB_REV = [("ML", 0), ("MLQ", 0), ("MQC", 0), ("MLZ", 0), ("MLLZ", 0), ("MLMQ", 0), ("MLMQ", 1), ("MLZML", 0),
           ("MLZML", 1), ("MLLMC", 1)]


@family("C16/Subpath.reverse/representative", SUB_REV,
        funcs=["Subpath.reverse", "Subpath._reverse_segments", "Subpath.index_to_path_index", "Subpath._numeric_index",
               "Subpath.__getitem__", "Subpath.__len__", "Path.subpath", "Path.as_subpaths", "PathSegment.reverse",
               "CubicBezier.reverse", "Subpath.__imul__", "Move.__imul__", "Linear.__imul__", "QuadraticBezier.__imul__",
               "CubicBezier.__imul__", "Point.__imul__"],
        props=["C16"], kind="S", timeout_ms=30000,
        note="subpath views that begin with their own move; kind sequences enumerated, coordinates symbolic")
def _(E, case):
    shape, which = case
    p, state, kinds = mk_prefix(E, shape)
    segs = E.get(p, "_segments")
    objs_before = list(E.items(segs))
    before = [view(E, s) for s in objs_before]
    # window of the chosen subpath: from its move up to the segment before the next move
    starts = [i for i, k in enumerate(kinds) if k == "Move"] + [len(kinds)]
    lo, hi = starts[which], starts[which + 1]
    sp = before[lo:hi]
    closed = sp[-1][0] == "Close"
    drawn = [v for v in sp if v[0] not in ("Move", "Close")]
    rev = [(k, e, c2 if k == "CubicBezier" else c1, c1 if k == "CubicBezier" else None, s)
           for (k, s, c1, c2, e) in reversed(drawn)]
    first = rev[0][1] if rev else sp[0][4]
    want = [("Move", None, None, None, first)] + rev
    if closed:
        want.append(("Close", rev[-1][4] if rev else first, None, None, first))
    sub = E.call(p, "subpath", which)
    E.call(sub, "reverse")
    objs_after = list(E.items(segs))
    after = [view(E, s) for s in objs_after]
    E.ensure("same_number_of_segments", len(after) == len(before))
    if len(after) != len(before):
        return
    conds = []
    for a, w in zip(after[lo:hi], want):
        conds.append(a[0] == w[0])
        conds.append(same_pt(a[4], w[4]))
        if w[0] != "Move":
            conds += [same_pt(a[1], w[1]), same_pt(a[2], w[2]), same_pt(a[3], w[3])]
    E.ensure("the_window_is_its_own_reversal_closed_stays_closed", And(*conds))
    outside = [i for i in range(len(before)) if not lo <= i < hi]
    E.ensure("segments_of_the_other_subpaths_are_untouched",
             And(*[And(E.same(objs_after[i], objs_before[i]), untouched(E, after[i], before[i])) for i in outside]))
    E.ensure("the_path_stays_connected", And(*[near(E, b[1], a[4], 1e-12) for a, b in zip(after, after[1:])
                   if b[1] is not None and b[0] != "Move"]))   # a move starts a new subpath: nothing to connect
    E.ensure("no_point_object_belongs_to_two_segments", unshared(E, objs_after))
    # history: reversal followed by an in-place transform of the view maps every point exactly once
    M = mk_matrix(E, "T")
    E.call(sub, "__imul__", M)
    moved = [view(E, s) for s in E.items(segs)]
    conds = []
    for a, w in zip(moved[lo:hi], want):
        conds.append(same_pt(a[4], apply(M, w[4])))
        if w[0] != "Move":
            conds.append(same_pt(a[1], apply(M, w[1])))
            for j in (2, 3):
                if w[j] is not None:
                    conds.append(same_pt(a[j], apply(M, w[j])))
    E.ensure("a_transform_after_the_reversal_maps_every_point_exactly_once", And(*conds))
    E.ensure("the_transform_of_the_view_leaves_the_other_subpaths_alone",
             And(*[untouched(E, moved[i], before[i]) for i in outside]))


# --------------------------------------------------------------------------------------------------
# histories: evaluation, then mutation, then evaluation - no observation may depend on anything but the fields
# --------------------------------------------------------------------------------------------------
def fresh_arc(E, arc):
    """the arc a constructor builds from the present defining fields of `arc` (hidden state in its initial value)"""
    def P(q):
        return None if q is None else E.new("Point", x=q.x, y=q.y)
    return E.new("Arc", start=P(arc.start), end=P(arc.end), center=P(arc.center), prx=P(arc.prx), pry=P(arc.pry),
                 sweep=arc.sweep, relative=False, smooth=True)


def arc_fields(a):
    out = []
    for n in ("center", "prx", "pry", "start", "end"):
        q = a.fd[n] if hasattr(a, "fd") else getattr(a, n)
        out += [q.fd["x"], q.fd["y"]] if hasattr(q, "fd") else [q.x, q.y]
    out.append(a.fd["sweep"] if hasattr(a, "fd") else a.sweep)
    return tuple(out)


@family("C16/Arc/no_stale_state_after_evaluation", ["reverse", "imul"],
        funcs=["Arc.reverse", "Arc.__imul__", "Arc.get_start_t", "Arc.get_end_t", "Arc.get_start_angle",
               "Arc.get_end_angle"],
        props=["C16", "C02"], kind="P", timeout_ms=60000,
        note="an arc that has been evaluated and is then reversed / transformed in place answers like a newly built "
             "arc with the same defining points (interleaved histories of C16).  Arc.t_at_point, Arc.point_at_angle "
             "and Arc.angle_at_point enter through their frame contract: audited pure, hence functions of the "
             "defining points")
def _(E, how):
    from .arc import mk_arc_orth, ANY
    for q, res in (("Arc.t_at_point", "real"), ("Arc.angle_at_point", "real"), ("Arc.point_at_angle", "point")):
        E.pure_contract(q, arc_fields, res)
    arc, C, U, V, k = mk_arc_orth(E)
    sx, sy, ex, ey = E.reals("sx sy ex ey", ANY)
    E.set(arc, "start", E.new("Point", x=sx, y=sy))
    E.set(arc, "end", E.new("Point", x=ex, y=ey))
    E.call(arc, "get_start_t")                       # history: the arc has been evaluated once
    E.call(arc, "get_end_t")
    if how == "reverse":
        E.call(arc, "reverse")
    else:
        E.call(arc, "__imul__", mk_matrix(E, "T"))
    twin = fresh_arc(E, arc)
    E.ensure("start_parameter_depends_on_the_defining_points_only",
             E.call(arc, "get_start_t") == E.call(twin, "get_start_t"))
    E.ensure("end_parameter_depends_on_the_defining_points_only",
             E.call(arc, "get_end_t") == E.call(twin, "get_end_t"))
