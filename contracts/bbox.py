"""C08: bounding boxes - containment, tightness, ordering, union, stroke growth."""
from pyvc.registry import ob, family
from pyvc.api import And, Or, Not, Implies, Ite, Abs, Min, Max
from ._common import *  # noqa
from .segments import ctrl, bern
from .copies import mk_path, mk_shape

NUM = lambda r: r.choice([0.0, 1.0, -1.0]) if r.random() < 0.2 else r.uniform(-100, 100)  # noqa


def box(b):
    return tuple(b)


@family("C08/linear.bbox/hull", ["Line", "Close"], funcs=["PathSegment.bbox", "PathSegment.__iter__",
                                                         "PathSegment.__next__", "Linear.__getitem__"])
def _(E, kind):
    s = mk_seg(E, kind, "s")
    P = ctrl(s, kind)
    x0, y0, x1, y1 = box(E.call(s, "bbox"))
    t = E.real("t", lambda r: r.uniform(0, 1))
    E.assume(And(t >= 0, t <= 1))
    X, Y = bern(P, t)
    E.ensure("contains_every_point", And(x0 <= X, X <= x1, y0 <= Y, Y <= y1))
    E.ensure("ordered", And(x0 <= x1, y0 <= y1))
    E.ensure("tight:each_side_is_an_endpoint_coordinate",
             And(Or(x0 == P[0][0], x0 == P[1][0]), Or(x1 == P[0][0], x1 == P[1][0]),
                 Or(y0 == P[0][1], y0 == P[1][1]), Or(y1 == P[0][1], y1 == P[1][1])))


@ob("C08/Move.bbox/point", funcs=["Move.bbox"])
def _(E):
    s = mk_seg(E, "Move", "s", start=False)
    b = box(E.call(s, "bbox"))
    E.ensure("the_destination_point", And(b[0] == s.end.x, b[2] == s.end.x, b[1] == s.end.y, b[3] == s.end.y))


@ob("C08/QuadraticBezier.bbox/contain_tight", funcs=["QuadraticBezier.bbox", "PathSegment.point",
                                                     "QuadraticBezier.npoint"])
def _(E):
    s = mk_seg(E, "QuadraticBezier", "s")
    P = ctrl(s, "QuadraticBezier")
    x0, y0, x1, y1 = box(E.call(s, "bbox"))
    t = E.real("t", lambda r: r.uniform(0, 1))
    E.assume(And(t >= 0, t <= 1))
    X, Y = bern2(P, t)
    E.ensure("contains_every_point_x", And(x0 <= X, X <= x1))
    E.ensure("contains_every_point_y", And(y0 <= Y, Y <= y1))
    E.ensure("ordered", And(x0 <= x1, y0 <= y1))
    # tightness: every side is the coordinate of a curve point with parameter in [0, 1]
    for axis, (lo, hi) in ((0, (x0, x1)), (1, (y0, y1))):
        a0, a1, a2 = P[0][axis], P[1][axis], P[2][axis]
        d = a0 - 2 * a1 + a2
        n = a0 - a1
        # extremum parameter n/d (when d != 0): the value there, without division: a0 - n*n/d
        for nm, v in (("min", lo), ("max", hi)):
            at_ext = And(d != 0, 0 < n * d, Abs(n) < Abs(d), (v - a0) * d == -n * n)
            E.ensure("tight_%s_%s" % ("xy"[axis], nm), Or(v == a0, v == a2, at_ext))


@family("C08/Shape.bbox/union_and_stroke", [(tr, ws) for tr in (True, False) for ws in (True, False)],
        funcs=["Shape.bbox", "Path.segments", "GraphicObject.implicit_stroke_width", "PathSegment.__mul__",
               "Matrix.is_identity", "Matrix.determinant"], kind="S",
        note="segment list of a fixed representative shape (Move, Line, Close); curve boxes have their own obligations")
def _(E, case):
    transformed, with_stroke = case
    p = mk_path(E, kinds=("Move", "Line", "Close"))
    painted = E.choice("stroke", ["painted", "none", "absent"])
    if painted == "none":
        E.set(p, "stroke", E.new("Color", value=None))
    elif painted == "absent":
        E.set(p, "stroke", None)
    M = p.transform
    m0 = tuple(mat_fields(M))
    sw = p.stroke_width
    segs = E.items(E.get(p, "_segments"))
    boxes = []
    for s in segs:
        t = E.call(s, "__mul__", M) if transformed else s
        boxes.append(box(E.call(t, "bbox")))
    r = box(E.call(p, "bbox", transformed=transformed, with_stroke=with_stroke))
    delta = 0
    if with_stroke and painted == "painted":
        if transformed:
            dt = m0[0] * m0[3] - m0[1] * m0[2]
            root = E.sqrt(Abs(dt))
            delta = sw * root / 2
        else:
            delta = sw / 2
    lo_x = boxes[0][0]
    lo_y = boxes[0][1]
    hi_x = boxes[0][2]
    hi_y = boxes[0][3]
    for b in boxes[1:]:
        lo_x, lo_y, hi_x, hi_y = Min(lo_x, b[0]), Min(lo_y, b[1]), Max(hi_x, b[2]), Max(hi_y, b[3])
    E.ensure("union_of_segment_boxes_grown_by_half_the_effective_stroke_width",
             And(r[0] == lo_x - delta, r[1] == lo_y - delta, r[2] == hi_x + delta, r[3] == hi_y + delta))
    E.ensure("path_itself_not_modified", mat_eq(p.transform, m0))


@ob("C08/GraphicObject.implicit_stroke_width/sqrt_abs_det", funcs=["GraphicObject.implicit_stroke_width",
                                                                   "Matrix.determinant"], props=["C08", "C14"])
def _(E):
    p = mk_path(E, kinds=("Move", "Line"))
    m0 = tuple(mat_fields(p.transform))
    w = p.stroke_width
    E.assume(w >= 0)
    v = E.get(p, "implicit_stroke_width")
    dt = m0[0] * m0[3] - m0[1] * m0[2]
    E.ensure("w_times_sqrt_abs_det", And(v >= 0, v * v == w * w * Abs(dt)))
    E.set(p, "apply", False)
    E.ensure("not_applied_means_unscaled", E.get(p, "implicit_stroke_width") == w)


@ob("C08/Shape.bbox/empty_is_None", funcs=["Shape.bbox", "Path.segments"])
def _(E):
    p = E.construct("Path")
    E.ensure("no_segments_no_box", E.is_none(E.call(p, "bbox")))


@ob("C08/Group.union_bbox/union", funcs=["Group.union_bbox", "Group.bbox", "Group.select", "Shape.bbox"], kind="S",
    note="two children + one nested group")
def _(E):
    a, b, c = mk_shape(E, "SimpleLine", "a"), mk_shape(E, "SimpleLine", "b"), mk_shape(E, "Polyline", "c")
    inner = E.construct("Group")
    E.call(inner, "append", c)
    g = E.construct("Group")
    E.call(g, "append", a)
    E.call(g, "append", inner)
    E.call(g, "append", b)
    tr = E.choice("transformed", [True, False])
    boxes = [box(E.call(s, "bbox", transformed=tr)) for s in (a, c, b)]
    r = box(E.call(g, "bbox", transformed=tr))
    lo_x, lo_y, hi_x, hi_y = boxes[0]
    for bb in boxes[1:]:
        lo_x, lo_y, hi_x, hi_y = Min(lo_x, bb[0]), Min(lo_y, bb[1]), Max(hi_x, bb[2]), Max(hi_y, bb[3])
    E.ensure("union_of_rendered_descendants", And(r[0] == lo_x, r[1] == lo_y, r[2] == hi_x, r[3] == hi_y))
    E.ensure("empty_group_has_no_box", E.is_none(E.call(E.construct("Group"), "bbox")))
