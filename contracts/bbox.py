"""C08: bounding boxes - containment, tightness, ordering, union, stroke growth."""
from pyvc.registry import ob, family
from pyvc.api import And, Or, Not, Implies, Ite, Abs, Min, Max
from ._common import *  # noqa
from .segments import ctrl, bern
from .copies import mk_path, mk_shape

NUM = lambda r: r.choice([0.0, 1.0, -1.0]) if r.random() < 0.2 else r.uniform(-100, 100)  # noqa


def box(b):
    return tuple(b)


@family("C08/linear.bbox/hull", ["Line", "Close"], funcs=["PathSegment.bbox", "PathSegment.__iter__",
                                                         "PathSegment.__next__", "Linear.__getitem__"])
def _(E, kind):
    s = mk_seg(E, kind, "s")
    P = ctrl(s, kind)
    x0, y0, x1, y1 = box(E.call(s, "bbox"))
    t = E.real("t", lambda r: r.uniform(0, 1))
    E.assume(And(t >= 0, t <= 1))
    X, Y = bern(P, t)
    E.ensure("contains_every_point", And(x0 <= X, X <= x1, y0 <= Y, Y <= y1))
    E.ensure("ordered", And(x0 <= x1, y0 <= y1))
    E.ensure("tight:each_side_is_an_endpoint_coordinate",
             And(Or(x0 == P[0][0], x0 == P[1][0]), Or(x1 == P[0][0], x1 == P[1][0]),
                 Or(y0 == P[0][1], y0 == P[1][1]), Or(y1 == P[0][1], y1 == P[1][1])))


@ob("C08/Move.bbox/point", funcs=["Move.bbox"])
def _(E):
    s = mk_seg(E, "Move", "s", start=False)
    b = box(E.call(s, "bbox"))
    E.ensure("the_destination_point", And(b[0] == s.end.x, b[2] == s.end.x, b[1] == s.end.y, b[3] == s.end.y))


@ob("C08/QuadraticBezier.bbox/contain_tight", funcs=["QuadraticBezier.bbox", "PathSegment.point",
                                                     "QuadraticBezier.npoint"])
def _(E):
    s = mk_seg(E, "QuadraticBezier", "s")
    P = ctrl(s, "QuadraticBezier")
    x0, y0, x1, y1 = box(E.call(s, "bbox"))
    t = E.real("t", lambda r: r.uniform(0, 1))
    E.assume(And(t >= 0, t <= 1))
    X, Y = bern2(P, t)
    E.ensure("contains_every_point_x", And(x0 <= X, X <= x1))
    E.ensure("contains_every_point_y", And(y0 <= Y, Y <= y1))
    E.ensure("ordered", And(x0 <= x1, y0 <= y1))
    # tightness: every side is the coordinate of a curve point with parameter in [0, 1]
    for axis, (lo, hi) in ((0, (x0, x1)), (1, (y0, y1))):
        a0, a1, a2 = P[0][axis], P[1][axis], P[2][axis]
        d = a0 - 2 * a1 + a2
        n = a0 - a1
        # extremum parameter n/d (when d != 0): the value there, without division: a0 - n*n/d
        for nm, v in (("min", lo), ("max", hi)):
            at_ext = And(d != 0, 0 < n * d, Abs(n) < Abs(d), (v - a0) * d == -n * n)
            E.ensure("tight_%s_%s" % ("xy"[axis], nm), Or(v == a0, v == a2, at_ext))


@family("C08/Shape.bbox/union_and_stroke", [(tr, ws) for tr in (True, False) for ws in (True, False)],
        funcs=["Shape.bbox", "Path.segments", "GraphicObject.implicit_stroke_width", "PathSegment.__mul__",
               "Matrix.is_identity", "Matrix.determinant"], kind="S",
        note="segment list of a fixed representative shape (Move, Line, Close); curve boxes have their own obligations")
def _(E, case):
    transformed, with_stroke = case
    p = mk_path(E, kinds=("Move", "Line", "Close"))
    painted = E.choice("stroke", ["painted", "none", "absent"])
    if painted == "none":
        E.set(p, "stroke", E.new("Color", value=None))
    elif painted == "absent":
        E.set(p, "stroke", None)
    M = p.transform
    m0 = tuple(mat_fields(M))
    sw = p.stroke_width
    segs = E.items(E.get(p, "_segments"))
    boxes = []
    for s in segs:
        t = E.call(s, "__mul__", M) if transformed else s
        boxes.append(box(E.call(t, "bbox")))
    r = box(E.call(p, "bbox", transformed=transformed, with_stroke=with_stroke))
    delta = 0
    if with_stroke and painted == "painted":
        if transformed:
            dt = m0[0] * m0[3] - m0[1] * m0[2]
            root = E.sqrt(Abs(dt))
            delta = sw * root / 2
        else:
            delta = sw / 2
    lo_x = boxes[0][0]
    lo_y = boxes[0][1]
    hi_x = boxes[0][2]
    hi_y = boxes[0][3]
    for b in boxes[1:]:
        lo_x, lo_y, hi_x, hi_y = Min(lo_x, b[0]), Min(lo_y, b[1]), Max(hi_x, b[2]), Max(hi_y, b[3])
    E.ensure("union_of_segment_boxes_grown_by_half_the_effective_stroke_width",
             And(r[0] == lo_x - delta, r[1] == lo_y - delta, r[2] == hi_x + delta, r[3] == hi_y + delta))
    E.ensure("path_itself_not_modified", mat_eq(p.transform, m0))


@ob("C08/GraphicObject.implicit_stroke_width/sqrt_abs_det", funcs=["GraphicObject.implicit_stroke_width",
                                                                   "Matrix.determinant"], props=["C08", "C14"])
def _(E):
    p = mk_path(E, kinds=("Move", "Line"))
    m0 = tuple(mat_fields(p.transform))
    w = p.stroke_width
    E.assume(w >= 0)
    v = E.get(p, "implicit_stroke_width")
    dt = m0[0] * m0[3] - m0[1] * m0[2]
    E.ensure("w_times_sqrt_abs_det", And(v >= 0, v * v == w * w * Abs(dt)))
    E.set(p, "apply", False)
    E.ensure("not_applied_means_unscaled", E.get(p, "implicit_stroke_width") == w)


@ob("C08/Shape.bbox/empty_is_None", funcs=["Shape.bbox", "Path.segments"])
def _(E):
    p = E.construct("Path")
    E.ensure("no_segments_no_box", E.is_none(E.call(p, "bbox")))


@ob("C08/Group.union_bbox/union", funcs=["Group.union_bbox", "Group.bbox", "Group.select", "Shape.bbox"], kind="S",
    note="two children + one nested group")
def _(E):
    a, b, c = mk_shape(E, "SimpleLine", "a"), mk_shape(E, "SimpleLine", "b"), mk_shape(E, "Polyline", "c")
    inner = E.construct("Group")
    E.call(inner, "append", c)
    g = E.construct("Group")
    E.call(g, "append", a)
    E.call(g, "append", inner)
    E.call(g, "append", b)
    tr = E.choice("transformed", [True, False])
    boxes = [box(E.call(s, "bbox", transformed=tr)) for s in (a, c, b)]
    r = box(E.call(g, "bbox", transformed=tr))
    lo_x, lo_y, hi_x, hi_y = boxes[0]
    for bb in boxes[1:]:
        lo_x, lo_y, hi_x, hi_y = Min(lo_x, bb[0]), Min(lo_y, bb[1]), Max(hi_x, bb[2]), Max(hi_y, bb[3])
    E.ensure("union_of_rendered_descendants", And(r[0] == lo_x, r[1] == lo_y, r[2] == hi_x, r[3] == hi_y))
    E.ensure("empty_group_has_no_box", E.is_none(E.call(E.construct("Group"), "bbox")))


# --------------------------------------------------------------------------------------------------
# cubic Bezier: extrema by the closed form of the derivative's roots
# --------------------------------------------------------------------------------------------------
def cubic(a, t):
    u = 1 - t
    return u * u * u * a[0] + 3 * u * u * t * a[1] + 3 * u * t * t * a[2] + t * t * t * a[3]


@ob("C08/lemma/cubic_minus_critical_value_factorises", kind="L", samples=0, props=["C08"])
def _(E):
    """X(t) - X(r) = -D (t - r)^2 (t - s) for a root r of X' and s = (3 r' - r)/2, r' the other root; stated with
    denominators cleared: D*r and D*r' are R = tau + q, R' = tau - q with q^2 = tau^2 + D*c (the code's delta)"""
    a = E.reals("a0 a1 a2 a3")
    t, q, r, r2 = E.reals("t q r r2")
    D = a[0] - 3 * a[1] + 3 * a[2] - a[3]
    tau = a[0] - 2 * a[1] + a[2]
    delta = a[1] * a[1] - (a[0] + a[1]) * a[2] + a[2] * a[2] + (a[0] - a[1]) * a[3]
    E.assume(And(q * q == delta, D != 0, r * D == tau + q, r2 * D == tau - q))
    s = (3 * r2 - r) / 2
    E.ensure("factorisation_at_the_first_root", cubic(a, t) - cubic(a, r) == -D * (t - r) * (t - r) * (t - s))
    s2 = (3 * r - r2) / 2
    E.ensure("factorisation_at_the_second_root", cubic(a, t) - cubic(a, r2) == -D * (t - r2) * (t - r2) * (t - s2))
    E.ensure("delta_is_tau^2+D*c", delta == tau * tau + D * (a[1] - a[0]))


def diff_bracket(u, w, r, r2):
    return (w - r) * (w - r2) + (u - r) * (u - r2) + ((w - r) * (u - r2) + (u - r) * (w - r2)) / 2


@ob("C08/lemma/cubic_difference_between_two_parameters", kind="L", samples=0, props=["C08"])
def _(E):
    """X(w) - X(u) = -D (w - u) B with B a sum of products of (parameter - critical point) factors: on a stretch that
    contains no critical point in its interior all those products are >= 0, i.e. X is monotone there"""
    a0, D, r, r2, u, w = E.reals("a0 D r r2 u w")
    c = -D * r * r2
    tau = D * (r + r2) / 2
    a1 = a0 + c
    a2 = tau - a0 + 2 * a1
    a3 = a0 - 3 * a1 + 3 * a2 - D
    a = [a0, a1, a2, a3]
    E.ensure("difference_identity", cubic(a, w) - cubic(a, u) == -D * (w - u) * diff_bracket(u, w, r, r2))


@ob("C08/lemma/cubic_without_critical_points_is_monotone", kind="L", samples=0, props=["C08"])
def _(E):
    """if the derivative 3(c + 2 tau t - D t^2) has no real root (delta < 0) then X is monotone: X(t) lies between the
    end values for t in [0,1]"""
    a = E.reals("a0 a1 a2 a3")
    t = E.real("t")
    D = a[0] - 3 * a[1] + 3 * a[2] - a[3]
    tau = a[0] - 2 * a[1] + a[2]
    c = a[1] - a[0]
    E.assume(And(t >= 0, t <= 1, tau * tau + D * c < 0))
    X = cubic(a, t)
    E.ensure("between_the_end_values", And(X >= Min(a[0], a[3]), X <= Max(a[0], a[3])))


def param_cubic(E, a0, D, r, r2):
    c = -D * r * r2
    tau = D * (r + r2) / 2
    a1 = a0 + c
    a2 = tau - a0 + 2 * a1
    a3 = a0 - 3 * a1 + 3 * a2 - D
    return [a0, a1, a2, a3], tau


@family("C08/lemma/cubic_monotone_pieces", [1, -1], kind="L", samples=0, props=["C08"])
def _(E, sgn):
    """with X'(t) = -3 D (t - r)(t - r2), r <= r2: X is monotone on (-inf, r], [r, r2] and [r2, inf), in the direction
    given by the sign of D (difference identity + sign of the bracket)"""
    a0, D, r, r2, u, w = E.reals("a0 D r r2 u w")
    a, tau = param_cubic(E, a0, D, r, r2)
    E.assume(And(r <= r2, u <= w, D > 0 if sgn == 1 else D < 0))
    E.axiom(cubic(a, w) - cubic(a, u) == -D * (w - u) * diff_bracket(u, w, r, r2))   # proved: difference lemma
    Xu, Xw = cubic(a, u), cubic(a, w)
    dec, inc = (Xu >= Xw), (Xu <= Xw)
    E.ensure("left_piece", Implies(w <= r, dec if sgn == 1 else inc))
    E.ensure("middle_piece", Implies(And(r <= u, w <= r2), inc if sgn == 1 else dec))
    E.ensure("right_piece", Implies(r2 <= u, dec if sgn == 1 else inc))


@ob("C08/lemma/closed_form_roots_are_the_critical_points", kind="L", samples=0, props=["C08"])
def _(E):
    """(tau +- sqrt(delta)) / D are exactly the critical parameters r, r2 (delta = tau^2 + D c = D^2 (r - r2)^2 / 4)"""
    a0, D, r, r2, q = E.reals("a0 D r r2 q")
    a, tau = param_cubic(E, a0, D, r, r2)
    delta = a[1] * a[1] - (a[0] + a[1]) * a[2] + a[2] * a[2] + (a[0] - a[1]) * a[3]
    E.assume(And(D != 0, q >= 0, q * q == delta))
    p1, p2 = (tau + q) / D, (tau - q) / D
    E.ensure("delta_is_a_square", delta * 4 == D * D * (r - r2) * (r - r2))
    E.ensure("each_closed_form_root_is_a_critical_point", And(Or(p1 == r, p1 == r2), Or(p2 == r, p2 == r2)))
    E.ensure("both_critical_points_are_found", And(Or(p1 == r, p2 == r), Or(p1 == r2, p2 == r2)))


def havoc_point(rec):
    """contract of PathSegment.point on a cubic, as far as _real_minmax needs it: a fresh Point whose coordinate is the
    value of the curve at that parameter (proved by C02/segment.point/bernstein/CubicBezier); the value is kept
    abstract (a fresh variable) and related to other values only through the monotonicity lemma"""

    def summary(E, args, kwargs):
        seg, tt = args
        k = len(rec)
        vx, vy = E.real("val%dx" % k), E.real("val%dy" % k)
        rec.append((tt, vx, vy))
        return E.new("Point", x=vx, y=vy)

    return summary


@family("C08/CubicBezier._real_minmax/contains", [(ax, br) for ax in ("x", "y") for br in ("critical_points", "monotone")],
        funcs=["CubicBezier._real_minmax", "CubicBezier.bbox"],
        uses=["C08/lemma/cubic_monotone_pieces/1", "C08/lemma/cubic_monotone_pieces/-1",
              "C08/lemma/closed_form_roots_are_the_critical_points",
              "C08/lemma/cubic_without_critical_points_is_monotone", "C08/lemma/cubic_difference_between_two_parameters",
              "C02/segment.point/bernstein/CubicBezier"],
        timeout_ms=60000)
def _(E, case):
    axis, branch = case
    v = 0 if axis == "x" else 1
    s = mk_seg(E, "CubicBezier", "s")
    P = ctrl(s, "CubicBezier")
    if branch == "critical_points":
        # every cubic coordinate function with D != 0 and real critical points r <= r2 is
        #   X'(t) = -3 D (t - r)(t - r2):   c = a1 - a0 = -D r r2,   tau = a0 - 2 a1 + a2 = D (r + r2) / 2
        # so the four control values are parametrised by (a0, D, r, r2) - no loss of generality, no division
        a0 = P[0][v]
        D, r, r2 = E.reals("D r r2", lambda q: q.uniform(-3, 3))
        sgn = E.choice("sign_of_D", [1, -1])
        E.assume(And(D > 0 if sgn == 1 else D < 0, r <= r2))
        a, tau = param_cubic(E, a0, D, r, r2)
        for nm, val in (("control1", a[1]), ("control2", a[2]), ("end", a[3])):
            pnt = E.get(s, nm)
            if v == 0:
                pnt.x = val
            else:
                pnt.y = val
    else:
        a = [p[v] for p in P]
        D = a[0] - 3 * a[1] + 3 * a[2] - a[3]
        tau = a[0] - 2 * a[1] + a[2]
        E.assume(tau * tau + D * (a[1] - a[0]) < 0)
    E.assume(Or(D >= E.const(1e-8), D <= -E.const(1e-8)))     # the closed-form branch (near-quadratic: bounded check)
    t = E.real("t", lambda q: q.uniform(0, 1))
    E.assume(And(t >= 0, t <= 1))
    if E.mode != "symbolic":
        lo, hi = tuple(E.call(s, "_real_minmax", v))
        X = cubic(a, t)
        E.tol(1e-9, 1e-9)
        E.ensure("lower_bound_contains_every_curve_point", lo <= X)
        E.ensure("upper_bound_contains_every_curve_point", X <= hi)
        return
    rec = []
    E.use_contract("PathSegment.point", havoc_point(rec))
    lo, hi = tuple(E.call(s, "_real_minmax", v))
    E.drop_contract("PathSegment.point")
    Xt = E.real("X_at_t")
    pts = [(tt, (vx, vy)[v]) for tt, vx, vy in rec] + [(t, Xt)]
    E.ensure("candidates_include_both_end_parameters", And(len(rec) >= 2, rec[0][0] == 0, rec[1][0] == 1))
    if branch == "critical_points":
        q = E.code_sqrt(tau * tau + D * (a[1] - a[0]))
        for tt, _val in pts[2:-1]:
            E.axiom(Or(tt == r, tt == r2))                       # lemma closed_form_roots_are_the_critical_points
        p1, p2 = (tau + q) / D, (tau - q) / D
        E.axiom(And(Or(p1 == r, p2 == r), Or(p1 == r2, p2 == r2), Or(p1 == r, p1 == r2), Or(p2 == r, p2 == r2)))
        # every critical parameter strictly inside (0,1) is among the candidates (the code appends r1, r2 if 0<r<1)
        E.ensure("interior_critical_points_are_candidates",
                 And(Implies(And(r > 0, r < 1), Or(*[tt == r for tt, _ in pts[2:-1]]) if len(pts) > 3 else False),
                     Implies(And(r2 > 0, r2 < 1), Or(*[tt == r2 for tt, _ in pts[2:-1]]) if len(pts) > 3 else False)))
        # values at the critical parameters themselves (whether or not they are candidates)
        Xr, Xr2 = E.real("X_at_r"), E.real("X_at_r2")
        pts += [(r, Xr), (r2, Xr2)]
        for i, (u, xu) in enumerate(pts):
            for j, (w, xw) in enumerate(pts):
                if i == j:
                    continue
                # same parameter, same value (X is a function) ...
                E.axiom(Implies(u == w, xu == xw))
                # ... and the three monotone pieces (lemma cubic_monotone_pieces, instance (u, w))
                dec, inc = (xu >= xw), (xu <= xw)
                E.axiom(Implies(And(u <= w, w <= r), dec if sgn == 1 else inc))
                E.axiom(Implies(And(u <= w, r <= u, w <= r2), inc if sgn == 1 else dec))
                E.axiom(Implies(And(u <= w, r2 <= u), dec if sgn == 1 else inc))
    else:
        E.axiom(And(Xt >= Min(pts[0][1], pts[1][1]), Xt <= Max(pts[0][1], pts[1][1])))   # monotone lemma
    E.ensure("lower_bound_contains_every_curve_point", lo <= Xt)
    E.ensure("upper_bound_contains_every_curve_point", Xt <= hi)
    cand = [(tt, val) for tt, val in pts[:len(rec)]]
    E.ensure("tight:each_bound_is_the_curve_value_at_a_parameter_in_[0,1]",
             And(Or(*[lo == val for _, val in cand]), Or(*[hi == val for _, val in cand]),
                 *[And(tt >= 0, tt <= 1) for tt, _ in cand]))
