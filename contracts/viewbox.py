"""C11: Viewbox.viewbox_transform against the SVG 2 section 8.2 'equivalent transform' algorithm."""
from pyvc.registry import ob, family
from pyvc.api import And, Or, Not, Implies, Ite, Abs, Min, Max
from ._common import *  # noqa

ALIGNS = ["none", "xMinYMin", "xMidYMin", "xMaxYMin", "xMinYMid", "xMidYMid", "xMaxYMid", "xMinYMax", "xMidYMax",
          "xMaxYMax"]
MOS = ["absent", "align_only", "meet", "slice"]
SIZE = lambda r: 10 ** r.uniform(-2, 4)  # noqa
ORG = lambda r: r.choice([0.0, 1.0]) if r.random() < 0.3 else r.uniform(-300, 300)  # noqa


def vp(ex, ey, ew, eh, vx, vy, vw, vh, align, mos):
    """SVG 2 section 8.2, steps as written in the specification (align/meetOrSlice already defaulted)"""
    sx, sy = ew / vw, eh / vh
    if align != "none" and mos == "meet":
        sx = sy = Min(sx, sy)
    elif align != "none" and mos == "slice":
        sx = sy = Max(sx, sy)
    tx, ty = ex - vx * sx, ey - vy * sy
    if "xMid" in align:
        tx = tx + (ew - vw * sx) / 2
    if "xMax" in align:
        tx = tx + (ew - vw * sx)
    if "YMid" in align:
        ty = ty + (eh - vh * sy) / 2
    if "YMax" in align:
        ty = ty + (eh - vh * sy)
    return sx, sy, tx, ty


VB_FUNCS = ["Viewbox.viewbox_transform", "Length.str"]


@family("C11/Viewbox.viewbox_transform/table",
        [(a, m) for a in ALIGNS for m in MOS if m != "absent" or a == "xMidYMid"], funcs=VB_FUNCS + ["Matrix.parse"],
        props=["C11", "C03"])
def _(E, case):
    align, mos = case
    ex, ey, vx, vy = E.reals("ex ey vx vy", ORG)
    ew, eh, vw, vh = E.reals("ew eh vw vh", SIZE)
    E.assume(And(ew > 0, eh > 0, vw > 0, vh > 0))
    aspect = {"absent": None, "align_only": align, "meet": align + " meet", "slice": align + " slice"}[mos]
    r = E.callf("Viewbox.viewbox_transform", ex, ey, ew, eh, vx, vy, vw, vh, aspect)
    eff_mos = "slice" if mos == "slice" else "meet"
    sx, sy, tx, ty = vp(ex, ey, ew, eh, vx, vy, vw, vh, align, eff_mos)
    E.tol(1e-9, 1e-9)
    t, nums = E.fmt_parts(r)
    ident_t, ident_s = And(tx == 0, ty == 0), And(sx == 1, sy == 1)
    if t == "":
        E.ensure("omitted_only_when_identity", And(ident_t, ident_s))
    elif t == "scale(\x00, \x00)":
        E.ensure("scale_only_iff_no_translation", ident_t)
        E.ensure("scale_values", And(nums[0] == sx, nums[1] == sy))
    elif t == "translate(\x00, \x00)":
        E.ensure("translate_only_iff_unit_scale", ident_s)
        E.ensure("translate_values", And(nums[0] == tx, nums[1] == ty))
    elif t == "translate(\x00, \x00) scale(\x00, \x00)":
        E.ensure("translate_then_scale_values", And(nums[0] == tx, nums[1] == ty, nums[2] == sx, nums[3] == sy))
    else:
        E.ensure("one_of_the_four_templates", False)
    # end to end: the string denotes the matrix  p -> (sx*x + tx, sy*y + ty)
    M = E.construct("Matrix", r)
    E.tol(1e-7, 1e-9)
    E.ensure("matrix_of_the_string_is_the_section_8.2_transform", mat_eq(M, (sx, 0, 0, sy, tx, ty)))


@family("C11/lemma/viewbox_rectangle_fits", [(a, m) for a in ALIGNS for m in ("meet", "slice")], kind="L", samples=0)
def _(E, case):
    """corollaries of the section 8.2 transform: the viewBox rectangle is mapped inside (meet) / over (slice) the
    viewport, touches it in at least one dimension, and is placed at min / mid / max on each axis"""
    align, mos = case
    ex, ey, vx, vy = E.reals("ex ey vx vy")
    ew, eh, vw, vh = E.reals("ew eh vw vh")
    E.assume(And(ew > 0, eh > 0, vw > 0, vh > 0))
    sx, sy, tx, ty = vp(ex, ey, ew, eh, vx, vy, vw, vh, align, mos)
    x0, x1 = sx * vx + tx, sx * (vx + vw) + tx
    y0, y1 = sy * vy + ty, sy * (vy + vh) + ty
    if align == "none":
        E.ensure("mapped_onto_the_viewport", And(x0 == ex, x1 == ex + ew, y0 == ey, y1 == ey + eh))
        return
    E.ensure("uniform_positive_scale", And(sx == sy, sx > 0))
    if mos == "meet":
        E.ensure("inside", And(x0 >= ex, x1 <= ex + ew, y0 >= ey, y1 <= ey + eh))
    else:
        E.ensure("covers", And(x0 <= ex, x1 >= ex + ew, y0 <= ey, y1 >= ey + eh))
    E.ensure("touches_in_one_dimension", Or(And(x0 == ex, x1 == ex + ew), And(y0 == ey, y1 == ey + eh)))
    ax = {"xMin": x0 == ex, "xMid": x0 - ex == ex + ew - x1, "xMax": x1 == ex + ew}[align[:4]]
    ay = {"YMin": y0 == ey, "YMid": y0 - ey == ey + eh - y1, "YMax": y1 == ey + eh}[align[4:]]
    E.ensure("aligned_per_axis", And(ax, ay))


@ob("C11/Viewbox.viewbox_transform/incomplete_gives_identity", funcs=VB_FUNCS + ["Viewbox.transform",
                                                                                  "Viewbox.__init__",
                                                                                  "Viewbox.set_viewbox"])
def _(E):
    vals = list(E.reals("ex ey ew eh vx vy vw vh", SIZE))
    k = E.choice("missing", list(range(8)))
    vals[k] = None
    r = E.callf("Viewbox.viewbox_transform", *(vals + ["xMidYMid meet"]))
    E.ensure("missing_value_gives_no_transform", r == "")
    vb = E.construct("Viewbox", "0 0 100")      # three numbers only: incomplete viewBox
    el = E.new("Viewbox", x=0.0, y=0.0, width=50.0, height=50.0, preserve_aspect_ratio=None)
    E.ensure("incomplete_viewBox_attribute_gives_identity", E.call(vb, "transform", el) == "")


@family("C11/Viewbox.viewbox_transform/zero_size_raises_ZeroDivisionError_only", ["width", "height"], funcs=VB_FUNCS)
def _(E, which):
    ex, ey, vx, vy = E.reals("ex ey vx vy", ORG)
    ew, eh, vw, vh = E.reals("ew eh vw vh", SIZE)
    E.assume(And(ew > 0, eh > 0, vw >= 0, vh >= 0))
    E.assume(vw == 0 if which == "width" else And(vh == 0, vw > 0))
    asp = E.choice("aspect", [None, "none", "xMaxYMin slice"])
    out = E.catch(lambda: E.callf("Viewbox.viewbox_transform", ex, ey, ew, eh, vx, vy, vw, vh, asp))
    E.ensure("only_ZeroDivisionError", And(not out.ok, out.exc == "ZeroDivisionError"))


@ob("C11/Viewbox.construction/from_text", funcs=["Viewbox.__init__", "Viewbox.set_viewbox", "Viewbox.transform"])
def _(E):
    vx, vy = E.reals("vx vy", ORG)
    vw, vh = E.reals("vw vh", SIZE)
    E.assume(And(vw > 0, vh > 0, vx >= 0, vy >= 0))  # signs belong to the numeral spelling (A5)
    sep = E.choice("sep", [" ", ",", ", ", "  "])
    vb = E.construct("Viewbox", E.text(sep.join(["%s"] * 4), vx, vy, vw, vh), "xMinYMax slice")
    E.ensure("numbers_in_order", And(vb.x == vx, vb.y == vy, vb.width == vw, vb.height == vh))
    E.ensure("aspect_kept", E.get(vb, "preserve_aspect_ratio") == "xMinYMax slice")
