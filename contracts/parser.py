"""C01 / C09 / C17: the path-data interpreter.

The interpreter keeps no state of its own: current point, subpath start and smooth control are recomputed
from the stored segments.  Each obligation runs the REAL SVGLexicalParser.parse + Path builder callbacks on a
path in a given state (a representative stored prefix with symbolic coordinates) and a command text whose
numbers are opaque numerals, and compares the appended segments with one step of SVG 2 section 9.3
(/verif/spec/step.py).  The token regexes run on a representative spelling of the numerals (A5); the
bounded check C01/grammar_strings exercises spellings, separators and long inputs on the real code.
"""
from pyvc.registry import ob, family
from pyvc.api import And, Or, Not, Implies, Ite, Abs
from ._common import *  # noqa
from .segments import seg_points
from spec import step as S

NUM = lambda r: r.uniform(-50, 50)  # noqa
LETTERS = list("MmLlHhVvCcSsQqTtAaZz")
PREFIXES = ["empty", "M", "ML", "MQ", "MC", "MA", "MLZ", "MLM", "L", "MLZL", "MQZ", "MLZQ", "MLZC", "MLZA", "LQ", "LC", "LA",
            "LZ", "MLLL"]
BUILDER = ["SVGLexicalParser.parse", "SVGLexicalParser._command", "SVGLexicalParser._more",
           "SVGLexicalParser._number", "SVGLexicalParser._flag", "SVGLexicalParser._coord",
           "SVGLexicalParser._rcoord", "Path.parse", "Path.move", "Path.line", "Path.horizontal", "Path.vertical",
           "Path.quad", "Path.smooth_quad", "Path.cubic", "Path.smooth_cubic", "Path.arc", "Path.closed",
           "Path.append", "Path._validate_connection", "Path._validate_close", "Path.current_point", "Path.z_point",
           "Path.smooth_point", "Point.reflected_across", "Move.__init__", "Linear.__init__", "Curve.__init__",
           "QuadraticBezier.__init__", "CubicBezier.__init__", "Point.__init__", "Point.__eq__"]


def mk_prefix(E, shape):
    """a path in the state left by a grammar-conforming prefix of this shape; returns (path, state, views)"""
    E.prefix_independence()
    p = E.construct("Path")
    segs = E.get(p, "_segments")
    state = dict(cur=None, start=None, last=(None, None))
    views = []
    for i, k in enumerate(shape if shape != "empty" else ""):
        kind = {"M": "Move", "L": "Line", "Q": "QuadraticBezier", "C": "CubicBezier", "A": "Arc", "Z": "Close"}[k]
        nm = "p%d" % i
        cur = state["cur"]
        f = {"relative": False, "smooth": False}
        f["start"] = None if cur is None else E.new("Point", x=cur[0], y=cur[1])
        if kind == "Close":
            end = state["start"]
        else:
            end = (E.real(nm + "ex", NUM), E.real(nm + "ey", NUM))
        f["end"] = E.new("Point", x=end[0], y=end[1])
        last = (None, None)
        if kind == "QuadraticBezier":
            c = (E.real(nm + "cx", NUM), E.real(nm + "cy", NUM))
            f["control"] = E.new("Point", x=c[0], y=c[1])
            last = ("Q", c)
        elif kind == "CubicBezier":
            c1 = (E.real(nm + "c1x", NUM), E.real(nm + "c1y", NUM))
            c2 = (E.real(nm + "c2x", NUM), E.real(nm + "c2y", NUM))
            f["control1"] = E.new("Point", x=c1[0], y=c1[1])
            f["control2"] = E.new("Point", x=c2[0], y=c2[1])
            last = ("C", c2)
        elif kind == "Arc":
            f["center"] = mk_point(E, nm + "o")
            f["prx"] = mk_point(E, nm + "u")
            f["pry"] = mk_point(E, nm + "v")
            f["sweep"] = E.real(nm + "sw", NUM)
        E.call(segs, "append", E.new(kind, **f))
        new_start = state["start"]
        if kind == "Move" or new_start is None:
            new_start = end          # no move yet: the first segment's end stands in (fragment)
        state = dict(cur=end, start=new_start, last=last)
        views.append(kind)
    return p, state, views


def view(E, s):
    k = E.clsname(s)

    def g(n):
        q = E.get(s, n)
        return None if q is None else pt(q)

    if k in ("Move", "Line", "Close"):
        return (k, g("start"), None, None, g("end"))
    if k == "QuadraticBezier":
        return (k, g("start"), g("control"), None, g("end"))
    if k == "CubicBezier":
        return (k, g("start"), g("control1"), g("control2"), g("end"))
    return (k, g("start"), None, None, g("end"))


def same_pt(a, b):
    if a is None or b is None:
        return a is None and b is None
    return pt_eq(a, b)


def seg_matches(E, got, want):
    return And(got[0] == want[0], same_pt(got[1], want[1]), same_pt(got[2], want[2]), same_pt(got[3], want[3]),
               same_pt(got[4], want[4]))


def capture_arc(rec):
    """contract of Arc.__init__ in endpoint form (C05 obligations): records the arguments, sets start / end"""

    def summary(E, args, kwargs):
        self_ = args[0]
        if len(args) != 8:
            return E.RUN_REAL
        rec.append(args[1:])
        start, end = args[1], args[7]
        E.set(self_, "relative", kwargs.get("relative", False))
        E.set(self_, "smooth", True)
        E.set(self_, "start", E.construct("Point", start) if start is not None else None)
        E.set(self_, "end", E.construct("Point", end))
        for n in ("center", "prx", "pry"):
            E.set(self_, n, E.construct("Point", end))
        E.set(self_, "sweep", 0)
        return None

    return summary


def group_text(E, letter, name, z_at=None):
    """(text of one operand group, list of values) for a command letter; flags are concrete choices"""
    up = letter.upper()
    n = S.ARITY[up]
    if up == "A":
        rx, ry, rot, x, y = [E.real(name + k, NUM) for k in ("rx", "ry", "rot", "x", "y")]
        if name in ("g0", "g"):
            fa = E.choice(name + "large", [0, 1])
            fs = E.choice(name + "sweep", [0, 1])
        else:
            fa, fs = 1, 0      # the flag table is exercised on the first group; repetition re-uses the same code
        if z_at is not None:
            return "%s %s %s " + "%d %d z" % (fa, fs), [rx, ry, rot], [rx, ry, rot, fa, fs, None, None]
        return "%s %s %s " + "%d%d" % (fa, fs) + "%s %s", [rx, ry, rot, x, y], [rx, ry, rot, fa, fs, x, y]
    vals = [E.real("%s%d" % (name, i), NUM) for i in range(n)]
    if z_at is not None:
        keep = vals[:2 * z_at]
        return " ".join(["%s"] * len(keep)) + " z", keep, vals
    return ",".join(["%s"] * n), vals, vals


def needs_cur(letter):
    return letter.upper() in "HVA" or letter in "z"


CASES = [(pf, l) for pf in PREFIXES for l in LETTERS]


@family("C01/step", CASES, funcs=BUILDER, props=["C01", "C17"], kind="P", timeout_ms=30000,
        note="stored prefix = one representative per interpreter state: (last two stored segments) x (what the reverse "
             "scan for the subpath start finds first: a Move, a Close, nothing); by the prefix-independence audit "
             "(pyvc/loops.py, re-checked on the AST every run) a step reads nothing else of the stored list")
def _(E, case):
    pf, letter = case
    p, state, kinds = mk_prefix(E, pf)
    up = letter.upper()
    if state["cur"] is None and up != "M":
        # grammar: path data begins with a moveto, so this text is not grammar-conforming (C09 territory):
        # the parse stops with ValueError, or keeps a fragment (l / z are tolerated by design of the library)
        n = S.ARITY[up]
        vals = [E.real("g%d" % i, NUM) for i in range(n)] if up != "A" else [E.real("g%d" % i, NUM) for i in range(5)]
        tmpl = letter + " " + (" ".join(["%s"] * n) if up != "A" else "%s %s %s 0 1 %s %s")
        out = E.catch(lambda: E.call(p, "parse", E.text(tmpl, *vals)))
        E.ensure("no_current_point:only_ValueError_or_a_fragment", Or(out.ok, out.exc == "ValueError"))
        return
    n0 = E.len(E.get(p, "_segments"))
    groups = E.choice("groups", [1, 2]) if up != "Z" else 1
    rec = []
    E.use_contract("Arc.__init__", capture_arc(rec))
    tmpl, nums, st, want, arcs = letter + " ", [], dict(state), [], []
    for gi in range(groups):
        t, ns, vals = group_text(E, letter, "g%d" % gi) if up != "Z" else ("", [], [])
        tmpl += t + (" " if gi + 1 < groups else "")
        nums += ns
        seg, st = S.group(st, letter, vals, first_of_command=(gi == 0))
        want.append(seg)
    E.call(p, "parse", E.text(tmpl, *nums))
    segs = E.items(E.get(p, "_segments"))
    E.ensure("one_segment_per_operand_group", len(segs) == n0 + groups)
    if len(segs) != n0 + groups:
        return
    new = [view(E, s) for s in segs[n0:]]
    E.ensure("kinds_and_absolute_coordinates_as_the_specification_defines",
             And(*[seg_matches(E, g, (w[0], w[1], w[2], w[3], w[4])) for g, w in zip(new, want)]))
    if up == "A" and E.mode == "symbolic":
        conds = [len(rec) == groups]
        for a, w in zip(rec, want):
            rx, ry, rot, fa, fs = w[5]
            conds += [a[1] == Abs(rx), a[2] == Abs(ry), a[3] == rot, E.truth(a[4]) == bool(fa),
                      E.truth(a[5]) == bool(fs), same_pt(tuple(E.items(a[6])) if not hasattr(a[6], "x") else pt(a[6]),
                                                         w[4])]
        E.ensure("arc_constructed_from_absolute_radii_flags_and_end_point", And(*conds))
    E.ensure("starts_where_the_predecessor_ended",
             And(*[same_pt(g[1], state["cur"] if i == 0 else new[i - 1][4]) for i, g in enumerate(new)]))
    old = E.items(E.get(p, "_segments"))[:n0]
    E.ensure("stored_prefix_untouched", And(*[E.clsname(s) == k for s, k in zip(old, kinds)]))


ZCASES = [(pf, l, z) for pf in ("ML", "MQ", "MC", "MLZL", "MLM") for l in "LlTtQqSsCcAa"
          for z in range(S.ARITY[l.upper()] // 2 if l.upper() != "A" else 1)]


@family("C01/segment_completing_z", ZCASES, funcs=BUILDER, props=["C01"], kind="P", timeout_ms=30000)
def _(E, case):
    pf, letter, z_at = case
    p, state, kinds = mk_prefix(E, pf)
    n0 = E.len(E.get(p, "_segments"))
    rec = []
    E.use_contract("Arc.__init__", capture_arc(rec))
    t, ns, vals = group_text(E, letter, "g", z_at=z_at)
    seg, st = S.group(state, letter, vals, z_at=z_at)
    close, st2 = S.group(st, "z", [])
    E.call(p, "parse", E.text(letter + " " + t, *ns))
    segs = E.items(E.get(p, "_segments"))
    E.ensure("the_segment_and_a_close", len(segs) == n0 + 2)
    if len(segs) != n0 + 2:
        return
    new = [view(E, s) for s in segs[n0:]]
    E.ensure("missing_pair_is_the_subpath_start_then_closed",
             And(seg_matches(E, new[0], seg[:5]), seg_matches(E, new[1], close[:5])))


@family("C01/move_with_extra_pairs", ["M", "m"], funcs=BUILDER, props=["C01"], kind="P")
def _(E, letter):
    pf = E.choice("prefix", ["empty", "ML", "MLZ"])
    p, state, kinds = mk_prefix(E, pf)
    n0 = E.len(E.get(p, "_segments"))
    v = [E.real("v%d" % i, NUM) for i in range(6)]
    E.call(p, "parse", E.text(letter + "%s %s %s %s %s %s", *v))
    st = dict(state)
    want = []
    for gi in range(3):
        seg, st = S.group(st, letter, v[2 * gi:2 * gi + 2], first_of_command=(gi == 0))
        want.append(seg)
    segs = E.items(E.get(p, "_segments"))
    new = [view(E, s) for s in segs[n0:]]
    E.ensure("move_then_lines", And(len(new) == 3, *[seg_matches(E, g, w[:5]) for g, w in zip(new, want)]))


# --------------------------------------------------------------------------------------------------
# C09: malformed operand windows -> ValueError only, completed groups retained, numeric coordinates
# --------------------------------------------------------------------------------------------------
def c09_cases():
    out = []
    for l in LETTERS:
        n = S.ARITY[l.upper()]
        if l.upper() == "Z":
            out.append((l, "z_then_number"))
            continue
        for k in range(0, n):
            out.append((l, "only_%d_numbers" % k))
        out.append((l, "group_then_%d_extra" % max(1, n - 1)))
        out.append((l, "then_garbage"))
    return out


@family("C09/window", c09_cases(), funcs=BUILDER, props=["C09", "C10"], kind="P", timeout_ms=30000)
def _(E, case):
    letter, what = case
    pf = E.choice("prefix", ["empty", "M", "MQ", "MLZ"])
    p, state, kinds = mk_prefix(E, pf)
    # ASSUMED contract (not proved: the whole-function VC of Arc._svg_parameterize is beyond the solvers' reach, see
    # DESIGN.md section 11): the endpoint-form Arc constructor returns normally for numeric arguments.  Bounded
    # stand-ins: C05/endpoint_arcs and C09/arbitrary_strings run it on the real code.
    E.use_contract("Arc.__init__", capture_arc([]))
    n0 = E.len(E.get(p, "_segments"))
    up = letter.upper()
    n = S.ARITY[up]

    def nums(k, tag):
        return [E.real("%s%d" % (tag, i), NUM) for i in range(k)]

    def arc_text(vals):
        # numbers for an arc window: positions 3 and 4 are flags
        parts = []
        for i, v in enumerate(vals):
            parts.append("1" if i in (3, 4) else "%s")
        return " ".join(parts), [v for i, v in enumerate(vals) if i not in (3, 4)]

    if what == "z_then_number":
        text, args = letter + " %s", nums(1, "a")
    elif what.startswith("only_"):
        k = int(what.split("_")[1])
        vals = nums(k, "a")
        if up == "A":
            t, vals = arc_text(vals)
            text, args = letter + " " + t, vals
        else:
            text, args = letter + " " + " ".join(["%s"] * k), vals
    elif what.startswith("group_then_"):
        k = n + int(what.split("_")[2])
        vals = nums(k, "a")
        if up == "A":
            t1, v1 = arc_text(vals[:n])
            t2, v2 = arc_text(vals[n:])
            text, args = letter + " " + t1 + " " + t2, v1 + v2
        else:
            text, args = letter + " " + " ".join(["%s"] * k), vals
    else:
        vals = nums(n, "a")
        if up == "A":
            t, avals = arc_text(vals)
            text, args = letter + " " + t + " #", avals
        else:
            text, args = letter + " " + " ".join(["%s"] * n) + " ?", vals
    out = E.catch(lambda: E.call(p, "parse", E.text(text, *args)))
    E.ensure("returns_or_raises_ValueError_only", Or(out.ok, out.exc == "ValueError"))
    segs = E.items(E.get(p, "_segments"))
    E.ensure("stored_prefix_retained", And(len(segs) >= n0, *[E.clsname(s) == k for s, k in zip(segs, kinds)]))
    complete_first_group = what.startswith("group_then_") or what == "then_garbage"
    if complete_first_group and (state["cur"] is not None or up == "M"):
        # render up to the error: the operand group that was complete before the error is drawn
        first_vals = vals[:n] if up != "A" else vals[:3] + [1, 1] + vals[5:7]
        want, _st = S.group(dict(state), letter, first_vals)
        E.ensure("the_completed_group_before_the_error_is_retained",
                 And(len(segs) >= n0 + 1, seg_matches(E, view(E, segs[n0]), want[:5])) if len(segs) > n0 else False)
    conds = []
    for s in segs[n0:]:
        k = E.clsname(s)
        for nm in seg_points(s, k):
            q = E.get(s, nm)
            if nm == "start" and q is None:
                conds.append(state["cur"] is None)   # only a fragment's first segment may lack a start
                continue
            conds.append(q is not None and E.is_number(q.x) and E.is_number(q.y))
    E.ensure("every_retained_segment_has_numeric_coordinates", And(*conds) if conds else True)


# --------------------------------------------------------------------------------------------------
# C17: appending text continues the parse on the stored state
# --------------------------------------------------------------------------------------------------
@family("C17/append_text", ["__iadd__", "__add__"],
        funcs=["Path.__iadd__", "Path.__add__", "Path.append", "Path.extend", "Path.parse", "Path.__copy__",
               "Path.__init__"], props=["C17"], kind="P")
def _(E, how):
    pf = E.choice("prefix", ["MQ", "MLZ", "MC"])
    tail = E.choice("tail", ["t", "l", "s", "z"])
    p, state, kinds = mk_prefix(E, pf)
    q, state2, _ = mk_prefix(E, pf)          # the same state again (same symbols): reference continued by parse
    vals = [E.real("a%d" % i, NUM) for i in range(S.ARITY[tail.upper()])]
    text = E.text(tail + " " + " ".join(["%s"] * len(vals)), *vals)
    E.call(q, "parse", text)
    ref = [view(E, s) for s in E.items(E.get(q, "_segments"))]
    n_before = E.len(E.get(p, "_segments"))
    r = E.call(p, how, text)
    target = r if how in ("__iadd__", "__add__") else p
    got = [view(E, s) for s in E.items(E.get(target, "_segments"))]
    E.ensure("same_as_continuing_the_parse", And(len(got) == len(ref), *[seg_matches(E, g, w) for g, w in zip(got, ref)]))
    if how == "__add__":
        E.ensure("operand_unchanged_result_fresh", And(E.len(E.get(p, "_segments")) == n_before, not E.same(r, p),
                                                       len(set(E.reach(r)) & set(E.reach(p))) == 0))
    if how == "__iadd__":
        E.ensure("in_place", E.same(r, p))


@ob("C17/segment_plus_text", funcs=["PathSegment.__iadd__", "Path.__init__", "Path.__add__"], props=["C17"], kind="P")
def _(E):
    x, y, dx, dy = E.reals("x y dx dy", NUM)
    m = E.new("Move", start=None, end=E.new("Point", x=x, y=y), relative=False, smooth=True)
    r = E.call(m, "__add__", E.text("l %s %s z", dx, dy))
    got = [view(E, s) for s in E.items(E.get(r, "_segments"))]
    want = [("Move", None, None, None, (x, y)), ("Line", (x, y), None, None, (x + dx, y + dy)),
            ("Close", (x + dx, y + dy), None, None, (x, y))]
    E.ensure("move_plus_text_is_the_path_of_both", And(len(got) == 3, *[seg_matches(E, g, w) for g, w in zip(got, want)]))



@family("C17/concatenation", ["path", "line_shape", "rect_shape"],
        funcs=["Path.__iadd__", "Path.__add__", "Path.extend", "Path._validate_connection", "Path._validate_subpath",
               "Shape.d", "Path.d", "Path.svg_d", "Point.__str__", "SimpleLine.segments", "Rect.segments"],
        props=["C17"], kind="P", timeout_ms=30000)
def _(E, what):
    """a path plus another path / a shape (beginning with a move) draws both geometries unchanged; a shape is taken
    with its transform applied (that is what shape.d() denotes)"""
    left, state, kinds = mk_prefix(E, "ML")
    n0 = E.len(E.get(left, "_segments"))
    before = [view(E, s) for s in E.items(E.get(left, "_segments"))]
    T = mk_matrix(E, "T", lambda r: r.uniform(-2, 2))
    m0 = tuple(mat_fields(T))
    if what == "path":
        right, _st, _k = mk_prefix(E, "MQ")
        want = [view(E, s) for s in E.items(E.get(right, "_segments"))]
    elif what == "line_shape":
        x1, y1, x2, y2 = E.reals("x1 y1 x2 y2", NUM)
        right = E.construct("SimpleLine", x1, y1, x2, y2)
        E.set(right, "transform", T)
        a, b = apply(m0, (x1, y1)), apply(m0, (x2, y2))
        want = [("Move", None, None, None, a), ("Line", a, None, None, b)]
    else:
        x, y = E.reals("x y", NUM)
        w, h = E.reals("w h", lambda r: r.uniform(1, 30))
        E.assume(And(w > 0, h > 0))
        right = E.construct("Rect", x, y, w, h)
        E.set(right, "transform", T)
        c = [apply(m0, q) for q in ((x, y), (x + w, y), (x + w, y + h), (x, y + h))]
        want = [("Move", None, None, None, c[0]), ("Line", c[0], None, None, c[1]), ("Line", c[1], None, None, c[2]),
                ("Line", c[2], None, None, c[3]), ("Close", c[3], None, None, c[0])]
    r = E.call(left, "__add__", right)
    got = [view(E, s) for s in E.items(E.get(r, "_segments"))]
    E.ensure("left_geometry_then_right_geometry", len(got) == n0 + len(want))
    if len(got) != n0 + len(want):
        return
    E.ensure("left_part_unchanged", And(*[seg_matches(E, g, b) for g, b in zip(got[:n0], before)]))
    conds = []
    for g, wv in zip(got[n0:], want):
        conds.append(g[0] == wv[0])
        conds.append(same_pt(g[4], wv[4]))
        if wv[0] != "Move":
            conds.append(same_pt(g[1], wv[1]))
            conds.append(same_pt(g[2], wv[2]))
    E.ensure("right_geometry_unchanged_(shape_taken_with_its_transform)", And(*conds))
    E.ensure("operand_unchanged", And(*[seg_matches(E, view(E, s), b) for s, b in zip(E.items(E.get(left, "_segments")), before)]))
