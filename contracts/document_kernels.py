"""P kernels of the document-level properties C03, C10, C14, C20 (the whole-document statements are bounded checks)."""
from pyvc.registry import ob, family
from pyvc.api import And, Or, Not, Implies, Ite, Abs
from ._common import *  # noqa
from .transform import SPELL, VALID, fn_text, PARSE_FUNCS

SMALL = lambda r: r.uniform(-3, 3)  # noqa
NAMES = sorted(VALID)
MALFORMED = [(n, k) for n in NAMES for k in range(1, 9) if k not in VALID[n]]


@family("C10/Matrix.parse/malformed_arity", MALFORMED, funcs=PARSE_FUNCS, props=["C10", "C04"])
def _(E, case):
    """every transform function with a number of arguments outside its grammar: the parse raises ValueError and nothing
    else, or ignores surplus arguments; the matrix is then either unchanged or composed with a valid reading"""
    name, n = case
    M = mk_matrix(E, "M")
    vals = [E.real("v%d" % i, SMALL) for i in range(n)]
    text = E.text(SPELL[name] + "(" + ", ".join(["%s"] * n) + ")", *vals)
    out = E.catch(lambda: E.call(M, "parse", text))
    E.ensure("returns_or_raises_ValueError_only", Or(out.ok, out.exc == "ValueError"))


@ob("C10/Matrix.parse/garbage_arguments", funcs=PARSE_FUNCS, props=["C10"])
def _(E):
    M = mk_matrix(E, "M")
    m0 = tuple(mat_fields(M))
    text = E.choice("text", ["rotate(a)", "matrix(x y)", "scale(,)", "translate(--)", "skewX(deg)", "foo(1)", "rotate",
                             "rotate(", "matrix(1,2,3,4,5,6", ")("])
    out = E.catch(lambda: E.call(M, "parse", text))
    E.ensure("returns_or_raises_ValueError_only", Or(out.ok, out.exc == "ValueError"))
    E.ensure("matrix_unchanged_when_it_raises", Or(out.ok, mat_eq(M, m0)))


@ob("C03/Use.property_by_values/xy_is_a_trailing_translate", funcs=["Use.property_by_values", "Use.__init__",
                                                                    "Transformable.property_by_values",
                                                                    "Matrix.parse"], props=["C03"])
def _(E):
    x, y = E.reals("x y", lambda r: r.uniform(0.5, 50))
    E.assume(And(x >= 0, y >= 0))      # signs belong to the numeral spelling (A5)
    a, b = E.reals("a b", SMALL)
    E.assume(And(a >= 0, b >= 0))
    inherited = E.text("rotate(%s) scale(%s)", a, b)
    case = E.choice("xy", ["both", "x_only", "none"])
    vals = {"transform": inherited}
    if case in ("both", "x_only"):
        vals["x"] = E.text("%s", x)
    if case == "both":
        vals["y"] = E.text("%s", y)
    u = E.construct("Use", E.dict(vals))
    ang = E.tau * a / 360
    base = compose(t_scale(b, b), t_rotate(E.cos(ang), E.sin(ang)))   # right-most (scale) first
    tx, ty = (x if case != "none" else 0), (y if case == "both" else 0)
    want = compose(t_translate(tx, ty), base)                          # the translate is applied to a point first
    E.ensure("accumulated_transform_followed_by_translate(x,y)_applied_first", mat_eq(u.transform, want))


@ob("C20/lemma/written_transform_recomposes", kind="L", samples=0, props=["C20"])
def _(E):
    """the writer emits t * vt^-1 for a child of an svg with viewport transform vt; the reader prepends vt again"""
    T, V = tuple(E.reals("ta tb tc td te tf")), tuple(E.reals("va vb vc vd ve vf"))
    dv = V[0] * V[3] - V[1] * V[2]
    E.assume(dv != 0)
    I = tuple(E.reals("ia ib ic id ie if_"))
    E.assume(mat_eq(compose(V, I), T_IDENT))        # I is the inverse of V
    written = compose(T, I)                          # t * vt^-1  (t first)
    px, py = E.reals("px py")
    E.ensure("reparsed_accumulated_matrix_is_t", pt_eq(apply(V, apply(written, (px, py))), apply(T, (px, py))))


@ob("C14/GraphicObject.property_by_values/opacity_folding", funcs=["GraphicObject.property_by_values",
                                                                   "Color.__init__", "Color.opacity", "Color.alpha",
                                                                   "Length.__init__", "Length.value"], props=["C14"])
def _(E):
    o = E.real("o", lambda r: r.uniform(0, 1))
    E.assume(And(o >= 0, o <= 1))
    w = E.real("w", lambda r: r.uniform(0.1, 20))
    E.assume(w >= 0)
    g = E.construct("Path")
    E.call(g, "property_by_values", E.dict({"stroke": "#ff0000", "stroke-opacity": E.text("%s", o), "fill": "none",
                                            "stroke-width": E.text("%s", w)}))
    sv = g.stroke.value
    E.ensure("stroke_colour_kept_alpha_is_round(255*opacity)", And(sv // 256 == 0xFF0000, Abs(sv % 256 - 255 * o) * 2 <= 1))
    E.ensure("fill_none_and_width", And(E.is_none(g.fill.value), g.stroke_width == w))
    h = E.construct("Path")
    E.call(h, "property_by_values", E.dict({}))
    E.ensure("defaults_of_the_object_alone", And(E.is_none(h.stroke), E.is_none(h.fill), h.stroke_width == 1))
