"""C04 (and the algebra used by C02/C18/C20): contracts on Matrix."""
from pyvc.registry import ob, family
from pyvc.api import And, Or, Not, Implies, Ite
from ._common import *  # noqa


def snap(M):
    return tuple(mat_fields(M))


# --------------------------------------------------------------------------------------------------
# multiplication, application, inverse, identity
# --------------------------------------------------------------------------------------------------
@ob("C04/Matrix.matrix_multiply/order", funcs=["Matrix.matrix_multiply"], props=["C04", "C02"])
def _(E):
    A, B = mk_matrix(E, "A"), mk_matrix(E, "B")
    r = E.callf("Matrix.matrix_multiply", A, B)
    E.ensure("is_A_first_then_B", mat_eq(tuple(E.items(r)), compose(A, B)))
    px, py = E.reals("px py")
    E.ensure("agrees_with_point_application",
             pt_eq(apply(tuple(E.items(r)), (px, py)), apply(B, apply(A, (px, py)))))


@ob("C04/Matrix.point_in_matrix_space/apply", funcs=["Matrix.point_in_matrix_space"], props=["C04", "C02"])
def _(E):
    M = mk_matrix(E, "M")
    p = mk_point(E, "p")
    old_p = pt(p)
    q = E.call(M, "point_in_matrix_space", p)
    E.ensure("value", pt_eq(q, apply(M, old_p)))
    E.ensure("fresh_and_argument_unchanged", And(not E.same(q, p), pt_eq(p, old_p)))
    E.ensure("is_Point", E.isinstance(q, "Point"))


@family("C04/Matrix.mul/compose", ["__matmul__", "__mul__", "__rmatmul__", "__rmul__", "__imatmul__", "__imul__"],
        funcs=["Matrix.__matmul__", "Matrix.__rmatmul__", "Matrix.__imatmul__", "Matrix.matrix_multiply",
               "Matrix.__copy__", "Matrix.__init__"], props=["C04", "C02", "C18"])
def _(E, op):
    A, B = mk_matrix(E, "A"), mk_matrix(E, "B")
    a0, b0 = snap(A), snap(B)
    px, py = E.reals("px py")
    r = E.call(A, op, B)
    if op in ("__rmatmul__", "__rmul__"):
        want = compose(b0, a0)  # A.__rmatmul__(B) is B @ A
    else:
        want = compose(a0, b0)
    E.ensure("p*(A*B)==(p*A)*B", pt_eq(apply(r, (px, py)), apply(want, (px, py))))
    E.ensure("entries", mat_eq(r, want))
    if op in ("__imatmul__", "__imul__"):
        E.ensure("in_place_returns_self", E.same(r, A))
        E.ensure("argument_unchanged", mat_eq(B, b0))
    else:
        E.ensure("result_is_fresh", And(not E.same(r, A), not E.same(r, B)))
        E.ensure("operands_unchanged", And(mat_eq(A, a0), mat_eq(B, b0)))


@ob("C04/Matrix.inverse/two_sided", funcs=["Matrix.inverse"])
def _(E):
    M = mk_matrix(E, "M")
    m0 = snap(M)
    E.assume(det(M) != 0)
    r = E.call(M, "inverse")
    px, py = E.reals("px py")
    E.ensure("left_inverse", pt_eq(apply(M, apply(m0, (px, py))), (px, py)))
    E.ensure("right_inverse", pt_eq(apply(m0, apply(M, (px, py))), (px, py)))
    E.ensure("returns_self", E.same(r, M))
    E.ensure("products_are_identity", And(mat_eq(compose(m0, M), T_IDENT), mat_eq(compose(M, m0), T_IDENT)))


@ob("C04/Matrix.inverse/singular_raises_ZeroDivisionError_only", funcs=["Matrix.inverse"])
def _(E):
    M = mk_matrix(E, "M")
    E.assume(det(M) == 0)
    m0 = snap(M)
    out = E.catch(lambda: E.call(M, "inverse"))
    E.ensure("raises_ZeroDivisionError", And(not out.ok, out.exc == "ZeroDivisionError"))
    E.ensure("matrix_unchanged", mat_eq(M, m0))


@ob("C04/Matrix.__invert__/inverse_and_operand_unchanged", funcs=["Matrix.__invert__", "Matrix.inverse",
                                                                   "Matrix.__copy__"], props=["C04", "C18"])
def _(E):
    M = mk_matrix(E, "M")
    m0 = snap(M)
    E.assume(det(M) != 0)
    r = E.call(M, "__invert__")
    E.ensure("two_sided", And(mat_eq(compose(m0, r), T_IDENT), mat_eq(compose(r, m0), T_IDENT)))
    E.ensure("operand_unchanged_result_fresh", And(mat_eq(M, m0), not E.same(r, M)))


@ob("C04/Matrix.identity/neutral", funcs=["Matrix.identity", "Matrix.__init__", "Matrix.__matmul__",
                                          "Matrix.is_identity", "Matrix.reset"])
def _(E):
    M = mk_matrix(E, "M")
    m0 = snap(M)
    I = E.callf("Matrix.identity")
    E.ensure("identity_entries", mat_eq(I, T_IDENT))
    E.ensure("is_identity_true", E.truth(E.call(I, "is_identity")))
    E.ensure("left_neutral", mat_eq(E.call(I, "__matmul__", M), m0))
    E.ensure("right_neutral", mat_eq(E.call(M, "__matmul__", I), m0))
    J = E.construct("Matrix")
    E.ensure("default_constructor_is_identity", mat_eq(J, T_IDENT))
    E.call(M, "reset")
    E.ensure("reset_gives_identity", mat_eq(M, T_IDENT))


@ob("C04/Matrix.is_identity/iff", funcs=["Matrix.is_identity"])
def _(E):
    M = mk_matrix(E, "M")
    r = E.call(M, "is_identity")
    E.ensure("iff_entries", mat_eq(M, T_IDENT) if E.truth(r) else Not(mat_eq(M, T_IDENT)))


@ob("C04/Matrix.__init__/forms", funcs=["Matrix.__init__", "Matrix.__copy__", "Matrix.render"],
    props=["C04", "C18"])
def _(E):
    a, b, c, d, e, f = E.reals("a b c d e f")
    M = E.construct("Matrix", a, b, c, d, e, f)
    E.ensure("six_numbers", mat_eq(M, (a, b, c, d, e, f)))
    N = E.construct("Matrix", M)
    E.ensure("from_matrix", And(mat_eq(N, (a, b, c, d, e, f)), not E.same(N, M)))
    L = E.construct("Matrix", (a, b, c, d, e, f))
    E.ensure("from_sequence", mat_eq(L, (a, b, c, d, e, f)))
    C = E.call(M, "__copy__")
    E.ensure("copy", And(mat_eq(C, (a, b, c, d, e, f)), not E.same(C, M)))
    E.ensure("empty_string_is_identity", mat_eq(E.construct("Matrix", ""), T_IDENT))


@ob("C04/Matrix.determinant/value", funcs=["Matrix.determinant"])
def _(E):
    M = mk_matrix(E, "M")
    E.ensure("ad_minus_bc", E.get(M, "determinant") == M.a * M.d - M.b * M.c)


# --------------------------------------------------------------------------------------------------
# elementary constructors (SVG 1.1 section 7.6)
# --------------------------------------------------------------------------------------------------
@ob("C04/Matrix.constructors/entries", funcs=["Matrix.scale", "Matrix.scale_x", "Matrix.scale_y", "Matrix.translate",
                                               "Matrix.translate_x", "Matrix.translate_y", "Matrix.rotate",
                                               "Matrix.skew", "Matrix.skew_x", "Matrix.skew_y"])
def _(E):
    sx, sy, tx, ty, ang, ang2 = E.reals("sx sy tx ty ang ang2", sample=lambda r: r.uniform(-3, 3))
    E.ensure("scale2", mat_eq(E.callf("Matrix.scale", sx, sy), t_scale(sx, sy)))
    E.ensure("scale1_is_uniform", mat_eq(E.callf("Matrix.scale", sx), t_scale(sx, sx)))
    E.ensure("scale_x", mat_eq(E.callf("Matrix.scale_x", sx), t_scale(sx, 1)))
    E.ensure("scale_y", mat_eq(E.callf("Matrix.scale_y", sy), t_scale(1, sy)))
    E.ensure("translate", mat_eq(E.callf("Matrix.translate", tx, ty), t_translate(tx, ty)))
    E.ensure("translate1", mat_eq(E.callf("Matrix.translate", tx), t_translate(tx, 0)))
    E.ensure("translate_x", mat_eq(E.callf("Matrix.translate_x", tx), t_translate(tx, 0)))
    E.ensure("translate_y", mat_eq(E.callf("Matrix.translate_y", ty), t_translate(0, ty)))
    E.ensure("rotate", mat_eq(E.callf("Matrix.rotate", ang), t_rotate(E.cos(ang), E.sin(ang))))
    E.assume(And(E.cos(ang) != 0, E.cos(ang2) != 0))
    ta, tb = E.sin(ang) / E.cos(ang), E.sin(ang2) / E.cos(ang2)
    E.ensure("skew", mat_eq(E.callf("Matrix.skew", ang, ang2), t_skew(ta, tb)))
    E.ensure("skew_x", mat_eq(E.callf("Matrix.skew_x", ang), t_skew(ta, 0)))
    E.ensure("skew_y", mat_eq(E.callf("Matrix.skew_y", ang2), t_skew(0, tb)))


# --------------------------------------------------------------------------------------------------
# pre_ / post_ operations = left / right multiplication by the elementary matrix (about a centre)
# --------------------------------------------------------------------------------------------------
OPS = ["scale", "scale1", "scale_x", "scale_y", "translate", "translate1", "translate_x", "translate_y", "rotate",
       "skew", "skew_x", "skew_y", "cat"]
CENTRES = {"scale": True, "scale1": False, "scale_x": True, "scale_y": True, "rotate": True, "skew": True,
           "skew_x": True, "skew_y": True}
PREPOST_FUNCS = ["Matrix.%s_%s" % (pp, o) for pp in ("pre", "post")
                 for o in ("scale", "scale_x", "scale_y", "translate", "translate_x", "translate_y", "rotate", "skew",
                           "skew_x", "skew_y", "cat")] + ["Matrix.matrix_multiply", "Matrix.__imatmul__",
                                                          "Matrix.__init__", "Matrix.scale", "Matrix.translate",
                                                          "Matrix.rotate", "Matrix.skew"]


def elementary(E, op, sample=lambda r: r.uniform(-3, 3)):
    """returns (method suffix, argument list, 6-tuple of the elementary matrix)"""
    if op in ("scale", "scale1", "scale_x", "scale_y"):
        sx, sy = E.reals("sx sy", sample)
        if op == "scale":
            return "scale", [sx, sy], t_scale(sx, sy)
        if op == "scale1":
            return "scale", [sx], t_scale(sx, sx)
        if op == "scale_x":
            return "scale_x", [sx], t_scale(sx, 1)
        return "scale_y", [sy], t_scale(1, sy)
    if op in ("translate", "translate1", "translate_x", "translate_y"):
        tx, ty = E.reals("tx ty", sample)
        if op == "translate":
            return "translate", [tx, ty], t_translate(tx, ty)
        if op == "translate1":
            return "translate", [tx], t_translate(tx, 0)
        if op == "translate_x":
            return "translate_x", [tx], t_translate(tx, 0)
        return "translate_y", [ty], t_translate(0, ty)
    if op == "rotate":
        ang = E.real("ang", sample)
        return "rotate", [ang], t_rotate(E.cos(ang), E.sin(ang))
    if op in ("skew", "skew_x", "skew_y"):
        a1, a2 = E.reals("ang ang2", sample)
        E.assume(And(E.cos(a1) != 0, E.cos(a2) != 0))
        ta, tb = E.sin(a1) / E.cos(a1), E.sin(a2) / E.cos(a2)
        if op == "skew":
            return "skew", [a1, a2], t_skew(ta, tb)
        if op == "skew_x":
            return "skew_x", [a1], t_skew(ta, 0)
        return "skew_y", [a2], t_skew(0, tb)
    if op == "cat":
        vals = E.reals("ka kb kc kd ke kf", sample)
        return "cat", list(vals), tuple(vals)
    raise ValueError(op)


def centre_cases(op):
    if CENTRES.get(op):
        return ["omitted", "given", "x_only", "none"]
    return ["omitted"]


CASES = [(pp, op, cm) for pp in ("pre", "post") for op in OPS for cm in centre_cases(op)]


@family("C04/Matrix.prepost/elementary", CASES, funcs=PREPOST_FUNCS)
def _(E, case):
    pp, op, cm = case
    M = mk_matrix(E, "M")
    m0 = snap(M)
    suffix, args, T = elementary(E, op)
    if cm == "given":
        cx, cy = E.reals("cx cy")
        args = args + [cx, cy]
        T = about(T, cx, cy)
    elif cm == "x_only":
        cx = E.real("cx")
        args = args + [cx]
        T = about(T, cx, 0)
    elif cm == "none":
        args = args + [None, None]
    r = E.call(M, "%s_%s" % (pp, suffix), *args)
    want = compose(T, m0) if pp == "pre" else compose(m0, T)
    px, py = E.reals("px py")
    E.ensure("equals_%s_multiplication_by_elementary_matrix" % ("left" if pp == "pre" else "right"),
             mat_eq(M, want))
    E.ensure("pointwise", pt_eq(apply(M, (px, py)), apply(want, (px, py))))
    E.ensure("returns_None", E.is_none(r))
