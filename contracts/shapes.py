"""C06 / C02 lifting: basic shapes against their SVG 2 chapter 10 equivalent paths; Path.reify; Subpath.__imul__."""
from pyvc.registry import ob, family
from pyvc.api import And, Or, Not, Implies, Ite, Abs, Min, Max
from ._common import *  # noqa
from .segments import ctrl, bern, seg_points
from .copies import mk_path, mk_shape

NUM = lambda r: r.uniform(-50, 50)  # noqa
POSN = lambda r: r.uniform(1, 50)  # noqa
RECT_FUNCS = ["Rect.__init__", "Rect.property_by_args", "Rect._validate_rect", "Rect.segments", "Rect.is_degenerate",
              "Length.__init__", "Length.value", "Arc.__init__", "Move.__init__", "Linear.__init__",
              "Point.orientation", "Shape.__init__", "SVGElement.__init__"]


def seg_view(E, s):
    """(kind, {point name: (x, y) or None}, sweep or None)"""
    k = E.clsname(s)
    pts = {}
    for n in seg_points(s, k):
        p = E.get(s, n)
        pts[n] = None if p is None else pt(p)
    return k, pts, (s.sweep if k == "Arc" else None)


# --------------------------------------------------------------------------------------------------
# Rect: corner-radius decision table (SVG 2 section 10.2)
# --------------------------------------------------------------------------------------------------
RADII = ["absent", "zero", "small", "large"]


@family("C06/Rect._validate_rect/table", [(a, b) for a in RADII for b in RADII], funcs=RECT_FUNCS)
def _(E, case):
    crx, cry = case
    x, y = E.reals("x y", NUM)
    w, h = E.reals("w h", POSN)
    E.assume(And(w > 0, h > 0))
    vals = {}
    for nm, c, side in (("rx", crx, w), ("ry", cry, h)):
        if c == "absent":
            vals[nm] = None
        elif c == "zero":
            vals[nm] = 0
        else:
            v = E.real(nm, lambda r, c=c: r.uniform(0.1, 0.4) if c == "small" else r.uniform(30, 100))
            E.assume(And(v > 0, v <= side / 2) if c == "small" else v > side / 2)
            vals[nm] = v
    kw = {k: v for k, v in vals.items() if v is not None}
    r = E.construct("Rect", x=x, y=y, width=w, height=h, **kw)
    # SVG 2 10.2: auto -> the other radius (both auto -> 0); then clamp to half the side; a zero radius on either
    # axis gives square corners
    rx, ry = vals["rx"], vals["ry"]
    if rx is None and ry is None:
        ex, ey = 0, 0
    else:
        if rx is None:
            rx = ry
        if ry is None:
            ry = rx
        if crx == "zero" or cry == "zero":
            ex, ey = 0, 0
        else:
            ex, ey = Min(rx, w / 2), Min(ry, h / 2)
    E.ensure("used_radii_follow_auto_and_clamp_rules", And(E.num(r.rx) == ex, E.num(r.ry) == ey))
    E.ensure("geometry_attributes_kept", And(r.x == x, r.y == y, r.width == w, r.height == h))


@ob("C06/Rect.segments/sharp", funcs=RECT_FUNCS)
def _(E):
    x, y = E.reals("x y", NUM)
    w, h = E.reals("w h", POSN)
    E.assume(And(w > 0, h > 0))
    r = E.construct("Rect", x, y, w, h)
    segs = [seg_view(E, s) for s in E.items(E.call(r, "segments", False))]
    want = [("Move", None, (x, y)), ("Line", (x, y), (x + w, y)), ("Line", (x + w, y), (x + w, y + h)),
            ("Line", (x + w, y + h), (x, y + h)), ("Close", (x, y + h), (x, y))]
    E.ensure("five_segments_M_H_V_H_Z", And(len(segs) == 5, *[s[0] == wnt[0] for s, wnt in zip(segs, want)]))
    conds = []
    for (k, pts, _), (_, a, b) in zip(segs, want):
        conds.append(pts["start"] is None if a is None else (pts["start"] is not None and pt_eq(pts["start"], a)))
        conds.append(pt_eq(pts["end"], b))
    E.ensure("exact_corner_points", And(*conds))


@ob("C06/Rect.segments/rounded", funcs=RECT_FUNCS)
def _(E):
    x, y = E.reals("x y", NUM)
    w, h = E.reals("w h", POSN)
    rx, ry = E.reals("rx ry", lambda r: r.uniform(0.05, 0.45))
    E.assume(And(w > 0, h > 0, rx > 0, ry > 0, rx <= w / 2, ry <= h / 2))
    r = E.construct("Rect", x, y, w, h, rx, ry)
    segs = [seg_view(E, s) for s in E.items(E.call(r, "segments", False))]
    kinds = ["Move", "Line", "Arc", "Line", "Arc", "Line", "Arc", "Line", "Arc", "Close"]
    E.ensure("ten_segments_in_the_order_of_section_10.2", And(len(segs) == 10, *[s[0] == k for s, k in zip(segs, kinds)]))
    if len(segs) != 10:
        return
    pts = [(x + rx, y), (x + w - rx, y), (x + w, y + ry), (x + w, y + h - ry), (x + w - rx, y + h), (x + rx, y + h),
           (x, y + h - ry), (x, y + ry), (x + rx, y)]
    conds = [pt_eq(segs[0][1]["end"], pts[0])]
    for i in range(1, 9):
        conds.append(pt_eq(segs[i][1]["start"], pts[i - 1]))
        conds.append(pt_eq(segs[i][1]["end"], pts[i]))
    conds.append(And(pt_eq(segs[9][1]["start"], pts[8]), pt_eq(segs[9][1]["end"], pts[0])))
    E.ensure("straight_edges_and_arc_endpoints_exact", And(*conds))
    centres = {2: (x + w - rx, y + ry), 4: (x + w - rx, y + h - ry), 6: (x + rx, y + h - ry), 8: (x + rx, y + ry)}
    conds = []
    for i, c in centres.items():
        p = segs[i][1]
        # rotation 0, radii rx, ry, quarter turn in the positive-angle direction (sweep flag 1, small arc)
        conds += [pt_eq(p["center"], c), pt_eq(p["prx"], (c[0] + rx, c[1])), pt_eq(p["pry"], (c[0], c[1] + ry)),
                  segs[i][2] * 4 == E.tau]
    E.ensure("corner_arcs_are_quarter_ellipses_rx_ry_rotation_0_sweep_positive", And(*conds))


@family("C06/Rect.segments/none", ["zero_width", "zero_height", "negative_radius"], funcs=RECT_FUNCS)
def _(E, case):
    x, y = E.reals("x y", NUM)
    w, h = E.reals("w h", POSN)
    E.assume(And(w > 0, h > 0))
    if case == "zero_width":
        r = E.construct("Rect", x, y, 0, h)
    elif case == "zero_height":
        r = E.construct("Rect", x, y, w, 0)
    else:
        k = E.real("k", lambda q: -q.uniform(0.1, 5))
        E.assume(k < 0)
        r = E.construct("Rect", x, y, w, h, k, k)
        segs = [seg_view(E, s) for s in E.items(E.call(r, "segments", False))]
        E.ensure("negative_radii_give_square_corners", And(len(segs) == 5, segs[1][0] == "Line", segs[4][0] == "Close"))
        return
    E.ensure("zero_dimension_draws_nothing", E.len(E.call(r, "segments", False)) == 0)


@family("C06/shape.segments/transformed_is_image_of_untransformed", ["Rect", "RoundedRect", "SimpleLine", "Polyline",
                                                                      "Polygon"],
        funcs=["Rect.segments", "SimpleLine.segments", "_Polyshape.segments", "PathSegment.__mul__",
               "Matrix.is_identity", "Matrix.point_in_matrix_space"], props=["C06", "C02"], kind="S",
        uses=["C02/Arc.__imul__/contract"],
        note="point lists of Polyline/Polygon have a fixed representative length 3", timeout_ms=60000)
def _(E, kind):
    if kind == "RoundedRect":
        s = mk_shape(E, "Rect")
        from .arc import arc_imul_contract

        E.use_contract("Arc.__imul__", arc_imul_contract)
    elif kind == "Rect":
        x, y = E.reals("x y", NUM)
        w, h = E.reals("w h", POSN)
        E.assume(And(w > 0, h > 0))
        s = E.construct("Rect", x, y, w, h)
        E.set(s, "transform", mk_matrix(E, "sT"))
    else:
        s = mk_shape(E, kind)
    M = s.transform
    m0 = tuple(mat_fields(M))
    lin = (m0[0], m0[1], m0[2], m0[3], 0, 0)
    E.assume(Not(mat_eq(m0, T_IDENT)))
    plain = [seg_view(E, g) for g in E.items(E.call(s, "segments", False))]
    image = [seg_view(E, g) for g in E.items(E.call(s, "segments", True))]
    E.ensure("same_kinds_in_the_same_order", And(len(plain) == len(image), *[a[0] == b[0] for a, b in zip(plain, image)]))
    conds = []
    for (k, pa, swa), (_, pb, swb) in zip(plain, image):
        for n in pa:
            if k == "Arc" and n in ("prx", "pry"):
                continue
            if pa[n] is None:
                conds.append(pb[n] is None)
            else:
                conds.append(pb[n] is not None and pt_eq(pb[n], apply(m0, pa[n])))
    E.ensure("every_defining_point_is_the_matrix_image", And(*conds))
    E.ensure("shape_not_modified", mat_eq(s.transform, m0))


# --------------------------------------------------------------------------------------------------
# line, polyline, polygon
# --------------------------------------------------------------------------------------------------
@ob("C06/SimpleLine.segments/move_line", funcs=["SimpleLine.segments", "SimpleLine.__init__",
                                                "SimpleLine.property_by_args"])
def _(E):
    x1, y1, x2, y2 = E.reals("x1 y1 x2 y2", NUM)
    s = E.construct("SimpleLine", x1, y1, x2, y2)
    segs = [seg_view(E, g) for g in E.items(E.call(s, "segments", False))]
    E.ensure("move_then_line", And(len(segs) == 2, segs[0][0] == "Move", segs[1][0] == "Line",
                                   pt_eq(segs[0][1]["end"], (x1, y1)), pt_eq(segs[1][1]["start"], (x1, y1)),
                                   pt_eq(segs[1][1]["end"], (x2, y2))))


@family("C06/_Polyshape.segments/lines", [(k, n) for k in ("Polyline", "Polygon") for n in (0, 1, 2, 3, 5)],
        funcs=["_Polyshape.segments", "_Polyshape._init_points", "_Polyshape.is_degenerate", "Polyline.__init__",
               "Polygon.__init__"], kind="S", note="point-list lengths 0,1,2,3,5 enumerated (repeated points allowed)")
def _(E, case):
    kind, n = case
    pts = [(E.real("px%d" % i, NUM), E.real("py%d" % i, NUM)) for i in range(n)]
    s = E.construct(kind, *pts)
    segs = [seg_view(E, g) for g in E.items(E.call(s, "segments", False))]
    if n == 0:
        E.ensure("no_points_no_segments", len(segs) == 0)
        return
    closes = 1 if kind == "Polygon" else 0
    E.ensure("move_plus_one_line_per_further_point_plus_close_for_polygon", len(segs) == n + closes)
    conds = [segs[0][0] == "Move", pt_eq(segs[0][1]["end"], pts[0])]
    for i in range(1, n):
        conds += [segs[i][0] == "Line", pt_eq(segs[i][1]["start"], pts[i - 1]), pt_eq(segs[i][1]["end"], pts[i])]
    if closes:
        conds += [segs[n][0] == "Close", pt_eq(segs[n][1]["start"], pts[n - 1]), pt_eq(segs[n][1]["end"], pts[0])]
    E.ensure("vertices_in_order", And(*conds))


# --------------------------------------------------------------------------------------------------
# circle / ellipse in user space
# --------------------------------------------------------------------------------------------------
@family("C06/_RoundShape.segments/four_quarter_arcs", ["Circle", "Ellipse"],
        funcs=["_RoundShape.segments", "_RoundShape.point_at_t", "_RoundShape.implicit_rx", "_RoundShape.implicit_ry",
               "_RoundShape.implicit_center", "Transformable.rotation", "Arc.__init__", "Path.move", "Path.closed",
               "Path.__iadd__", "Path.append", "Path._validate_connection", "Path._validate_close",
               "_RoundShape.is_degenerate", "Point.polar"], timeout_ms=60000)
def _(E, kind):
    cx, cy = E.reals("cx cy", NUM)
    rx, ry = E.reals("rx ry", POSN)
    E.assume(And(rx > 0, ry > 0))
    s = E.construct("Ellipse", cx, cy, rx, ry) if kind == "Ellipse" else E.construct("Circle", cx, cy, rx)
    if kind == "Circle":
        ry = rx
    segs = [seg_view(E, g) for g in E.items(E.call(s, "segments", False))]
    kinds = ["Move", "Arc", "Arc", "Arc", "Arc", "Close"]
    E.ensure("move_four_arcs_close", And(len(segs) == 6, *[a[0] == k for a, k in zip(segs, kinds)]))
    if len(segs) != 6:
        return
    q = [(cx + rx, cy), (cx, cy + ry), (cx - rx, cy), (cx, cy - ry), (cx + rx, cy)]
    conds = [pt_eq(segs[0][1]["end"], q[0])]
    for i in range(4):
        p = segs[1 + i][1]
        conds += [pt_eq(p["start"], q[i]), pt_eq(p["end"], q[i + 1]), pt_eq(p["center"], (cx, cy)),
                  pt_eq(p["prx"], (cx + rx, cy)), pt_eq(p["pry"], (cx, cy + ry)), segs[1 + i][2] * 4 == E.tau]
    conds.append(pt_eq(segs[5][1]["end"], q[0]))
    E.ensure("start_at_cx+rx_quarter_arcs_through_the_axis_points_in_positive_direction", And(*conds))


# --------------------------------------------------------------------------------------------------
# C02 lifting: Path.reify / abs / segments(True); Subpath.__imul__
# --------------------------------------------------------------------------------------------------
@ob("C02/Path.reify/maps_every_segment_then_resets", funcs=["Path.reify", "GraphicObject.reify", "Transformable.reify",
                                                            "Matrix.reset", "Move.__imul__", "Linear.__imul__",
                                                            "QuadraticBezier.__imul__", "CubicBezier.__imul__"],
    props=["C02"], kind="S", note="segment list of a fixed representative shape, one segment of every Bezier kind")
def _(E):
    p = mk_path(E, kinds=("Move", "Line", "QuadraticBezier", "CubicBezier", "Close"))
    m0 = tuple(mat_fields(p.transform))
    before = [seg_view(E, g) for g in E.items(E.get(p, "_segments"))]
    objs = E.items(E.get(p, "_segments"))
    r = E.call(p, "reify")
    after = [seg_view(E, g) for g in E.items(E.get(p, "_segments"))]
    conds = [len(after) == len(before)]
    for (k, pa, _), (k2, pb, _) in zip(before, after):
        conds.append(k == k2)
        for n in pa:
            conds.append(pb[n] is None if pa[n] is None else pt_eq(pb[n], apply(m0, pa[n])))
    E.ensure("every_point_of_every_segment_is_mapped", And(*conds))
    E.ensure("same_segment_objects_in_place", And(*[E.same(a, b) for a, b in zip(objs, E.items(E.get(p, "_segments")))]))
    E.ensure("transform_reset_to_identity_and_returns_self", And(mat_eq(p.transform, T_IDENT), E.same(r, p)))


@ob("C02/Path.segments/transformed", funcs=["Path.segments", "PathSegment.__mul__", "Matrix.is_identity"],
    props=["C02"], kind="S")
def _(E):
    p = mk_path(E, kinds=("Move", "Line", "QuadraticBezier", "CubicBezier", "Close"))
    m0 = tuple(mat_fields(p.transform))
    before = [seg_view(E, g) for g in E.items(E.get(p, "_segments"))]
    out = E.items(E.call(p, "segments", True))
    after = [seg_view(E, g) for g in out]
    conds = [len(after) == len(before)]
    for (k, pa, _), (k2, pb, _) in zip(before, after):
        conds.append(k == k2)
        for n in pa:
            conds.append(pb[n] is None if pa[n] is None else pt_eq(pb[n], apply(m0, pa[n])))
    E.ensure("images_of_the_stored_segments", And(*conds))
    still = [seg_view(E, g) for g in E.items(E.get(p, "_segments"))]
    E.ensure("stored_segments_untouched", And(*[pt_eq(a[1][n], b[1][n]) for a, b in zip(before, still) for n in a[1]
                                                if a[1][n] is not None]))


@ob("C02/Subpath.__imul__/window_only", funcs=["Subpath.__imul__", "Subpath.__iter__", "Path.__getitem__"],
    props=["C02", "C16"], kind="S")
def _(E):
    p = mk_path(E, kinds=("Move", "Line", "Close", "Move", "QuadraticBezier", "Line"))
    sp = E.construct("Subpath", p, 3, 5)
    M = mk_matrix(E, "M")
    m0 = tuple(mat_fields(M))
    before = [seg_view(E, g) for g in E.items(E.get(p, "_segments"))]
    E.call(sp, "__imul__", M)
    after = [seg_view(E, g) for g in E.items(E.get(p, "_segments"))]
    conds = []
    for i, ((k, pa, _), (_, pb, _)) in enumerate(zip(before, after)):
        for n in pa:
            if pa[n] is None:
                conds.append(pb[n] is None)
            elif 3 <= i <= 5:
                conds.append(pt_eq(pb[n], apply(m0, pa[n])))
            else:
                conds.append(pt_eq(pb[n], pa[n]))
    E.ensure("only_the_window_is_mapped", And(*conds))


# --------------------------------------------------------------------------------------------------
# generic-element rule (pyvc/loops.py): element-wise loops verified on ONE generic element hold for every length
# --------------------------------------------------------------------------------------------------
GEN_KINDS = ["Move", "Line", "Close", "QuadraticBezier", "CubicBezier", "Arc"]


def one_element_path(E, kind):
    p = E.construct("Path")
    g = mk_seg(E, kind, "g", start=E.choice("has_start", [True, False]))
    E.call(E.get(p, "_segments"), "append", g)
    E.set(p, "transform", mk_matrix(E, "T"))
    return p, g


@family("C02/Path.reify/generic_element", GEN_KINDS, funcs=["Path.reify", "Matrix.reset"], props=["C02"],
        uses=["C02/Arc.__imul__/contract"])
def _(E, kind):
    E.elementwise_loop("Path.reify", 0)
    p, g = one_element_path(E, kind)
    m0 = tuple(mat_fields(p.transform))
    before = seg_view(E, g)
    E.call(p, "reify")
    after = seg_view(E, E.items(E.get(p, "_segments"))[0])
    conds = [E.same(E.items(E.get(p, "_segments"))[0], g)]
    for n in before[1]:
        if kind == "Arc" and n in ("prx", "pry"):
            continue   # radius points: C02/Arc.__imul__/contract
        conds.append(after[1][n] is None if before[1][n] is None else pt_eq(after[1][n], apply(m0, before[1][n])))
    E.ensure("the_generic_segment_is_mapped_in_place", And(*conds))
    E.ensure("transform_reset", mat_eq(p.transform, T_IDENT))


@family("C02/Path.segments/generic_element", GEN_KINDS, funcs=["Path.segments", "PathSegment.__mul__"], props=["C02"],
        uses=["C02/Arc.__imul__/contract"])
def _(E, kind):
    E.elementwise_loop("Path.segments", 0)
    p, g = one_element_path(E, kind)
    m0 = tuple(mat_fields(p.transform))
    E.assume(Not(mat_eq(m0, T_IDENT)))
    before = seg_view(E, g)
    out = E.items(E.call(p, "segments", True))
    after = seg_view(E, out[0])
    conds = [len(out) == 1, not E.same(out[0], g), after[0] == kind]
    for n in before[1]:
        if kind == "Arc" and n in ("prx", "pry"):
            continue
        conds.append(after[1][n] is None if before[1][n] is None else pt_eq(after[1][n], apply(m0, before[1][n])))
    E.ensure("image_of_the_generic_segment_fresh_object", And(*conds))
    still = seg_view(E, g)
    E.ensure("stored_segment_untouched", And(*[pt_eq(still[1][n], before[1][n]) for n in before[1]
                                               if before[1][n] is not None]))


@family("C18/Path.__copy__/generic_element", GEN_KINDS, funcs=["Path.__copy__", "Path.__init__"], props=["C18"])
def _(E, kind):
    E.elementwise_loop("Path.__copy__", 0)
    p, g = one_element_path(E, kind)
    c = E.call(p, "__copy__")
    cs = E.items(E.get(c, "_segments"))
    E.ensure("one_copy_per_segment_equal_in_value", And(len(cs) == 1, E.clsname(cs[0]) == kind,
                                                        *[(seg_view(E, cs[0])[1][n] is None) if seg_view(E, g)[1][n] is None
                                                          else pt_eq(seg_view(E, cs[0])[1][n], seg_view(E, g)[1][n])
                                                          for n in seg_view(E, g)[1]]))
    E.ensure("shares_no_mutable_object", len(set(E.reach(c)) & set(E.reach(p))) == 0)


@family("C18/Path.__init__/generic_element", GEN_KINDS, funcs=["Path.__init__"], props=["C18"])
def _(E, kind):
    p, g = one_element_path(E, kind)
    src = E.choice("source", ["path", "subpath"])
    d = E.construct("Path", p if src == "path" else E.construct("Subpath", p, 0, 0))
    ds = E.items(E.get(d, "_segments"))
    E.ensure("segments_are_copied_not_shared", And(len(ds) == 1, not E.same(ds[0], g),
                                                   len(set(E.reach(d)) & set(E.reach(p))) == 0))
