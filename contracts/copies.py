"""C18: copies and derived objects share no mutable state with their source; non-in-place operators leave
their operands unchanged.  Decided on the final heap: reach(result) and reach(source) are disjoint, and no
object reachable from the operands was written."""
from pyvc.registry import ob, family
from pyvc.api import And, Or, Not, Implies, Ite, Abs
from ._common import *  # noqa
from .segments import seg_points

NUM = lambda r: r.uniform(-50, 50)  # noqa
POSN = lambda r: r.uniform(1, 50)  # noqa


def snapshot(E, root):
    """value snapshot of every heap object reachable from root: {ident: (class, {field: scalar-or-ident})}"""
    snap = {}
    for ident, o in E.reach(root).items():
        snap[ident] = o
    return snap


def scalars(E, o, depth=0):
    """flatten the value of an object graph into a list of comparable scalars (numbers, strings, None, bools)"""
    out = []
    seen = set()

    def walk(x, d):
        if d > 8:
            return
        if x is None or isinstance(x, (bool, str)):
            out.append(x)
            return
        if isinstance(x, (tuple, list)):
            out.append(("len", len(x)))
            for e in x:
                walk(e, d + 1)
            return
        if E.is_number(x):
            out.append(E.num(x))
            return
        ident = E.ident(x)
        if ident in seen:
            out.append(("cycle",))
            return
        seen.add(ident)
        cn = E.clsname(x)
        out.append(("class", cn))
        if cn in ("list", "dict"):
            items = E.items(x) if cn == "list" else [E.item(x, k) for k in sorted(E.items(x))]
            out.append(("len", len(items)))
            for e in items:
                walk(e, d + 1)
            return
        for f in FIELDS.get(cn, ()):
            walk(E.get(x, f), d + 1)
        if cn in ("Group", "SVG", "Use"):
            its = E.items(x)
            out.append(("len", len(its)))
            for e in its:
                walk(e, d + 1)

    walk(o, depth)
    return out


SHAPE_COMMON = ("id", "transform", "apply", "fill", "stroke", "stroke_width")
FIELDS = {
    "Point": ("x", "y"), "Matrix": ("a", "b", "c", "d", "e", "f"), "Color": ("value",),
    "Length": ("amount", "units"),
    "Move": ("start", "end", "relative"), "Line": ("start", "end", "relative"), "Close": ("start", "end", "relative"),
    "QuadraticBezier": ("start", "control", "end", "relative", "smooth"),
    "CubicBezier": ("start", "control1", "control2", "end", "relative", "smooth"),
    "Arc": ("start", "end", "center", "prx", "pry", "sweep", "relative"),
    "Path": SHAPE_COMMON + ("_segments",),
    "Rect": SHAPE_COMMON + ("x", "y", "width", "height", "rx", "ry"),
    "Circle": SHAPE_COMMON + ("cx", "cy", "rx", "ry"), "Ellipse": SHAPE_COMMON + ("cx", "cy", "rx", "ry"),
    "SimpleLine": SHAPE_COMMON + ("x1", "y1", "x2", "y2"),
    "Polyline": SHAPE_COMMON + ("points",), "Polygon": SHAPE_COMMON + ("points",),
    "Group": ("id", "transform", "apply"),
}


def same_value(E, a, b):
    sa, sb = scalars(E, a), scalars(E, b)
    if len(sa) != len(sb):
        return False
    conds = []
    for x, y in zip(sa, sb):
        if isinstance(x, tuple) or isinstance(y, tuple) or x is None or y is None or isinstance(x, (str, bool)) \
                or isinstance(y, (str, bool)):
            if isinstance(x, bool) and isinstance(y, bool):
                if x != y:
                    return False
                continue
            if type(x) != type(y) or x != y:
                return False
        else:
            conds.append(x == y)
    return And(*conds)


def disjoint(E, a, b):
    return len(set(E.reach(a)) & set(E.reach(b))) == 0


def set_paint(E, s, name, paint="colour"):
    """fill and stroke: a colour (any 32-bit value), the paint 'none' (a Color object whose value is None - still a
    mutable object that a copy must not share) or unset"""
    kind = E.choice(name + "_paint", ["colour", "none", "unset"]) if paint == "any" else paint
    if kind == "colour":
        E.set(s, "stroke", E.new("Color", value=E.int(name + "stroke", 0, 4294967295)))
        E.set(s, "fill", E.new("Color", value=E.int(name + "fill", 0, 4294967295)))
    elif kind == "none":
        E.set(s, "stroke", E.new("Color", value=None))
        E.set(s, "fill", E.new("Color", value=None))
    else:
        E.set(s, "stroke", None)
        E.set(s, "fill", None)


def mk_path(E, kinds=("Move", "Line", "QuadraticBezier", "CubicBezier", "Arc", "Close"), name="p", paint="colour"):
    segs = []
    for i, k in enumerate(kinds):
        segs.append(mk_seg(E, k, "%s%d" % (name, i), start=(i > 0)))
    p = E.construct("Path", *segs)
    E.set(p, "transform", mk_matrix(E, name + "T"))
    set_paint(E, p, name, paint)
    E.set(p, "stroke_width", E.real(name + "sw", POSN))
    return p


def mk_shape(E, kind, name="s", paint="colour"):
    if kind == "Path":
        return mk_path(E, name=name, paint=paint)
    if kind == "Rect":
        x, y = E.reals(name + "x " + name + "y", NUM)
        w, h, rx, ry = E.reals(" ".join(name + k for k in ("w", "h", "rx", "ry")), POSN)
        E.assume(And(w > 0, h > 0))  # a degenerate rect (no geometry) re-normalises its radii on copy
        s = E.construct("Rect", x, y, w, h, rx, ry)
    elif kind in ("Circle", "Ellipse"):
        cx, cy = E.reals(name + "cx " + name + "cy", NUM)
        rx, ry = E.reals(name + "rx " + name + "ry", POSN)
        s = E.construct(kind, cx, cy, rx, ry) if kind == "Ellipse" else E.construct(kind, cx, cy, rx)
    elif kind == "SimpleLine":
        s = E.construct("SimpleLine", *E.reals(" ".join(name + k for k in ("x1", "y1", "x2", "y2")), NUM))
    elif kind in ("Polyline", "Polygon"):
        pts = [(E.real("%spx%d" % (name, i), NUM), E.real("%spy%d" % (name, i), NUM)) for i in range(3)]
        s = E.construct(kind, *pts)
    else:
        raise ValueError(kind)
    E.set(s, "transform", mk_matrix(E, name + "T"))
    set_paint(E, s, name, paint)
    E.set(s, "stroke_width", E.real(name + "sw", POSN))
    return s


SHAPES = ["Path", "Rect", "Circle", "Ellipse", "SimpleLine", "Polyline", "Polygon"]
COPY_FUNCS = ["Path.__copy__", "Path.__init__", "Rect.__copy__", "Ellipse.__copy__", "Circle.__copy__",
              "SimpleLine.__copy__", "Polyline.__copy__", "Polygon.__copy__", "Shape.__init__",
              "Shape.property_by_object", "SVGElement.__init__", "SVGElement.property_by_object",
              "Transformable.property_by_object", "GraphicObject.property_by_object", "Rect.property_by_object",
              "_RoundShape.property_by_object", "SimpleLine.property_by_object", "_Polyshape.property_by_object",
              "_Polyshape._init_points", "Matrix.__init__", "Color.__init__", "Length.__init__", "Length.value"]


@family("C18/copy/basic", ["Point", "Matrix", "Color", "Length"],
        funcs=["Point.__copy__", "Matrix.__copy__", "Color.__init__", "Length.__copy__"], props=["C18"])
def _(E, kind):
    if kind == "Point":
        x = mk_point(E, "p")
    elif kind == "Matrix":
        x = mk_matrix(E, "m")
    elif kind == "Color":
        x = E.new("Color", value=E.int("v", 0, 4294967295))
    else:
        x = E.new("Length", amount=E.real("a", NUM), units=E.choice("unit", ["", "px", "cm", "%"]))
    before = scalars(E, x)
    c = E.callf("copy", x) if kind != "Color" else E.construct("Color", x)
    E.ensure("equal_in_value", same_value(E, c, x))
    E.ensure("is_a_distinct_object", not E.same(c, x))
    E.ensure("source_unchanged", And(*[a == b for a, b in zip(scalars(E, x), before) if not isinstance(a, tuple)]))


@family("C18/copy/shape", SHAPES, funcs=COPY_FUNCS, props=["C18"], kind="S",
        note="list-valued fields (segments, points) have a fixed representative shape: one element of every kind")
def _(E, kind):
    s = mk_shape(E, kind, paint="any")
    before = scalars(E, s)
    c = E.callf("copy", s)
    E.ensure("equal_in_value", same_value(E, c, s))
    E.ensure("shares_no_mutable_object_with_the_source", disjoint(E, c, s))
    E.ensure("source_unchanged", And(*[a == b for a, b in zip(scalars(E, s), before)
                                       if not isinstance(a, (tuple, str, bool)) and a is not None]))


@family("C18/derive/path_from", ["Path", "Subpath"] + SHAPES[1:], funcs=COPY_FUNCS + ["Subpath.segments"],
        props=["C18"], kind="S")
def _(E, kind):
    if kind == "Subpath":
        p = mk_path(E, paint="any")
        src = E.construct("Subpath", p, 0, 3)
        holder = p
    else:
        src = mk_shape(E, kind, paint="any")
        holder = src
    d = E.construct("Path", src)
    E.ensure("is_a_Path", E.clsname(d) == "Path")
    E.ensure("shares_no_mutable_object_with_the_source", disjoint(E, d, holder))
    if kind == "Path":
        E.ensure("equal_in_value", same_value(E, d, src))


@family("C18/derive/times_matrix", SHAPES, funcs=COPY_FUNCS + ["Transformable.__mul__", "Transformable.__imul__",
                                                                 "Matrix.__imatmul__"], props=["C18", "C02"], kind="S")
def _(E, kind):
    s = mk_shape(E, kind, paint="any")
    M = mk_matrix(E, "M")
    before = scalars(E, s)
    m0 = tuple(mat_fields(M))
    t0 = tuple(mat_fields(s.transform))
    r = E.call(s, "__mul__", M)
    E.ensure("transform_is_composed", mat_eq(r.transform, compose(t0, m0)))
    E.ensure("shares_no_mutable_object_with_the_operands", And(disjoint(E, r, s), disjoint(E, r, M)))
    E.ensure("operands_unchanged", And(mat_eq(M, m0), And(*[a == b for a, b in zip(scalars(E, s), before)
                                                             if not isinstance(a, (tuple, str, bool)) and a is not None])))


@family("C18/derive/abs", ["Path", "SimpleLine", "Polyline", "Polygon", "Rect"],
        funcs=COPY_FUNCS + ["Transformable.__abs__", "Path.reify", "SimpleLine.reify", "_Polyshape.reify",
                            "Rect.reify"], props=["C18"], kind="S")
def _(E, kind):
    s = mk_shape(E, kind, paint="any")
    before = scalars(E, s)
    r = E.call(s, "__abs__")
    E.ensure("shares_no_mutable_object_with_the_operand", disjoint(E, r, s))
    E.ensure("operand_unchanged", And(*[a == b for a, b in zip(scalars(E, s), before)
                                        if not isinstance(a, (tuple, str, bool)) and a is not None]))


@ob("C18/copy/group", funcs=["Group.__copy__", "Group.__init__", "Transformable.property_by_object",
                             "SVGElement.property_by_object"] + COPY_FUNCS, props=["C18"], kind="S")
def _(E):
    inner = E.construct("Group")
    E.call(inner, "append", mk_shape(E, "SimpleLine", "a"))
    g = E.construct("Group")
    E.call(g, "append", mk_shape(E, "Rect", "b", paint="any"))
    E.call(g, "append", inner)
    E.set(g, "transform", mk_matrix(E, "gT"))
    c = E.callf("copy", g)
    E.ensure("same_structure_and_values", same_value(E, c, g))
    E.ensure("shares_no_mutable_object_with_the_source", disjoint(E, c, g))


@family("C18/derive/times_matrix_elementary", ["Point", "Point_r", "Matrix", "Move", "Line", "Close", "QuadraticBezier",
                                               "CubicBezier", "Arc"],
        funcs=["Point.__mul__", "Matrix.point_in_matrix_space", "Matrix.is_identity", "Matrix.__matmul__",
               "Matrix.__copy__", "PathSegment.__mul__", "Move.__imul__", "Linear.__imul__", "QuadraticBezier.__imul__",
               "CubicBezier.__imul__", "Arc.__imul__", "Point.__imul__"], props=["C18", "C02"], timeout_ms=60000,
        note="the matrix is arbitrary: the identity and every other special value are among its values")
def _(E, kind):
    """x * M for the elementary values: a new object that shares nothing with x or M, operands unchanged"""
    M = mk_matrix(E, "M")
    m0 = tuple(mat_fields(M))
    if kind.startswith("Point"):
        x = mk_point(E, "p")
        x0 = pt(x)
        r = E.call(x, "__mul__", M) if kind == "Point" else E.call(x, "__rmul__", M)
        E.ensure("value_is_the_image", pt_eq(r, apply(m0, x0)))
    elif kind == "Matrix":
        x = mk_matrix(E, "N")
        x0 = tuple(mat_fields(x))
        r = E.call(x, "__mul__", M)
        E.ensure("value_is_the_composition", mat_eq(r, compose(x0, m0)))
    else:
        if kind == "Arc":
            from .arc import mk_arc_orth
            x = mk_arc_orth(E)[0]
            E.set(x, "start", mk_point(E, "s"))
            E.set(x, "end", mk_point(E, "e"))
            E.use_contract("Point.__imul__", _point_imul_frame)
        else:
            x = mk_seg(E, kind, "g")
        r = E.call(x, "__mul__", M)
    E.ensure("result_is_a_new_object_sharing_nothing_with_the_operands",
             And(not E.same(r, x), disjoint(E, r, x), disjoint(E, r, M)))
    E.ensure("matrix_unchanged", mat_eq(M, m0))
    if kind.startswith("Point"):
        E.ensure("point_unchanged", pt_eq(x, x0))
    elif kind == "Matrix":
        E.ensure("left_matrix_unchanged", mat_eq(x, x0))


def _point_imul_frame(E, args, kwargs):
    """frame contract of Point.__imul__ (proved in contracts/arc.py): writes x and y of the receiver only"""
    p = args[0]
    E.set(p, "x", E.real("fx%d" % (id(p) % 9973)))
    E.set(p, "y", E.real("fy%d" % (id(p) % 9973)))
    return p


@family("C18/derive/plus_path", ["add", "iadd", "add_subpath"],
        funcs=["Path.__add__", "Path.__iadd__", "Path.extend", "Path.__copy__", "Path._validate_connection",
               "Path._validate_subpath"] + COPY_FUNCS, props=["C18", "C17"], kind="S",
        note="representative operands Move,Line,Quadratic + Move,Line; values symbolic")
def _(E, how):
    p = mk_path(E, kinds=("Move", "Line", "QuadraticBezier"), name="p")
    q = mk_path(E, kinds=("Move", "Line"), name="q")
    before_p, before_q = scalars(E, p), scalars(E, q)
    other = E.construct("Subpath", q, 0, 1) if how == "add_subpath" else q
    if how == "iadd":
        r = E.call(p, "__iadd__", other)
        E.ensure("appended_segments_are_copies_of_the_operand", disjoint(E, r, q))
    else:
        r = E.call(p, "__add__", other)
        E.ensure("result_shares_no_mutable_object_with_either_operand", And(disjoint(E, r, p), disjoint(E, r, q)))
        E.ensure("left_operand_unchanged", And(*[a == b for a, b in zip(scalars(E, p), before_p)
                                                 if not isinstance(a, (tuple, str, bool)) and a is not None]))
    E.ensure("right_operand_unchanged", And(*[a == b for a, b in zip(scalars(E, q), before_q)
                                              if not isinstance(a, (tuple, str, bool)) and a is not None]))
    E.ensure("five_segments", len(E.items(E.get(r, "_segments"))) == 5)


# --------------------------------------------------------------------------------------------------
# joints repaired by the path never alias the neighbour's Point object
# --------------------------------------------------------------------------------------------------
@family("C18/Path.edit/joint_points_are_copies", ["append_startless", "append_mismatched", "insert", "setitem",
                                                  "delitem", "extend"],
        funcs=["Path.append", "Path.insert", "Path.__setitem__", "Path.__delitem__", "Path.extend",
               "Path._validate_connection", "Path._validate_subpath", "Path._validate_move", "Path._validate_close"],
        props=["C18", "C02"], kind="S", note="representative three-segment path; the edited joint is generic")
def _(E, how):
    from .parser import mk_prefix

    p, _state, _kinds = mk_prefix(E, "MLQ")      # a connected path (every start equals the predecessor's end)
    segs = E.get(p, "_segments")
    if how == "append_startless":
        E.call(p, "append", mk_seg(E, "Line", "n", start=False))
    elif how == "append_mismatched":
        E.call(p, "append", mk_seg(E, "CubicBezier", "n"))
    elif how == "insert":
        E.call(p, "insert", 1, mk_seg(E, "Line", "n"))
    elif how == "setitem":
        E.call(p, "__setitem__", 1, mk_seg(E, "Line", "n", start=False))
    elif how == "delitem":
        E.call(p, "__delitem__", 1)
    else:
        E.call(p, "extend", E.list([mk_seg(E, "Line", "n", start=False)]))
    items = E.items(segs)
    conds = []
    tol = E.const(1e-12)                          # Point.__eq__ accepts 1e-12: such a joint is left as it is
    for a, b in zip(items, items[1:]):
        conds.append(And(Abs(a.end.x - b.start.x) <= tol, Abs(a.end.y - b.start.y) <= tol))
        conds.append(not E.same(a.end, b.start))
    E.ensure("joints_equal_in_value_but_distinct_point_objects", And(*conds))
    owners = {}
    shared = False
    for s in items:
        for ident in E.reach(s):
            if ident in owners and owners[ident] is not s:
                shared = True
            owners[ident] = s
    E.ensure("no_point_object_belongs_to_two_segments", not shared)
