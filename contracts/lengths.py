"""C15 kernels (lengths, point walk), C19 structure (arc -> Bezier chains), C16 path-level reversal (shape-bounded)."""
from pyvc.registry import ob, family
from pyvc.api import And, Or, Not, Implies, Ite, Abs, Min, Max
from ._common import *  # noqa
from .segments import ctrl, bern, seg_points
from .copies import mk_path
from .shapes import seg_view
from .arc import mk_arc_orth, sub, dot, cross, ell

NUM = lambda r: r.uniform(-50, 50)  # noqa


@family("C15/Linear.length/euclidean", ["Line", "Close"], funcs=["Linear.length", "Point.distance"])
def _(E, kind):
    s = mk_seg(E, kind, "s")
    (x0, y0), (x1, y1) = ctrl(s, kind)
    L = E.call(s, "length")
    E.ensure("is_the_distance_between_the_endpoints", And(L >= 0, L * L == (x1 - x0) * (x1 - x0) + (y1 - y0) * (y1 - y0)))
    s2 = mk_seg(E, kind, "u", start=False)
    E.ensure("zero_without_a_start_point", E.call(s2, "length") == 0)


@ob("C15/Move.length/zero", funcs=["PathSegment.length"])
def _(E):
    E.ensure("moves_contribute_nothing", E.call(mk_seg(E, "Move", "m"), "length") == 0)


@ob("C15/lemma/distance_is_isometry_invariant_and_scales", kind="L", samples=0)
def _(E):
    x0, y0, x1, y1, c, s, tx, ty, k = E.reals("x0 y0 x1 y1 c s tx ty k")
    E.assume(c * c + s * s == 1)
    sg = E.choice("orientation", [1, -1])
    M = (c, s, -sg * s, sg * c, tx, ty)          # rotation / reflection + translation
    p, q = apply(M, (x0, y0)), apply(M, (x1, y1))
    d2 = (x1 - x0) * (x1 - x0) + (y1 - y0) * (y1 - y0)
    E.ensure("unchanged_by_rotation_reflection_translation",
             (q[0] - p[0]) * (q[0] - p[0]) + (q[1] - p[1]) * (q[1] - p[1]) == d2)
    E.ensure("scales_by_k_squared_under_uniform_scaling",
             (k * x1 - k * x0) * (k * x1 - k * x0) + (k * y1 - k * y0) * (k * y1 - k * y0) == k * k * d2)
    E.ensure("symmetric_(reversal)", (x0 - x1) * (x0 - x1) + (y0 - y1) * (y0 - y1) == d2)


@ob("C15/Shape.length/sum_of_segments", funcs=["Shape.length", "Shape._calc_lengths", "Path.segments",
                                               "Linear.length", "PathSegment.length"], kind="S",
    note="fixed representative segment list Move, Line, Line, Move, Line, Close")
def _(E):
    p = mk_path(E, kinds=("Move", "Line", "Line", "Move", "Line", "Close"))
    segs = E.items(E.get(p, "_segments"))
    parts = [E.call(s, "length") for s in segs]
    total = E.call(p, "length")
    acc = 0
    for x in parts:
        acc = acc + x
    E.ensure("path_length_is_the_sum_of_segment_lengths", total == acc)
    E.ensure("moves_contribute_nothing", And(parts[0] == 0, parts[3] == 0))
    fr = E.items(E.get(p, "_lengths"))
    E.ensure("fractions_sum_of_parts", Implies(total != 0, And(*[f * total == x for f, x in zip(fr, parts)])))


@ob("C15/Shape.point/walk", funcs=["Shape.point", "Shape._calc_lengths", "PathSegment.point", "Linear.npoint"],
    kind="S", note="fixed representative segment list Move, Line, Line, Line", timeout_ms=60000)
def _(E):
    p = mk_path(E, kinds=("Move", "Line", "Line", "Line"))
    segs = E.items(E.get(p, "_segments"))
    L = [E.call(s, "length") for s in segs]
    total = L[1] + L[2] + L[3]
    E.assume(And(L[1] > 0, L[2] > 0, L[3] > 0))
    t = E.real("t", lambda r: r.uniform(0.01, 0.99))
    E.assume(And(t > 0, t < 1))
    q = E.call(p, "point", t)
    # the segment whose cumulative-length interval contains t, at the corresponding fraction of that segment
    c1, c2 = L[1] / total, (L[1] + L[2]) / total
    P1, P2, P3 = ctrl(segs[1], "Line"), ctrl(segs[2], "Line"), ctrl(segs[3], "Line")
    want1 = bern1(P1, t / c1)
    want2 = bern1(P2, (t - c1) / (c2 - c1))
    want3 = bern1(P3, (t - c2) / (1 - c2))
    E.ensure("point_on_the_segment_whose_interval_contains_t",
             Or(And(t <= c1, pt_eq(q, want1)), And(t >= c1, t <= c2, pt_eq(q, want2)), And(t >= c2, pt_eq(q, want3))))
    E.ensure("ends", And(pt_eq(E.call(p, "point", 0), segs[0].end), pt_eq(E.call(p, "point", 1), segs[3].end)))


@ob("C15/Shape.point/empty_and_zero_length", funcs=["Shape.point", "Shape._calc_lengths"])
def _(E):
    E.ensure("empty_path_has_no_point", E.is_none(E.call(E.construct("Path"), "point", 0.5)))


@ob("C15/Arc.length/circle_shortcut", funcs=["Arc.length", "Arc.rx", "Arc.ry"], props=["C15"])
def _(E):
    arc, C, U, V, k = mk_arc_orth(E)
    E.assume(Or(k == 1, k == -1))            # |U| == |V|: a circular arc
    E.assume(arc.sweep != 0)
    E.set(arc, "start", mk_point(E, "s"))
    E.set(arc, "end", mk_point(E, "e"))
    L = E.call(arc, "length")
    r2 = dot(U, U)
    E.ensure("radius_times_angle", And(L >= 0, L * L == r2 * arc.sweep * arc.sweep))


# --------------------------------------------------------------------------------------------------
# C19: structure of the Bezier chains (the error bound is a bounded check)
# --------------------------------------------------------------------------------------------------
@family("C19/Arc.as_curves/chain", [(m, n) for m in ("as_cubic_curves", "as_quad_curves") for n in (0, 1, 2, 3, 5)],
        funcs=["Arc.as_cubic_curves", "Arc.as_quad_curves", "Arc.point_at_t", "Arc.get_start_t", "Arc.t_at_point",
               "Arc.point_at_angle", "Arc.get_rotation", "CubicBezier.__init__", "QuadraticBezier.__init__"],
        kind="S", note="explicit subdivision counts 0,1,2,3,5 enumerated; coordinates symbolic", timeout_ms=60000,
        max_paths=20000)
def _(E, case):
    meth, n = case
    arc, C, U, V, k = mk_arc_orth(E)
    E.assume(k > 0)
    sx, sy, ex, ey = E.reals("sx sy ex ey", NUM)
    E.set(arc, "start", E.new("Point", x=sx, y=sy))
    E.set(arc, "end", E.new("Point", x=ex, y=ey))
    # the start parameter goes through atan2(tan): irrelevant to the chain structure, use its frame contract
    E.use_contract("Arc.get_start_t", lambda E2, a, kw: E2.real("start_t"))
    out = E.items(E.call(arc, meth, n))
    if n == 0:
        # no curves - except that an arc of zero extent between distinct endpoints (a zero radius) is the straight
        # line, which is kept as one straight curve
        straight = len(out) == 1
        E.ensure("no_curves_or_the_straight_line_of_a_zero_radius_arc",
                 And(pt_eq(out[0].start, (sx, sy)), pt_eq(out[0].end, (ex, ey)), arc.sweep == 0) if straight
                 else len(out) == 0)
        return
    E.ensure("exactly_n_curves", len(out) == n)
    kind = "CubicBezier" if meth == "as_cubic_curves" else "QuadraticBezier"
    E.ensure("all_of_the_requested_kind", And(*[E.clsname(c) == kind for c in out]))
    E.ensure("starts_at_the_arc_start_ends_at_the_arc_end", And(pt_eq(out[0].start, (sx, sy)), pt_eq(out[-1].end, (ex, ey))))
    E.ensure("consecutive_curves_join_exactly", And(*[pt_eq(a.end, b.start) for a, b in zip(out, out[1:])]))
    ids = set()
    for c in out:
        ids |= set(E.reach(c))
    E.ensure("curves_share_no_point_object_with_the_arc", len(ids & set(E.reach(arc))) == 0)


@family("C19/Arc.as_curves/default_count", ["as_cubic_curves", "as_quad_curves"],
        funcs=["Arc.as_cubic_curves", "Arc.as_quad_curves"], kind="P")
def _(E, meth):
    arc, C, U, V, k = mk_arc_orth(E)
    E.assume(k > 0)
    sp = mk_point(E, "s")
    E.set(arc, "start", sp)
    E.set(arc, "end", E.new("Point", x=sp.x, y=sp.y))
    E.set(arc, "sweep", 0)
    E.ensure("zero_extent_yields_no_curves", len(E.items(E.call(arc, meth))) == 0)


# --------------------------------------------------------------------------------------------------
# C15 / C16 histories: the cached lengths (Shape._length, Shape._lengths) never outlive the geometry they describe
# --------------------------------------------------------------------------------------------------
MUTATORS = ["append", "insert", "extend", "setitem", "delitem", "iadd", "line", "closed", "reverse", "reify",
            "subpath_reverse", "subpath_imul"]


@family("C15/Path.edit/cached_lengths_do_not_outlive_the_geometry", MUTATORS,
        funcs=["Path.append", "Path.insert", "Path.extend", "Path.__setitem__", "Path.__delitem__", "Path.__iadd__",
               "Path.line", "Path.closed", "Path.reverse", "Path.reify", "Subpath.reverse", "Subpath._reverse_segments",
               "Subpath.__imul__", "Shape._calc_lengths", "Shape.length"],
        props=["C15", "C16"], kind="S", timeout_ms=60000,
        note="representative path Move, Line, Line with a filled cache; the edit is generic")
def _(E, how):
    from .parser import mk_prefix
    p, _state, _kinds = mk_prefix(E, "MLL")
    total = E.call(p, "length")                        # fills the cache
    E.assume(total > 0)
    if how == "append":
        E.call(p, "append", mk_seg(E, "Line", "n", start=False))
    elif how == "insert":
        E.call(p, "insert", 1, mk_seg(E, "Line", "n"))
    elif how == "extend":
        E.call(p, "extend", E.list([mk_seg(E, "Line", "n", start=False)]))
    elif how == "setitem":
        E.call(p, "__setitem__", 1, mk_seg(E, "Line", "n", start=False))
    elif how == "delitem":
        E.call(p, "__delitem__", 2)
    elif how == "iadd":
        E.call(p, "__iadd__", mk_seg(E, "Line", "n", start=False))
    elif how == "line":
        E.call(p, "line", mk_point(E, "n"))
    elif how == "closed":
        E.call(p, "closed")
    elif how == "reverse":
        E.call(p, "reverse")
    elif how == "reify":
        E.set(p, "transform", mk_matrix(E, "T"))
        E.call(p, "reify")
    elif how == "subpath_reverse":
        E.call(E.call(p, "subpath", 0), "reverse")
    else:
        # a fixed non-isometric map with a symbolic translation: it changes every length, which is all that matters here
        e, f = E.reals("Te Tf", NUM)
        E.call(E.call(p, "subpath", 0), "__imul__", E.new("Matrix", a=2, b=0, c=0, d=3, e=e, f=f))
    segs = E.items(E.get(p, "_segments"))
    parts = [E.call(s, "length") for s in segs]
    acc = 0
    for x in parts:
        acc = acc + x
    cached = E.get(p, "_length")
    if E.is_none(cached):
        E.ensure("cache_invalidated_or_consistent", True)
    else:
        fr = E.items(E.get(p, "_lengths"))
        E.ensure("cache_invalidated_or_consistent",
                 And(cached == acc, len(fr) == len(parts), *[f * acc == x for f, x in zip(fr, parts)]))
    E.ensure("length_after_the_edit_is_the_sum_of_the_present_segments", E.call(p, "length") == acc)


@ob("C15/Shape.point/walk_ignores_an_invalidated_cache", funcs=["Shape.point", "Shape._calc_lengths",
                                                                  "PathSegment.point", "Linear.npoint"],
    props=["C15"], kind="S", note="Move, Line, Line; _length is None (invalid), _lengths holds arbitrary stale fractions",
    timeout_ms=60000)
def _(E):
    p = mk_path(E, kinds=("Move", "Line", "Line"))
    segs = E.items(E.get(p, "_segments"))
    L = [E.call(s, "length") for s in segs]
    E.assume(And(L[1] > 0, L[2] > 0))
    stale = E.reals("f0 f1 f2", lambda r: r.uniform(0, 1))
    E.assume(And(*[And(f >= 0, f <= 1) for f in stale]))
    E.set(p, "_length", None)
    E.set(p, "_lengths", E.list(list(stale)))
    t = E.real("t", lambda r: r.uniform(0.01, 0.99))
    E.assume(And(t > 0, t < 1))
    q = E.call(p, "point", t)
    total = L[1] + L[2]
    c1 = L[1] / total
    P1, P2 = ctrl(segs[1], "Line"), ctrl(segs[2], "Line")
    E.ensure("point_on_the_segment_whose_interval_contains_t",
             Or(And(t <= c1, pt_eq(q, bern1(P1, t / c1))), And(t >= c1, pt_eq(q, bern1(P2, (t - c1) / (1 - c1))))))


@family("C19/Arc.as_curves/tangent_to_the_arc_at_the_joints",
        [(m, n, o) for m in ("as_cubic_curves", "as_quad_curves") for n in (1, 2, 3) for o in ("direct", "mirrored")],
        funcs=["Arc.as_cubic_curves", "Arc.as_quad_curves", "Arc.point_at_t", "Arc.get_rotation", "Arc.rx", "Arc.ry",
               "CubicBezier.__init__", "QuadraticBezier.__init__"],
        kind="S", timeout_ms=90000, max_paths=20000,
        note="subdivision counts 1,2,3; both orientations of the stored radius vectors (an arc mapped by a reflection "
             "keeps pry at -90 degrees from prx); the start parameter enters through its frame contract")
def _(E, case):
    meth, n, orient = case
    arc, C, U, V, k = mk_arc_orth(E)
    E.assume(k > 0 if orient == "direct" else k < 0)
    W = V if orient == "direct" else (-V[0], -V[1])           # the second conjugate radius in the arc's own parameter
    sx, sy, ex, ey = E.reals("sx sy ex ey", NUM)
    E.set(arc, "start", E.new("Point", x=sx, y=sy))
    E.set(arc, "end", E.new("Point", x=ex, y=ey))
    E.use_contract("Arc.get_start_t", lambda E2, a, kw: E2.real("start_t", lambda r: r.uniform(-3, 3)))
    t0 = E.call(arc, "get_start_t")
    out = E.items(E.call(arc, meth, n))
    E.ensure("exactly_n_curves", len(out) == n)
    if len(out) != n:
        return
    sl = arc.sweep / n
    ts = [t0 + i * sl for i in range(n + 1)]

    def on(t):
        return ell(C, U, W, E.cos(t), E.sin(t))

    def tangent(t):
        c, s = E.cos(t), E.sin(t)
        return (-U[0] * s + W[0] * c, -U[1] * s + W[1] * c)

    E.ensure("interior_joints_are_the_arc_points_at_equal_parameter_steps",
             And(*[pt_eq(out[i].start, on(ts[i])) for i in range(1, n)]))
    if meth == "as_cubic_curves":
        conds = []
        for i, c in enumerate(out):
            d1 = sub(pt(c.control1), pt(c.start))
            d2 = sub(pt(c.end), pt(c.control2))
            conds += [cross(d1, tangent(ts[i])) == 0, cross(d2, tangent(ts[i + 1])) == 0,
                      dot(d1, tangent(ts[i])) * E.sin(sl) >= 0, dot(d2, tangent(ts[i + 1])) * E.sin(sl) >= 0]
        E.ensure("control_points_lie_on_the_tangents_of_the_arc_at_both_ends_in_the_direction_of_travel", And(*conds))
    else:
        conds = []
        for i, c in enumerate(out):
            mid = (ts[i] + ts[i + 1]) / 2
            m = sub(on(mid), C)
            d = sub(pt(c.control), C)
            conds += [cross(d, m) == 0, dot(d, m) > 0]
        E.ensure("the_control_point_lies_on_the_ray_from_the_centre_through_the_arc_point_at_the_middle_parameter",
                 And(*conds))


def chain_contract(kind):
    """frame contract of Arc.as_cubic_curves / as_quad_curves as proved by C19/Arc.as_curves/chain: n curves of the
    requested kind, the first starting at the arc's start, the last ending at its end, consecutive ones joined, all
    points new objects"""

    def summary(E, args, kwargs):
        arc = args[0]
        n = args[1] if len(args) > 1 else kwargs.get("arc_required")
        if not isinstance(n, int):
            # the count is ceil(extent / (tau * error)): with the extent fixed at 1 rad and the default error it is 2
            # (1 / (0.2 pi) = 1.59..); the assumption is checked for consistency by the cover of the path
            E.assume(n == 2)
            n = 2
        out = []
        cur = pt(arc.start)
        for i in range(n):
            nxt = pt(arc.end) if i == n - 1 else tuple(E.reals("j%d_%dx j%d_%dy" % (id(arc) % 997, i, id(arc) % 997, i), NUM))
            f = dict(start=E.new("Point", x=cur[0], y=cur[1]), end=E.new("Point", x=nxt[0], y=nxt[1]), relative=False,
                     smooth=False)
            if kind == "CubicBezier":
                f["control1"] = mk_point(E, "k%d_%da" % (id(arc) % 997, i))
                f["control2"] = mk_point(E, "k%d_%db" % (id(arc) % 997, i))
            else:
                f["control"] = mk_point(E, "k%d_%dc" % (id(arc) % 997, i))
            out.append(E.new(kind, **f))
            cur = nxt
        return E.list(out)

    return summary


@family("C19/Path.approximate_arcs/every_arc_replaced_rest_untouched",
        [(m, sh) for m in ("cubics", "quads") for sh in ("A", "AL", "AA", "MA", "MAL", "MLAZ", "MALA")],
        funcs=["Path.approximate_arcs_with_cubics", "Path.approximate_arcs_with_quads", "Path.__setitem__",
               "Path.__getitem__", "Path.__len__", "Path._validate_connection", "Path._validate_subpath"],
        props=["C19"], kind="S", timeout_ms=60000, uses=["C19/Arc.as_curves/chain/as_cubic_curves,2",
                                                          "C19/Arc.as_curves/chain/as_quad_curves,2"],
        note="representative kind sequences with an arc first, last, alone, repeated and before a close; the arcs' "
             "extent is fixed at 1 rad (two curves at the default error), everything else symbolic")
def _(E, case):
    from .parser import mk_prefix, view, seg_matches
    mode, shape = case
    p, state, kinds = mk_prefix(E, shape)
    segs0 = list(E.items(E.get(p, "_segments")))
    for s in segs0:
        if E.clsname(s) == "Arc":
            E.set(s, "sweep", 1.0)
    if E.is_none(E.get(segs0[0], "start")):
        E.set(segs0[0], "start", mk_point(E, "first"))      # a fragment that begins with a drawn segment has a start
    before = [(E.clsname(s), s, view(E, s)) for s in segs0]
    kind = "CubicBezier" if mode == "cubics" else "QuadraticBezier"
    E.use_contract("Arc.as_cubic_curves" if mode == "cubics" else "Arc.as_quad_curves", chain_contract(kind))
    E.call(p, "approximate_arcs_with_" + mode)
    after = list(E.items(E.get(p, "_segments")))
    E.ensure("no_arc_remains", not any(E.clsname(s) == "Arc" for s in after))
    want = []
    for k, s, v in before:
        want += [(kind, None, None)] * 2 if k == "Arc" else [(k, s, v)]
    E.ensure("each_arc_became_its_chain_in_place", And(len(after) == len(want),
                                                       *[E.clsname(a) == w[0] for a, w in zip(after, want)]))
    if len(after) != len(want):
        return
    E.ensure("the_other_segments_are_the_same_objects_with_the_same_points",
             And(*[And(E.same(a, w[1]), seg_matches(E, view(E, a), w[2])) for a, w in zip(after, want) if w[1] is not None]))
    views = [view(E, a) for a in after]
    E.ensure("the_path_stays_connected",
             And(*[pt_eq(b[1], a[4]) for a, b in zip(views, views[1:]) if b[1] is not None and b[0] != "Move"]))
