"""C12: Length unit tables.  Every obligation fixes the unit(s) as concrete strings (exhaustive over the 14 units
and the 14x14 ordered pairs) and leaves amounts, ppi and reference data symbolic."""
from pyvc.registry import ob, family
from pyvc.api import And, Or, Not, Implies, Ite, Abs, Min, Max
from ._common import *  # noqa

UNITS = ["", "px", "pt", "pc", "in", "cm", "mm", "%", "em", "ex", "vw", "vh", "vmin", "vmax"]
PX_FAMILY = {"": 1, "px": 1, "pt": (4, 3), "pc": 16}           # user units per unit (exact, CSS)
IN_FAMILY = {"in": (1, 1), "cm": (100, 254), "mm": (10, 254)}  # inches per unit (exact, CSS)
AMT = lambda r: r.choice([0.0, 1.0, -2.5, 3.75, 1e-3, 120.0]) if r.random() < 0.3 else r.uniform(-50, 50)  # noqa
REL6 = 2e-6   # the code writes 1/2.54 and 1/25.4 with six significant digits (0.393701, 0.0393701)

LEN_FUNCS = ["Length.__init__", "Length.value", "Length.__iadd__", "Length.__isub__", "Length.__add__",
             "Length.__sub__", "Length.__neg__", "Length.__copy__", "Length.__truediv__", "Length.__eq__",
             "Length.in_pixels", "Length.in_inches", "Length.__lt__", "Length.__le__", "Length.__gt__",
             "Length.__ge__", "Length.__ne__"]


def frac(q):
    return q if not isinstance(q, tuple) else None


def ratio(E, u):
    q = PX_FAMILY.get(u, IN_FAMILY.get(u))
    if isinstance(q, tuple):
        return E.const(float(q[0])) / q[1]
    return q


def family_of(u):
    if u in PX_FAMILY:
        return "px"
    if u in IN_FAMILY:
        return "in"
    return u  # every other unit is only commensurable with itself


def resolve(E, amount, u, ppi, scale):
    """spec value in user units: exact CSS ratios; `scale[u]` is the (unknown) size of a context-dependent unit"""
    if u in PX_FAMILY:
        return amount * ratio(E, u)
    if u in IN_FAMILY:
        return amount * ratio(E, u) * ppi
    return amount * scale[u]


def close(a, b, rel, *mags):
    m = 0
    for x in mags:
        m = m + Abs(x)
    return Abs(a - b) <= rel * m


def mk_len(E, name, u):
    return E.new("Length", amount=E.real(name, AMT), units=u)


# --------------------------------------------------------------------------------------------------
@family("C12/Length.value/unit", UNITS, funcs=["Length.value", "Length.__float__", "Viewbox.__init__",
                                               "Viewbox.set_viewbox"])
def _(E, u):
    a = E.real("a", AMT)
    L = E.new("Length", amount=a, units=u)
    ppi = E.real("ppi", lambda r: r.choice([72.0, 96.0, 254.0, 1200.0]))
    ref = E.real("ref", lambda r: r.uniform(1, 500))
    fs, fh = E.reals("fs fh", lambda r: r.uniform(4, 40))
    vbx, vby = E.reals("vbx vby", lambda r: r.uniform(-50, 50))
    vbw, vbh = E.reals("vbw vbh", lambda r: r.uniform(1, 500))
    E.assume(And(ppi > 0, vbw > 0, vbh > 0))
    vb = E.construct("Viewbox", vbx, vby, vbw, vbh)
    full = E.call(L, "value", ppi=ppi, relative_length=ref, font_size=fs, font_height=fh, viewbox=vb)
    bare = E.call(L, "value")
    if u in PX_FAMILY:
        E.ensure("exact_css_ratio", And(full == a * ratio(E, u), bare == a * ratio(E, u)))
        return
    want = {"in": a * ppi, "cm": a * ppi * 100 / 254, "mm": a * ppi * 10 / 254, "%": a * ref / 100, "em": a * fs,
            "ex": a * fh, "vw": a * vbw / 100, "vh": a * vbh / 100, "vmin": a * Min(vbw, vbh) / 100,
            "vmax": a * Max(vbw, vbh) / 100}[u]
    if u in ("cm", "mm"):
        E.ensure("css_ratio_to_six_digits", close(full, want, REL6, want))
    else:
        E.ensure("css_ratio", full == want)
    E.ensure("stays_symbolic_without_the_needed_datum", E.same(bare, L))
    # each datum alone is what the unit needs
    need = {"in": "ppi", "cm": "ppi", "mm": "ppi", "%": "relative_length", "em": "font_size", "ex": "font_height",
            "vw": "viewbox", "vh": "viewbox", "vmin": "viewbox", "vmax": "viewbox"}[u]
    others = {"ppi": ppi, "relative_length": ref, "font_size": fs, "font_height": fh, "viewbox": vb}
    given = others.pop(need)
    E.ensure("unresolved_when_only_other_data_given", E.same(E.call(L, "value", **others), L))
    alone = E.call(L, "value", **{need: given})
    E.ensure("resolved_by_its_own_datum", (close(alone, want, REL6, want) if u in ("cm", "mm") else alone == want))


@ob("C12/Length.value/none_amount", funcs=["Length.value", "Length.__init__"])
def _(E):
    L = E.construct("Length", None)
    E.ensure("none_stays_none", E.is_none(E.call(L, "value", ppi=96.0)))


PAIRS = [(u, v) for u in UNITS for v in UNITS]


def commensurable(u, v):
    return family_of(u) == family_of(v)


def mk_scale(E):
    return {u: E.real("scale_" + (u if u != "%" else "pct"), lambda r: r.uniform(0.5, 20)) for u in UNITS
            if u not in PX_FAMILY and u not in IN_FAMILY}


def arith(E, pair, op):
    u, v = pair
    A, B = mk_len(E, "a", u), mk_len(E, "b", v)
    a0, b0 = A.amount, B.amount
    ppi = E.real("ppi", lambda r: r.choice([72.0, 96.0, 254.0]))
    E.assume(ppi > 0)
    sc = mk_scale(E)
    va, vb = resolve(E, a0, u, ppi, sc), resolve(E, b0, v, ppi, sc)
    out = E.catch(lambda: E.call(A, op, B))
    if not commensurable(u, v):
        # allowed: ValueError, or an exact answer when one side is zero (0 of any unit is 0)
        if out.ok:
            r = out.value
            ok_units = E.get(r, "units")
            vr = resolve(E, r.amount, ok_units, ppi, sc)
            want = va + vb if op == "__add__" else va - vb
            E.ensure("only_zero_operands_combine_across_families", And(Or(a0 == 0, b0 == 0), vr == want))
        else:
            E.ensure("incommensurable_units_raise_ValueError_only", out.exc == "ValueError")
        return
    E.ensure("commensurable_units_never_raise", out.ok)
    if not out.ok:
        return
    r = out.value
    ru = E.get(r, "units")
    E.ensure("result_unit_in_the_same_family", family_of(ru) == family_of(u))
    vr = resolve(E, r.amount, ru, ppi, sc)
    want = va + vb if op == "__add__" else va - vb
    if family_of(u) == "in" and u != v:
        E.ensure("resolves_to_the_%s_(six-digit_constants)" % ("sum" if op == "__add__" else "difference"),
                 close(vr, want, REL6, va, vb))
    else:
        E.ensure("resolves_to_the_%s" % ("sum" if op == "__add__" else "difference"), vr == want)
    E.ensure("operands_unchanged_result_fresh",
             And(A.amount == a0, B.amount == b0, E.get(A, "units") == u, E.get(B, "units") == v,
                 not E.same(r, A), not E.same(r, B)))


@family("C12/Length.__add__/pair", PAIRS, funcs=LEN_FUNCS)
def _(E, pair):
    arith(E, pair, "__add__")


@family("C12/Length.__sub__/pair", PAIRS, funcs=LEN_FUNCS)
def _(E, pair):
    arith(E, pair, "__sub__")


@family("C12/Length.__truediv__/pair", PAIRS, funcs=LEN_FUNCS)
def _(E, pair):
    u, v = pair
    A, B = mk_len(E, "a", u), mk_len(E, "b", v)
    a0, b0 = A.amount, B.amount
    E.assume(b0 != 0)
    ppi = E.real("ppi", lambda r: r.choice([72.0, 96.0, 254.0]))
    E.assume(ppi > 0)
    sc = mk_scale(E)
    va, vb = resolve(E, a0, u, ppi, sc), resolve(E, b0, v, ppi, sc)
    out = E.catch(lambda: E.call(A, "__truediv__", B))
    if not commensurable(u, v):
        if out.ok:
            E.ensure("only_a_zero_numerator_divides_across_families", And(a0 == 0, E.num(out.value) == 0))
        else:
            E.ensure("incommensurable_units_raise_ValueError_only", out.exc == "ValueError")
        return
    E.ensure("commensurable_units_never_raise", out.ok)
    if not out.ok:
        return
    q = E.num(out.value)
    E.ensure("is_a_plain_number", E.is_number(out.value))
    if family_of(u) == "in" and u != v:
        E.ensure("ratio_of_the_values_(six-digit_constants)", Abs(q * vb - va) <= REL6 * Abs(va))
    else:
        E.ensure("ratio_of_the_values", q * vb == va)


@family("C12/Length.__eq__/pair", PAIRS, funcs=LEN_FUNCS)
def _(E, pair):
    u, v = pair
    A, B = mk_len(E, "a", u), mk_len(E, "b", v)
    a0, b0 = A.amount, B.amount
    ppi = E.real("ppi", lambda r: r.choice([72.0, 96.0, 254.0]))
    E.assume(ppi > 0)
    sc = mk_scale(E)
    for s_ in sc.values():
        E.assume(s_ > 0)  # reference sizes (font size, viewBox, percentage base) are positive
    va, vb = resolve(E, a0, u, ppi, sc), resolve(E, b0, v, ppi, sc)
    r = E.truth(E.call(A, "__eq__", B))
    ne = E.truth(E.call(A, "__ne__", B))
    E.ensure("ne_is_not_eq", ne == (not r))
    if not commensurable(u, v):
        return  # nothing to compare without further data; either answer is acceptable only for (0, 0)
    exact = (family_of(u) != "in") or u == v or {u, v} == {"cm", "mm"}
    if r:
        if exact:
            E.ensure("equal_only_if_values_equal", Abs(va - vb) <= E.const(1e-12) * Max(1, ppi))
        else:
            E.ensure("equal_only_if_values_equal_(six-digit_constants)",
                     Abs(va - vb) <= REL6 * (Abs(va) + Abs(vb)) + E.const(1e-12) * ppi)
    else:
        if exact:
            E.ensure("unequal_only_if_values_differ", va != vb)


@family("C12/Length.order/pair", PAIRS, funcs=LEN_FUNCS)
def _(E, pair):
    u, v = pair
    A, B = mk_len(E, "a", u), mk_len(E, "b", v)
    a0, b0 = A.amount, B.amount
    ppi = E.real("ppi", lambda r: r.choice([72.0, 96.0, 254.0]))
    E.assume(ppi > 0)
    sc = mk_scale(E)
    for s in sc.values():
        E.assume(s > 0)
    va, vb = resolve(E, a0, u, ppi, sc), resolve(E, b0, v, ppi, sc)
    out = E.catch(lambda: (E.truth(E.call(A, "__lt__", B)), E.truth(E.call(A, "__le__", B)),
                           E.truth(E.call(A, "__gt__", B)), E.truth(E.call(A, "__ge__", B))))
    if not commensurable(u, v):
        if not out.ok:
            E.ensure("incommensurable_units_raise_ValueError_only", out.exc == "ValueError")
        else:
            E.ensure("only_zero_operands_compare_across_families", Or(a0 == 0, b0 == 0))
        return
    E.ensure("commensurable_units_never_raise", out.ok)
    if not out.ok:
        return
    lt, le, gt, ge = out.value
    if family_of(u) == "in" and u != v:
        # six-digit constants: the order is decided correctly unless the values agree to 2e-6 relative
        far = Abs(va - vb) > REL6 * (Abs(va) + Abs(vb))
        E.ensure("numeric_order_(six-digit_constants)", Implies(far, (va < vb) if lt else (va >= vb)))
    else:
        E.ensure("lt_is_numeric_order", (va < vb) if lt else (va >= vb))
        E.ensure("le_is_numeric_order", (va <= vb) if le else (va > vb))
        E.ensure("gt_is_numeric_order", (va > vb) if gt else (va <= vb))
        E.ensure("ge_is_numeric_order", (va >= vb) if ge else (va < vb))


@family("C12/Length.to_units/numeric", ["to_mm", "to_cm", "to_inch"], funcs=["Length.to_mm", "Length.to_cm",
                                                                          "Length.to_inch", "Length.value",
                                                                          "Length.str", "Length.__init__"])
def _(E, meth):
    u = E.choice("unit", ["", "px", "pt", "pc", "in", "cm", "mm"])
    a = E.real("a", AMT)
    L = E.new("Length", amount=a, units=u)
    ppi = E.real("ppi", lambda r: r.choice([72.0, 96.0, 254.0]))
    E.assume(ppi > 0)
    r = E.call(L, meth, ppi=ppi)
    v = resolve(E, a, u, ppi, {})
    tgt = {"to_mm": "mm", "to_cm": "cm", "to_inch": "in"}[meth]
    E.ensure("unit", E.get(r, "units") == tgt)
    back = resolve(E, r.amount, tgt, ppi, {})
    E.tol(1e-9, 1e-9)
    E.ensure("same_physical_length_(six-digit_constants)", close(back, v, 2 * REL6, v) if E.mode == "symbolic" else
             Abs(back - v) <= 2 * REL6 * Abs(v) + 1e-9)


@family("C12/Length.value/percent_of_a_length", [(u, form) for u in UNITS if u != "%" for form in ("Length", "text")],
        funcs=["Length.value", "Length.__imul__", "Length.__mul__", "Length.__init__", "Viewbox.__init__",
               "Viewbox.set_viewbox"])
def _(E, case):
    """a percentage of a reference given as a Length or as text resolves like that length, with every datum forwarded"""
    u, form = case
    a = E.real("a", AMT)
    r = E.real("r", lambda q: q.uniform(0.5, 40))
    E.assume(r >= 0)                       # sign belongs to the numeral spelling for the text form (A5)
    ppi = E.real("ppi", lambda q: q.choice([72.0, 96.0, 254.0]))
    fs, fh = E.reals("fs fh", lambda q: q.uniform(4, 40))
    vbw, vbh = E.reals("vbw vbh", lambda q: q.uniform(1, 500))
    E.assume(And(ppi > 0, vbw > 0, vbh > 0))
    vb = E.construct("Viewbox", 0.0, 0.0, vbw, vbh)
    ref = E.new("Length", amount=r, units=u) if form == "Length" else E.text("%s" + u, r)
    L = E.new("Length", amount=a, units="%")
    got = E.call(L, "value", ppi=ppi, relative_length=ref, font_size=fs, font_height=fh, viewbox=vb)
    scale = {"em": fs, "ex": fh, "vw": vbw / 100, "vh": vbh / 100, "vmin": Min(vbw, vbh) / 100,
             "vmax": Max(vbw, vbh) / 100}
    want = a / 100 * resolve(E, r, u, ppi, scale)
    E.ensure("is_a_number", E.is_number(got))
    if u in ("cm", "mm"):
        E.ensure("percentage_of_the_resolved_reference_(six-digit_constants)", close(E.num(got), want, REL6, want))
    else:
        E.ensure("percentage_of_the_resolved_reference", E.num(got) == want)
