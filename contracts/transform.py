"""C04: Matrix.parse (transform strings), Angle.parse, Matrix.render.

The text of a transform list enters as a *formatted string*: literal function names and separators with
opaque numerals for the numbers.  The two token regexes run natively on a representative spelling of the
numerals (assumption A5, numeral-spelling independence; the bounded check C04/tokenizer exercises spellings).
"""
from pyvc.registry import ob, family
from pyvc.api import And, Or, Not, Implies, Ite
from ._common import *  # noqa
from .matrix import snap

SMALL = lambda r: r.uniform(-3, 3)  # noqa
ANGLE_UNITS = {"": ("deg", 360), "deg": ("deg", 360), "grad": ("grad", 400), "rad": ("rad", None), "turn": ("turn", 1)}


def angle_radians(E, v, unit):
    """value of the angle literal `v unit` in radians (CSS: deg, grad, rad, turn; unitless = degrees)"""
    if unit in ("", "deg"):
        return E.tau * v / 360
    if unit == "grad":
        return E.tau * v / 400
    if unit == "rad":
        return v
    if unit == "turn":
        return E.tau * v
    raise ValueError(unit)


# --------------------------------------------------------------------------------------------------
@family("C04/Angle.parse/unit", ["", "deg", "grad", "rad", "turn", "DEG", "Grad", "RAD", "Turn"],
        funcs=["Angle.parse", "Angle.degrees", "Angle.gradians", "Angle.radians", "Angle.turns"],
        props=["C04", "C13"])
def _(E, unit):
    v = E.real("v", SMALL)
    a = E.callf("Angle.parse", E.text("%s" + unit, v))
    E.ensure("radians_value", E.num(a) == angle_radians(E, v, unit.lower()))
    E.ensure("is_Angle", E.isinstance(a, "Angle"))


@ob("C04/Angle.accessors/consistent", funcs=["Angle.as_degrees", "Angle.as_radians", "Angle.as_turns",
                                              "Angle.as_gradians", "Angle.degrees", "Angle.turns"],
    props=["C04", "C13"])
def _(E):
    v = E.real("v", SMALL)
    a = E.callf("Angle.degrees", v)
    E.ensure("as_degrees", E.num(E.get(a, "as_degrees")) == v)
    E.ensure("as_turns", E.num(E.get(a, "as_turns")) * 360 == v)
    E.ensure("as_gradians", E.num(E.get(a, "as_gradians")) * 9 == v * 10)
    E.ensure("as_radians", E.num(E.get(a, "as_radians")) * 360 == E.tau * v)
    t = E.callf("Angle.turns", v)
    E.ensure("turns_as_degrees", E.num(E.get(t, "as_degrees")) == v * 360)


# --------------------------------------------------------------------------------------------------
# one transform function applied to an arbitrary matrix: the generic step of the parse loop
# --------------------------------------------------------------------------------------------------
def spec_function(E, name, vals, aunit="", sep=","):
    """SVG 1.1 7.6 / CSS transforms: 6-tuple denoted by name(vals...) or None when the function is ignored.
    `vals` are numbers; angles carry `aunit`."""
    n = len(vals)

    def ang(v):
        return angle_radians(E, v, aunit)

    def rot(a):
        return t_rotate(E.cos(a), E.sin(a))

    def tan(a):
        return E.sin(a) / E.cos(a)

    if name == "matrix":
        return tuple(vals[:6])
    if name == "translate":
        if n == 0:
            return None
        return t_translate(vals[0], vals[1] if n > 1 else 0)
    if name == "translatex":
        return t_translate(vals[0], 0)
    if name == "translatey":
        return t_translate(0, vals[0])
    if name == "scale":
        if n == 0:
            return T_IDENT
        T = t_scale(vals[0], vals[1] if n > 1 else vals[0])
        if n > 2:
            T = about(T, vals[2], vals[3] if n > 3 else 0)
        return T
    if name == "scalex":
        return t_scale(vals[0], 1)
    if name == "scaley":
        return t_scale(1, vals[0])
    if name == "rotate":
        T = rot(ang(vals[0]))
        if n > 1:
            T = about(T, vals[1], vals[2] if n > 2 else 0)
        return T
    if name == "skew":
        T = t_skew(tan(ang(vals[0])), tan(ang(vals[1])) if n > 1 else 0)
        if n > 2:
            T = about(T, vals[2], vals[3] if n > 3 else 0)
        return T
    if name == "skewx":
        T = t_skew(tan(ang(vals[0])), 0)
        if n > 1:
            T = about(T, vals[1], vals[2] if n > 2 else 0)
        return T
    if name == "skewy":
        T = t_skew(0, tan(ang(vals[0])))
        if n > 1:
            T = about(T, vals[1], vals[2] if n > 2 else 0)
        return T
    raise ValueError(name)


# arities the SVG / CSS grammar allows (plus the centre extension this library documents for scale/skew*)
VALID = {"matrix": [6], "translate": [1, 2], "translatex": [1], "translatey": [1], "scale": [1, 2, 3, 4],
         "scalex": [1], "scaley": [1], "rotate": [1, 2, 3], "skew": [1, 2, 3, 4], "skewx": [1, 2, 3],
         "skewy": [1, 2, 3]}
ANGLE_FIRST = {"rotate": 1, "skew": 2, "skewx": 1, "skewy": 1}
SPELL = {"matrix": "matrix", "translate": "translate", "translatex": "translateX", "translatey": "TRANSLATEY",
         "scale": "scale", "scalex": "scaleX", "scaley": "ScaleY", "rotate": "rotate", "skew": "skew",
         "skewx": "skewX", "skewy": "SKEWy"}
PARSE_FUNCS = ["Matrix.parse", "Matrix.pre_cat", "Matrix.pre_translate", "Matrix.pre_scale", "Matrix.pre_rotate",
               "Matrix.pre_skew", "Matrix.pre_skew_x", "Matrix.pre_skew_y", "Angle.parse", "Length.__init__",
               "Length.value", "Matrix.matrix_multiply", "Matrix.__init__", "Matrix.render"]


def fn_text(E, name, vals, aunit="", sep=", ", lunit=""):
    k = ANGLE_FIRST.get(name, 0)
    pieces = []
    for i in range(len(vals)):
        u = aunit if i < k else (lunit if name.startswith("translate") or i >= k and name in ANGLE_FIRST else "")
        pieces.append("%s" + u)
    return SPELL[name] + "(" + sep.join(pieces) + ")"


STEP_CASES = [(name, n, au) for name in VALID for n in VALID[name]
              for au in (["", "deg", "grad", "rad", "turn"] if name in ANGLE_FIRST else [""])]


@family("C04/Matrix.parse/step", STEP_CASES, funcs=PARSE_FUNCS)
def _(E, case):
    name, n, aunit = case
    M = mk_matrix(E, "M")
    m0 = snap(M)
    vals = [E.real("v%d" % i, SMALL) for i in range(n)]
    if name in ("skew", "skewx", "skewy"):
        for i in range(min(n, ANGLE_FIRST[name])):
            E.assume(E.cos(angle_radians(E, vals[i], aunit)) != 0)
    text = E.text(fn_text(E, name, vals, aunit), *vals)
    r = E.call(M, "parse", text)
    T = spec_function(E, name, vals, aunit)
    want = compose(T, m0)  # the new function is applied to a point first, then everything parsed before
    E.ensure("function_applied_first_then_previous", mat_eq(M, want))
    E.ensure("returns_self", E.same(r, M))


@family("C04/Matrix.parse/length_units_px", [("translate", 2), ("translatex", 1), ("translatey", 1), ("rotate", 3)],
        funcs=PARSE_FUNCS)
def _(E, case):
    name, n = case
    M = mk_matrix(E, "M")
    m0 = snap(M)
    vals = [E.real("v%d" % i, SMALL) for i in range(n)]
    text = E.text(fn_text(E, name, vals, "", ", ", "px"), *vals)
    E.call(M, "parse", text)
    E.ensure("px_is_user_unit", mat_eq(M, compose(spec_function(E, name, vals), m0)))


@family("C04/Matrix.parse/ignored", [("translate", 0)], funcs=PARSE_FUNCS)
def _(E, case):
    name, n = case
    M = mk_matrix(E, "M")
    m0 = snap(M)
    vals = [E.real("v%d" % i, SMALL) for i in range(n)]
    # an empty argument list does not match the template regex at all; write one blank-only argument
    text = E.text(fn_text(E, name, vals) if n else SPELL[name] + "( )", *vals)
    E.call(M, "parse", text)
    E.ensure("no_effect", mat_eq(M, m0))


PAIRS = [("translate", "rotate"), ("rotate", "translate"), ("scale", "translate"), ("translate", "scale"),
         ("skewx", "scale"), ("rotate", "scale"), ("matrix", "rotate"), ("scale", "skewy")]


@family("C04/Matrix.parse/two_functions_rightmost_first", PAIRS, funcs=PARSE_FUNCS + ["Matrix.__init__"])
def _(E, case):
    f1, f2 = case
    n1, n2 = VALID[f1][-1], VALID[f2][-1]
    v1 = [E.real("u%d" % i, SMALL) for i in range(n1)]
    v2 = [E.real("w%d" % i, SMALL) for i in range(n2)]
    for f, v in ((f1, v1), (f2, v2)):
        if f in ("skew", "skewx", "skewy"):
            for i in range(ANGLE_FIRST[f]):
                E.assume(E.cos(angle_radians(E, v[i], "")) != 0)
    sepa = E.choice("separator", [" ", ",", "\n\t ", ""])
    text = E.text(fn_text(E, f1, v1, "", " , ") + sepa + fn_text(E, f2, v2, "", " "), *(v1 + v2))
    M = E.construct("Matrix", text)
    T1, T2 = spec_function(E, f1, v1), spec_function(E, f2, v2)
    px, py = E.reals("px py")
    E.ensure("point_goes_through_rightmost_first", pt_eq(apply(M, (px, py)), apply(T1, apply(T2, (px, py)))))
    E.ensure("entries", mat_eq(M, compose(T2, T1)))


@ob("C04/lemma/compose_associative", kind="L", samples=0)
def _(E):
    A, B, C = [tuple(E.reals(" ".join(n + k for k in "abcdef"))) for n in "ABC"]
    E.ensure("associative", mat_eq(compose(compose(A, B), C), compose(A, compose(B, C))))
    px, py = E.reals("px py")
    E.ensure("compose_is_sequential_application", pt_eq(apply(compose(A, B), (px, py)), apply(B, apply(A, (px, py)))))


# --------------------------------------------------------------------------------------------------
# unit-bearing translations are kept as Lengths and resolved by render()
# --------------------------------------------------------------------------------------------------
@family("C04/Matrix.render/length_units", ["cm", "mm", "in", "pt", "pc", "%"],
        funcs=["Matrix.parse", "Matrix.render", "Matrix.pre_translate", "Matrix.pre_cat", "Matrix.matrix_multiply",
               "Length.value", "Length.__init__", "Matrix.__init__"], props=["C04"])
def _(E, unit):
    tx, ty = E.reals("tx ty", SMALL)
    ppi = E.real("ppi", lambda r: r.choice([72.0, 96.0, 254.0]))
    w, h = E.reals("w h", lambda r: r.uniform(10, 500))
    E.assume(And(ppi > 0, w > 0, h > 0))
    text = E.text("translate(%s" + unit + ", %s" + unit + ")", tx, ty)
    M = E.construct("Matrix", text, ppi=ppi, width=w, height=h)
    ratio = {"cm": ppi * E.const(0.393701), "mm": ppi * E.const(0.0393701), "in": ppi, "pt": E.const(4.0) / 3,
             "pc": 16, "%": None}[unit]
    if unit == "%":
        want = t_translate(tx * w / 100, ty * h / 100)
    else:
        want = t_translate(tx * ratio, ty * ratio)
    E.ensure("resolved_at_render_time", mat_eq(M, want))
    E.ensure("entries_are_numbers", And(E.is_number(M.e), E.is_number(M.f)))
