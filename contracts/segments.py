"""C02 / C16 / C18 kernels on path segments: point(t), affine commutation, reversal, copies."""
from pyvc.registry import ob, family
from pyvc.api import And, Or, Not, Implies, Ite
from ._common import *  # noqa

BEZ = ["Line", "Close", "QuadraticBezier", "CubicBezier"]
IMUL = {"Move": "Move.__imul__", "Line": "Linear.__imul__", "Close": "Linear.__imul__",
        "QuadraticBezier": "QuadraticBezier.__imul__", "CubicBezier": "CubicBezier.__imul__", "Arc": "Arc.__imul__"}
NPOINT = {"Line": "Linear.npoint", "Close": "Linear.npoint", "QuadraticBezier": "QuadraticBezier.npoint",
          "CubicBezier": "CubicBezier.npoint"}
COPY = {"Move": "Move.__copy__", "Line": "Linear.__copy__", "Close": "Linear.__copy__",
        "QuadraticBezier": "QuadraticBezier.__copy__", "CubicBezier": "CubicBezier.__copy__", "Arc": "Arc.__copy__"}


def ctrl(seg, kind):
    """control polygon of a Bezier-like segment as ((x, y), ...)"""
    if kind in ("Line", "Close"):
        return (pt(seg.start), pt(seg.end))
    if kind == "QuadraticBezier":
        return (pt(seg.start), pt(seg.control), pt(seg.end))
    return (pt(seg.start), pt(seg.control1), pt(seg.control2), pt(seg.end))


def bern(P, t):
    return {2: bern1, 3: bern2, 4: bern3}[len(P)](P, t)


@family("C02/segment.point/bernstein", BEZ, funcs=["PathSegment.point", "Linear.npoint", "QuadraticBezier.npoint",
                                                    "CubicBezier.npoint", "Point.towards", "Point.__init__"],
        props=["C02", "C15", "C16"])
def _(E, kind):
    s = mk_seg(E, kind, "s")
    P = ctrl(s, kind)
    t = E.real("t", lambda r: r.uniform(-0.5, 1.5))
    q = E.call(s, "point", t)
    E.ensure("point_is_bernstein_form_for_every_t", pt_eq(q, bern(P, t)))
    E.ensure("endpoints", And(pt_eq(E.call(s, "point", 0), P[0]), pt_eq(E.call(s, "point", 1), P[-1])))
    E.ensure("result_is_fresh_Point", And(E.isinstance(q, "Point"), not E.same(q, s.start), not E.same(q, s.end)))


@family("C02/segment.__imul__/points", [(k, st) for k in SEG_KINDS for st in ("start", "nostart")],
        funcs=sorted(set(IMUL.values())) + ["Point.__imul__", "Matrix.point_in_matrix_space"], props=["C02"])
def _(E, case):
    kind, st = case
    s = mk_seg(E, kind, "s", start=(st == "start"))
    M = mk_matrix(E, "M")
    names = seg_points(s, kind)
    old = {n: (pt(E.get(s, n)) if E.get(s, n) is not None else None) for n in names}
    ids = {n: E.get(s, n) for n in names}
    m0 = tuple(mat_fields(M))
    rel, smooth = s.relative, s.smooth
    sweep0 = s.sweep if kind == "Arc" else None
    r = E.call(s, "__imul__", M)
    conds = []
    for n in names:
        if kind == "Arc" and n in ("prx", "pry"):
            continue  # the radius points are re-derived: see C02/Arc.__imul__/contract
        p = E.get(s, n)
        if old[n] is None:
            conds.append(p is None)
        else:
            conds.append(pt_eq(p, apply(m0, old[n])))
            conds.append(E.same(p, ids[n]))  # transformed in place: the same Point object
    E.ensure("every_defining_point_is_mapped", And(*conds))
    E.ensure("returns_self_flags_and_matrix_unchanged",
             And(E.same(r, s), s.relative == rel, s.smooth == smooth, mat_eq(M, m0)))
    if kind == "Arc":
        d = m0[0] * m0[3] - m0[1] * m0[2]
        E.ensure("sweep_flips_exactly_for_negative_determinant", s.sweep == Ite(d < 0, -sweep0, sweep0))


@family("C02/segment.__mul__/commutes", BEZ + ["Move"],
        funcs=["PathSegment.__mul__", "PathSegment.point"] + sorted(set(IMUL.values())) + sorted(set(COPY.values())),
        props=["C02", "C18"])
def _(E, kind):
    s = mk_seg(E, kind, "s")
    M = mk_matrix(E, "M")
    t = E.real("t", lambda r: r.uniform(0, 1))
    if kind == "Move":
        P = (pt(s.end),)
    else:
        P = ctrl(s, kind)
    before = E.reach(s)
    r = E.call(s, "__mul__", M)
    if kind == "Move":
        E.ensure("(X*M).end==M(X.end)", pt_eq(r.end, apply(M, P[0])))
    else:
        q = E.call(r, "point", t)
        E.ensure("(X*M).point(t)==M(X.point(t))", pt_eq(q, apply(M, bern(P, t))))
        E.ensure("control_points_mapped", And(*[pt_eq(a, apply(M, b)) for a, b in zip(ctrl(r, kind), P)]))
    E.ensure("same_kind_and_flags", And(E.clsname(r) == kind, r.relative == s.relative, r.smooth == s.smooth))
    after = E.reach(r)
    E.ensure("result_shares_no_object_with_operand", len(set(after) & set(before)) == 0)
    if kind != "Move":
        E.ensure("operand_unchanged", And(*[pt_eq(a, b) for a, b in zip(ctrl(s, kind), P)]))


@family("C02/segment.__mul__/composes", BEZ, funcs=["PathSegment.__mul__", "Matrix.__matmul__"], props=["C02"])
def _(E, kind):
    s = mk_seg(E, kind, "s")
    A, B = mk_matrix(E, "A"), mk_matrix(E, "B")
    r1 = E.call(E.call(s, "__mul__", A), "__mul__", B)
    r2 = E.call(s, "__mul__", E.call(A, "__matmul__", B))
    E.ensure("(X*A)*B==X*(A*B)", And(*[pt_eq(a, b) for a, b in zip(ctrl(r1, kind), ctrl(r2, kind))]))


@family("C02/lemma/bernstein_commutes_with_affine_maps", [1, 2, 3], kind="L", samples=0, props=["C02"])
def _(E, n):
    P = tuple((E.real("x%d" % i), E.real("y%d" % i)) for i in range(n + 1))
    M = tuple(E.reals("a b c d e f"))
    t = E.real("t")
    E.ensure("bern(M(P),t)==M(bern(P,t))", pt_eq(bern(tuple(apply(M, p) for p in P), t), apply(M, bern(P, t))))


# --------------------------------------------------------------------------------------------------
# reversal (C16 kernels)
# --------------------------------------------------------------------------------------------------
@family("C16/segment.reverse/mirror", BEZ + ["Move"], funcs=["PathSegment.reverse", "CubicBezier.reverse",
                                                             "PathSegment.point"], props=["C16"])
def _(E, kind):
    s = mk_seg(E, kind, "s")
    t = E.real("t", lambda r: r.uniform(0, 1))
    if kind == "Move":
        a, b = pt(s.start), pt(s.end)
        E.call(s, "reverse")
        E.ensure("endpoints_swapped", And(pt_eq(s.start, b), pt_eq(s.end, a)))
        return
    P = ctrl(s, kind)
    r = E.call(s, "reverse")
    q = E.call(s, "point", t)
    E.ensure("q(t)==p(1-t)", pt_eq(q, bern(P, 1 - t)))
    E.ensure("control_polygon_reversed", And(*[pt_eq(a, b) for a, b in zip(ctrl(s, kind), P[::-1])]))
    E.call(s, "reverse")
    E.ensure("involution", And(*[pt_eq(a, b) for a, b in zip(ctrl(s, kind), P)]))


@ob("C16/Arc.reverse/swap_and_negate", funcs=["Arc.reverse", "PathSegment.reverse"], props=["C16"])
def _(E):
    s = mk_seg(E, "Arc", "s")
    a, b, c, u, v, sw = pt(s.start), pt(s.end), pt(s.center), pt(s.prx), pt(s.pry), s.sweep
    E.call(s, "reverse")
    E.ensure("endpoints_swapped_sweep_negated_ellipse_kept",
             And(pt_eq(s.start, b), pt_eq(s.end, a), s.sweep == -sw, pt_eq(s.center, c), pt_eq(s.prx, u),
                 pt_eq(s.pry, v)))


# --------------------------------------------------------------------------------------------------
# copies (C18 kernels)
# --------------------------------------------------------------------------------------------------
@family("C18/segment.__copy__/fresh", [(k, st) for k in SEG_KINDS for st in ("start", "nostart")],
        funcs=sorted(set(COPY.values())) + ["Move.__init__", "Linear.__init__", "Curve.__init__",
                                            "QuadraticBezier.__init__", "CubicBezier.__init__", "Arc.__init__",
                                            "PathSegment.__init__", "Point.__init__"], props=["C18"])
def _(E, case):
    kind, st = case
    rel = E.choice("relative", [False, True])
    smooth = E.choice("smooth", [False, True])
    s = mk_seg(E, kind, "s", start=(st == "start"), relative=rel, smooth=smooth)
    names = seg_points(s, kind)
    old = {n: (pt(E.get(s, n)) if E.get(s, n) is not None else None) for n in names}
    before = E.reach(s)
    c = E.call(s, "__copy__")
    conds = [E.clsname(c) == kind, c.relative == rel]
    if kind in ("QuadraticBezier", "CubicBezier"):
        conds.append(c.smooth == smooth)
    for n in names:
        p = E.get(c, n)
        conds.append(p is None if old[n] is None else (p is not None and pt_eq(p, old[n])))
    if kind == "Arc":
        conds.append(c.sweep == s.sweep)
    E.ensure("equal_in_value", And(*conds))
    E.ensure("shares_no_mutable_object", len(set(E.reach(c)) & set(before)) == 0)
    E.ensure("source_unchanged", And(*[(E.get(s, n) is None) if old[n] is None else pt_eq(E.get(s, n), old[n])
                                       for n in names]))
