"""Shared constructors of symbolic inputs and the spec functions of DESIGN.md section 4."""
from pyvc.api import And, Or, Not, Implies, Ite, Abs, Min, Max


def mk_point(E, name, sample=None):
    x, y = E.real(name + "x", sample), E.real(name + "y", sample)
    return E.new("Point", x=x, y=y)


def mk_matrix(E, name="m", sample=None):
    a, b, c, d, e, f = [E.real(name + k, sample) for k in "abcdef"]
    return E.new("Matrix", a=a, b=b, c=c, d=d, e=e, f=f)


def mat_fields(M):
    return (M.a, M.b, M.c, M.d, M.e, M.f)


def det(M):
    return M.a * M.d - M.c * M.b


def apply(M, p):
    """apply(M, p) = (p.x*M.a + p.y*M.c + M.e, p.x*M.b + p.y*M.d + M.f); M any 6-tuple-like, p an (x, y) pair"""
    a, b, c, d, e, f = M if isinstance(M, tuple) else mat_fields(M)
    x, y = p
    return (x * a + y * c + e, x * b + y * d + f)


def compose(A, B):
    """6-tuple of the matrix 'A first, then B'"""
    a1, b1, c1, d1, e1, f1 = A if isinstance(A, tuple) else mat_fields(A)
    a2, b2, c2, d2, e2, f2 = B if isinstance(B, tuple) else mat_fields(B)
    return (a1 * a2 + b1 * c2, a1 * b2 + b1 * d2, c1 * a2 + d1 * c2, c1 * b2 + d1 * d2,
            e1 * a2 + f1 * c2 + e2, e1 * b2 + f1 * d2 + f2)


def mat_eq(M, T):
    m = M if isinstance(M, tuple) else mat_fields(M)
    t = T if isinstance(T, tuple) else mat_fields(T)
    return And(*[x == y for x, y in zip(m, t)])


def pt(p):
    return (p.x, p.y)


def pt_eq(p, q):
    p = p if isinstance(p, tuple) else pt(p)
    q = q if isinstance(q, tuple) else pt(q)
    return And(p[0] == q[0], p[1] == q[1])


def bern1(P, t):
    (x0, y0), (x1, y1) = P
    return ((1 - t) * x0 + t * x1, (1 - t) * y0 + t * y1)


def bern2(P, t):
    (x0, y0), (x1, y1), (x2, y2) = P
    u = 1 - t
    return (u * u * x0 + 2 * u * t * x1 + t * t * x2, u * u * y0 + 2 * u * t * y1 + t * t * y2)


def bern3(P, t):
    (x0, y0), (x1, y1), (x2, y2), (x3, y3) = P
    u = 1 - t
    return (u * u * u * x0 + 3 * u * u * t * x1 + 3 * u * t * t * x2 + t * t * t * x3,
            u * u * u * y0 + 3 * u * u * t * y1 + 3 * u * t * t * y2 + t * t * t * y3)


T_IDENT = (1, 0, 0, 1, 0, 0)


def t_translate(tx, ty):
    return (1, 0, 0, 1, tx, ty)


def t_scale(sx, sy):
    return (sx, 0, 0, sy, 0, 0)


def t_rotate(c, s):
    """rotation with cos = c, sin = s (SVG 1.1 7.6: [c s -s c 0 0])"""
    return (c, s, -s, c, 0, 0)


def t_skew(ta, tb):
    """skew with tan(angle_a) = ta (x), tan(angle_b) = tb (y): [1 tb ta 1 0 0]"""
    return (1, tb, ta, 1, 0, 0)


def about(T, x, y):
    """T about the centre (x, y):  translate(-x,-y) first, then T, then translate(x, y)"""
    return compose(compose(t_translate(-x, -y), T), t_translate(x, y))


SEG_KINDS = ("Move", "Line", "Close", "QuadraticBezier", "CubicBezier", "Arc")


def mk_seg(E, kind, name, start=True, relative=False, smooth=None):
    """a segment of the given kind with symbolic defining points (raw object)"""
    f = {"relative": relative, "smooth": True if smooth is None else smooth}
    f["start"] = mk_point(E, name + "s") if start else None
    f["end"] = mk_point(E, name + "e")
    if kind == "QuadraticBezier":
        f["control"] = mk_point(E, name + "c")
    elif kind == "CubicBezier":
        f["control1"] = mk_point(E, name + "c1")
        f["control2"] = mk_point(E, name + "c2")
    elif kind == "Arc":
        f["center"] = mk_point(E, name + "o")
        f["prx"] = mk_point(E, name + "u")
        f["pry"] = mk_point(E, name + "v")
        f["sweep"] = E.real(name + "sw")
    return E.new(kind, **f)


def seg_points(seg, kind):
    names = {"Move": ("start", "end"), "Line": ("start", "end"), "Close": ("start", "end"),
             "QuadraticBezier": ("start", "control", "end"), "CubicBezier": ("start", "control1", "control2", "end"),
             "Arc": ("start", "end", "center", "prx", "pry")}[kind]
    return names
