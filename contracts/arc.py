"""C05 / C02 / C19 kernels: elliptical arcs (stored point form: center, prx, pry, sweep)."""
from pyvc.registry import ob, family
from pyvc.api import And, Or, Not, Implies, Ite, Abs, Min, Max
from ._common import *  # noqa

POS = lambda r: r.uniform(0.2, 30)  # noqa
ANY = lambda r: r.uniform(-40, 40)  # noqa


def sub(p, q):
    return (p[0] - q[0], p[1] - q[1])


def dot(p, q):
    return p[0] * q[0] + p[1] * q[1]


def cross(p, q):
    return p[0] * q[1] - p[1] * q[0]


def ell(C, U, V, c, s):
    """C + U*c + V*s"""
    return (C[0] + U[0] * c + V[0] * s, C[1] + U[1] * c + V[1] * s)


def mk_arc_orth(E, name="a"):
    """an Arc in the representation the constructors establish: prx-center and pry-center orthogonal, non-zero"""
    cx, cy = E.reals(name + "cx " + name + "cy", ANY)
    ux, uy = E.reals(name + "ux " + name + "uy", ANY)
    k = E.real(name + "k", lambda r: r.uniform(0.1, 5) * r.choice((-1, 1)))
    # V = k * perp(U): every vector orthogonal to U (k < 0: mirrored orientation)
    vx, vy = -k * uy, k * ux
    E.assume(And(Or(ux != 0, uy != 0), k != 0))
    sw = E.real(name + "sw", lambda r: r.uniform(-7, 7))
    arc = E.new("Arc", start=None, end=None, relative=False, smooth=True,
                center=E.new("Point", x=cx, y=cy), prx=E.new("Point", x=cx + ux, y=cy + uy),
                pry=E.new("Point", x=cx + vx, y=cy + vy), sweep=sw)
    return arc, (cx, cy), (ux, uy), (vx, vy), k


@ob("C02/Arc.point_at_t/conjugate_form", funcs=["Arc.point_at_t", "Arc.get_rotation", "Arc.rx", "Arc.ry",
                                                "Point.angle", "Point.distance", "Angle.radians"],
    props=["C02", "C05", "C19"])
def _(E):
    arc, C, U, V, k = mk_arc_orth(E)
    t = E.real("t", lambda r: r.uniform(-7, 7))
    p = E.call(arc, "point_at_t", t)
    want = ell(C, U, (Ite(k > 0, V[0], -V[0]), Ite(k > 0, V[1], -V[1])), E.cos(t), E.sin(t))
    E.ensure("point_at_t(t)==C+U*cos(t)+sign(cross(U,V))*V*sin(t)", pt_eq(p, want))
    # hence every point lies on the ellipse with semi-axes U, V
    d = sub(pt(p), C)
    uu, vv = dot(U, U), dot(V, V)
    E.ensure("on_the_ellipse", dot(d, U) * dot(d, U) * vv * vv + dot(d, V) * dot(d, V) * uu * uu == uu * uu * vv * vv)
    E.ensure("radii", And(E.get(arc, "rx") * E.get(arc, "rx") == uu, E.get(arc, "ry") * E.get(arc, "ry") == vv,
                          E.get(arc, "rx") > 0, E.get(arc, "ry") > 0))


@ob("C02/lemma/similarity_keeps_arc_representation", kind="L", samples=0, props=["C02"])
def _(E):
    ux, uy, vx, vy = E.reals("ux uy vx vy")
    a, b, c, d = E.reals("a b c d")
    E.assume(ux * vx + uy * vy == 0)
    # similarity: columns orthogonal and of equal length (rotations, reflections, uniform scales)
    E.assume(And(a * c + b * d == 0, a * a + b * b == c * c + d * d))
    U2 = (ux * a + uy * c, ux * b + uy * d)
    V2 = (vx * a + vy * c, vx * b + vy * d)
    E.ensure("orthogonality_preserved", dot(U2, V2) == 0)
    E.ensure("orientation_multiplies_by_det", cross(U2, V2) == (a * d - b * c) * cross((ux, uy), (vx, vy)))
    E.ensure("lengths_scale_uniformly", And(dot(U2, U2) == (a * a + b * b) * (ux * ux + uy * uy),
                                            dot(V2, V2) == (a * a + b * b) * (vx * vx + vy * vy)))


@ob("C02/lemma/ellipse_commutes_with_affine_maps", kind="L", samples=0, props=["C02"])
def _(E):
    C, U, V = [tuple(E.reals(n + "x " + n + "y")) for n in "CUV"]
    M = tuple(E.reals("a b c d e f"))
    co, si = E.reals("co si")
    lin = (M[0], M[1], M[2], M[3], 0, 0)
    E.ensure("M(C+U*c+V*s)==M(C)+L(U)*c+L(V)*s",
             pt_eq(apply(M, ell(C, U, V, co, si)), ell(apply(M, C), apply(lin, U), apply(lin, V), co, si)))


def point_at_t_contract(E, args, kwargs):
    """contract of Arc.point_at_t, proved by C02/Arc.point_at_t/conjugate_form:
       requires (prx-center).(pry-center) == 0 and both non-zero;
       ensures  result == center + U*cos(t) + sign(cross(U,V))*V*sin(t), a fresh Point"""
    arc, t = args
    C, U, V = pt(arc.center), sub(pt(arc.prx), pt(arc.center)), sub(pt(arc.pry), pt(arc.center))
    E.ensure("precondition_of_point_at_t:orthogonal_nonzero_radius_points",
             And(dot(U, V) == 0, dot(U, U) > 0, dot(V, V) > 0))
    pos = cross(U, V) > 0
    Vs = (Ite(pos, V[0], -V[0]), Ite(pos, V[1], -V[1]))
    x, y = ell(C, U, Vs, E.cos(t), E.sin(t))
    return E.new("Point", x=x, y=y)


@family("C02/Arc.__imul__/commutes_under_similarity", ["direct", "mirror"],
        funcs=["Arc.__imul__", "Point.__imul__", "Matrix.point_in_matrix_space", "Matrix.determinant"],
        props=["C02"], uses=["C02/Arc.point_at_t/conjugate_form"])
def _(E, orient):
    arc, C, U, V, k = mk_arc_orth(E)
    E.assume(k > 0)
    # every similarity (rotation, uniform scale, reflection, and products) is [a b; -s*b s*a] with s = +-1
    a, b, e, f = E.reals("Ma Mb Me Mf", lambda r: r.uniform(-3, 3))
    E.assume(Or(a != 0, b != 0))
    sg = 1 if orient == "direct" else -1
    M = E.new("Matrix", a=a, b=b, c=-sg * b, d=sg * a, e=e, f=f)
    t = E.real("t", lambda r: r.uniform(-7, 7))
    sw0 = arc.sweep
    m0 = tuple(mat_fields(M))
    want = apply(m0, ell(C, U, V, E.cos(t), E.sin(t)))
    E.call(arc, "__imul__", M)
    # a reflection reverses the parameter: the image of parameter t is parameter -t, and the sweep is negated
    tt = t if orient == "direct" else -t
    E.trig_neg(t)
    E.use_contract("Arc.point_at_t", point_at_t_contract)
    p = E.call(arc, "point_at_t", tt)
    E.ensure("(arc*M).point_at_t(+-t)==M(arc.point_at_t(t))", pt_eq(p, want))
    E.ensure("sweep_sign_follows_orientation", arc.sweep == (sw0 if orient == "direct" else -sw0))


def shape(P, Q):
    """shape matrix P P^T + Q Q^T of the ellipse {C + P cos + Q sin} (three entries)"""
    return (P[0] * P[0] + Q[0] * Q[0], P[0] * P[1] + Q[0] * Q[1], P[1] * P[1] + Q[1] * Q[1])


REORTH = 1e-12  # Arc.__imul__ re-derives the axes only when |U'.V'| > 1e-12*(|U'|^2+|V'|^2)


@ob("C02/Point.__imul__/maps_in_place", funcs=["Point.__imul__", "Matrix.point_in_matrix_space"],
    props=["C02", "C06"])
def _(E):
    p = mk_point(E, "p")
    M = mk_matrix(E, "M")
    old, m0 = pt(p), tuple(mat_fields(M))
    r = E.call(p, "__imul__", M)
    E.ensure("coordinates_become_M(p)", pt_eq(p, apply(m0, old)))
    E.ensure("returns_self_matrix_unchanged", And(E.same(r, p), mat_eq(M, m0)))


def havoc_point_imul(record):
    """frame contract of Point.__imul__(Matrix) (proved functionally by C02/Point.__imul__/maps_in_place):
    modifies exactly self.x, self.y; returns self.  Used where the VALUE of the image is irrelevant."""

    def summary(E, args, kwargs):
        p, m = args
        E.ensure("precondition_of_Point.__imul__:matrix_argument", E.isinstance(m, "Matrix"))
        k = len(record)
        x, y = E.real("h%dx" % k), E.real("h%dy" % k)
        p.x = x
        p.y = y
        record.append((p, x, y))
        return p

    return summary


@ob("C02/Arc.__imul__/contract", funcs=["Arc.__imul__", "Matrix.determinant", "Point.__init__"],
    props=["C02", "C06", "C19"], uses=["C02/Point.__imul__/maps_in_place"])
def _(E):
    """for ANY matrix and any arc: start/end/center are the images returned by Point.__imul__; the stored radius
    points describe exactly the ellipse of the mapped pair (a rotation of the parameter: P = U'c0 + V's0,
    Q = -U's0 + V'c0), with its orientation, and are orthogonal again"""
    arc = mk_seg(E, "Arc", "s")
    M = mk_matrix(E, "M", lambda r: r.uniform(-3, 3))
    m0 = tuple(mat_fields(M))
    old = {n: pt(E.get(arc, n)) for n in ("start", "center", "end", "prx", "pry")}
    sw0 = arc.sweep
    rec = []
    E.use_contract("Point.__imul__", havoc_point_imul(rec))
    E.call(arc, "__imul__", M)
    E.drop_contract("Point.__imul__")
    E.trig_double_all()
    if E.mode == "symbolic":
        img = {"start": rec[0][1:], "center": rec[1][1:], "end": rec[2][1:], "prx": rec[3][1:], "pry": rec[4][1:]}
        E.ensure("each_point_multiplied_once_in_the_documented_order",
                 And(len(rec) == 5, E.same(rec[0][0], arc.start), E.same(rec[1][0], arc.center),
                     E.same(rec[2][0], arc.end)))
    else:
        img = {n: apply(m0, old[n]) for n in old}
    C2 = img["center"]
    U2, V2 = sub(img["prx"], C2), sub(img["pry"], C2)
    P, Q = sub(pt(arc.prx), pt(arc.center)), sub(pt(arc.pry), pt(arc.center))
    E.ensure("start_end_center_are_the_images", And(pt_eq(arc.start, img["start"]), pt_eq(arc.end, img["end"]),
                                                    pt_eq(arc.center, C2)))
    E.ensure("same_ellipse_as_the_mapped_pair", And(*[x == y for x, y in zip(shape(P, Q), shape(U2, V2))]))
    E.ensure("orientation_is_that_of_the_mapped_pair", cross(P, Q) == cross(U2, V2))
    d = dot(U2, V2)
    big = Abs(d) > E.const(REORTH) * (dot(U2, U2) + dot(V2, V2))
    E.ensure("radius_points_orthogonal_again", Implies(Or(big, d == 0), dot(P, Q) == 0))
    dt = m0[0] * m0[3] - m0[1] * m0[2]
    E.ensure("sweep_flips_exactly_for_negative_determinant", arc.sweep == Ite(dt < 0, -sw0, sw0))
    # the new pair is the mapped pair rotated in parameter space
    w = cross(U2, V2)
    if E.mode == "symbolic":
        c0, s0 = E.reals("c0 s0")
        E.assume(And(w != 0, c0 * w == cross(P, V2), s0 * w == cross(U2, P)))
    else:
        E.assume(Abs(w) > 1e-3 * (dot(U2, U2) + dot(V2, V2)))
        E.tol(1e-6, 1e-6)
        c0, s0 = cross(P, V2) / w, cross(U2, P) / w
    E.ensure("parameter_rotation", And(c0 * c0 + s0 * s0 == 1,
                                       pt_eq(P, (U2[0] * c0 + V2[0] * s0, U2[1] * c0 + V2[1] * s0)),
                                       pt_eq(Q, (-U2[0] * s0 + V2[0] * c0, -U2[1] * s0 + V2[1] * c0))))


@family("C02/lemma/arc_times_matrix_is_the_image_arc", ["direct", "mirror"], kind="L", samples=0, props=["C02"])
def _(E, orient):
    """composition over the contracts of Arc.__imul__ and Arc.point_at_t: for every invertible M there is a fixed
    parameter shift (c0, s0) with  (arc*M).point_at_t(+-(t - t0)) == M(arc.point_at_t(t))  for all t,
    so the image is traversed with the same (resp. negated, for reflections) sweep."""
    C, U, V, P, Q = [tuple(E.reals(n + "x " + n + "y")) for n in "CUVPQ"]
    M = tuple(E.reals("a b c d e f"))
    lin = (M[0], M[1], M[2], M[3], 0, 0)
    dt = M[0] * M[3] - M[1] * M[2]
    E.assume(And(dot(U, V) == 0, cross(U, V) > 0))            # representation invariant of the source arc
    E.assume(dt > 0 if orient == "direct" else dt < 0)
    U2, V2, C2 = apply(lin, U), apply(lin, V), apply(M, C)
    # postcondition of Arc.__imul__ (C02/Arc.__imul__/contract)
    E.assume(And(*[x == y for x, y in zip(shape(P, Q), shape(U2, V2))]))
    E.assume(And(cross(P, Q) == cross(U2, V2), dot(P, Q) == 0))
    # parameter shift given by the lemma above
    c0, s0 = E.reals("c0 s0")
    w = cross(U2, V2)
    E.assume(And(c0 * w == cross(P, V2), s0 * w == cross(U2, P), c0 * c0 + s0 * s0 == 1))
    E.assume(And(pt_eq(P, (U2[0] * c0 + V2[0] * s0, U2[1] * c0 + V2[1] * s0)),
                 pt_eq(Q, (-U2[0] * s0 + V2[0] * c0, -U2[1] * s0 + V2[1] * c0))))
    co, si = E.reals("co si")                                  # cos t, sin t of an arbitrary parameter
    E.assume(co * co + si * si == 1)
    source_point = ell(C, U, V, co, si)                        # arc.point_at_t(t) by its contract (cross > 0)
    # cos/sin of the shifted parameter t - t0
    c2, s2 = co * c0 + si * s0, si * c0 - co * s0
    sg = 1 if orient == "direct" else -1                       # contract of point_at_t on the image: sign(cross(P,Q))
    image_point = ell(C2, P, (sg * Q[0], sg * Q[1]), c2, sg * s2)
    E.ensure("shifted_parameter_is_on_the_unit_circle", c2 * c2 + s2 * s2 == 1)
    E.ensure("(arc*M).point_at_t(+-(t-t0))==M(arc.point_at_t(t))", pt_eq(image_point, apply(M, source_point)))




# --------------------------------------------------------------------------------------------------
# C05: endpoint parameterisation (SVG implementation notes F.6.5 / F.6.6)
# --------------------------------------------------------------------------------------------------
FLAGS = [(0, 0), (0, 1), (1, 0), (1, 1)]
PARAM_FUNCS = ["Arc._svg_parameterize", "Arc.__init__", "Matrix.post_rotate", "Matrix.post_translate",
               "Matrix.post_cat", "Point.matrix_transform", "Point.__imul__", "Angle.degrees", "Angle.as_radians",
               "Point.__eq__", "Curve.__init__", "PathSegment.__init__"]


def f65_inputs(E):
    x1, y1, x2, y2 = E.reals("x1 y1 x2 y2", ANY)
    rx, ry = E.reals("rx ry", POS)
    rot = E.real("rot", lambda r: r.choice([0.0, 30.0, 90.0, 180.0, -400.0, 725.0, 45.5]))
    E.assume(And(rx > 0, ry > 0))
    # start != end beyond the 1e-12 tolerance of Point.__eq__ (the degenerate branch has its own obligation)
    E.assume(Or(Abs(x1 - x2) > E.const(1e-12), Abs(y1 - y2) > E.const(1e-12)))
    return x1, y1, x2, y2, rx, ry, rot


def primed(E, x1, y1, x2, y2, rot):
    phi = rot * E.pi / 180
    c, s = E.cos(phi), E.sin(phi)
    dx, dy = (x1 - x2) / 2, (y1 - y2) / 2
    return c, s, c * dx + s * dy, -s * dx + c * dy


# --------------------------------------------------------------------------------------------------
# C05 degenerate inputs: coincident endpoints draw nothing, a zero radius draws the straight line
# --------------------------------------------------------------------------------------------------
@family("C05/Arc.degenerate", ["zero_rx", "zero_ry", "coincident"],
        funcs=["Arc.__init__", "Arc._svg_parameterize", "Arc.npoint", "Arc.length", "Arc.bbox", "PathSegment.point",
               "Point.towards", "Point.distance", "Point.__eq__"], props=["C05", "C08", "C15"])
def _(E, case):
    x1, y1, x2, y2 = E.reals("x1 y1 x2 y2", ANY)
    rx, ry = E.reals("rx ry", POS)
    rot = E.real("rot", lambda r: r.uniform(-400, 400))
    fa, fs = E.choice("large", [0, 1]), E.choice("sweep", [0, 1])
    if case == "zero_rx":
        rx = 0
    elif case == "zero_ry":
        ry = 0
    else:
        x2, y2 = x1, y1
    arc = E.construct("Arc", (x1, y1), rx, ry, rot, fa, fs, (x2, y2))
    t = E.real("t", lambda r: r.uniform(0, 1))
    E.assume(And(t >= 0, t <= 1))
    p = E.call(arc, "point", t)
    E.ensure("points_of_the_straight_line_(or_the_single_point)", pt_eq(p, bern1(((x1, y1), (x2, y2)), t)))
    L = E.call(arc, "length")
    E.ensure("length_of_the_chord", And(L >= 0, L * L == (x2 - x1) * (x2 - x1) + (y2 - y1) * (y2 - y1)))
    b = tuple(E.call(arc, "bbox"))
    E.ensure("ordered_box_of_the_endpoints", And(b[0] == Min(x1, x2), b[1] == Min(y1, y2), b[2] == Max(x1, x2),
                                                 b[3] == Max(y1, y2)))
    E.ensure("endpoints_kept", And(pt_eq(arc.start, (x1, y1)), pt_eq(arc.end, (x2, y2)), arc.sweep == 0))


def arc_imul_contract(E, args, kwargs):
    """contract of Arc.__imul__(Matrix) as far as callers need it (proved by C02/Arc.__imul__/contract):
    start, end and center become their images (same objects), the radius points describe the image ellipse
    (left unspecified here), the sweep changes sign for a negative determinant; returns self"""
    arc, M = args
    E.ensure("precondition_of_Arc.__imul__:matrix_argument", E.isinstance(M, "Matrix"))
    m = tuple(mat_fields(M))
    for n in ("start", "end", "center"):
        p = E.get(arc, n)
        if p is not None:
            x, y = apply(m, pt(p))
            p.x = x
            p.y = y
    for n in ("prx", "pry"):
        E.set(arc, n, E.new("Point", x=E.real("img_%s_x" % n), y=E.real("img_%s_y" % n)))
    dt = m[0] * m[3] - m[1] * m[2]
    arc.sweep = Ite(dt < 0, -arc.sweep, arc.sweep)
    return arc
