"""C13: colour spellings and accessors."""
import json
import os

from pyvc.registry import ob, family
from pyvc.api import And, Or, Not, Implies, Ite, Abs, Min, Max
from ._common import *  # noqa

HERE = os.path.dirname(os.path.abspath(__file__))
TABLE = json.load(open(os.path.join(HERE, "..", "spec", "svg_colors.json")))["colors"]
KEYWORDS = sorted(TABLE) + ["transparent"]


def pack(r, g, b, a=255):
    return ((r * 256 + g) * 256 + b) * 256 + a


def clamp255(v):
    return Ite(v > 255, 255, Ite(v < 0, 0, v))


# --------------------------------------------------------------------------------------------------
# keyword table (exhaustive over the 147 keywords + transparent, four spellings each)
# --------------------------------------------------------------------------------------------------
@family("C13/Color.keyword", KEYWORDS, funcs=["Color.parse", "Color.parse_color_lookup", "Color.rgb_to_int",
                                              "Color.crimp", "Color.__init__"])
def _(E, name):
    want = pack(0, 0, 0, 0) if name == "transparent" else pack(*TABLE[name])
    spell = E.choice("spelling", ["lower", "UPPER", "Capitalised", "mIxEd"])
    s = {"lower": name, "UPPER": name.upper(), "Capitalised": name.capitalize(),
         "mIxEd": "".join(c.upper() if i % 2 else c for i, c in enumerate(name))}[spell]
    E.ensure("keyword_denotes_its_specification_value", E.callf("Color.parse", s) == want)
    c = E.construct("Color", s)
    E.ensure("constructor_agrees", And(c.value == want, E.get(c, "red") == want // 16777216,
                                       E.get(c, "alpha") == want % 256))


@ob("C13/Color.parse/none_and_unknown", funcs=["Color.parse", "Color.parse_color_lookup"])
def _(E):
    E.ensure("none_keyword", E.is_none(E.callf("Color.parse", "none")))
    E.ensure("None", E.is_none(E.callf("Color.parse", None)))
    E.ensure("unknown_keyword_is_opaque_black", E.callf("Color.parse", "notacolour") == pack(0, 0, 0, 255))


# --------------------------------------------------------------------------------------------------
# word layout
# --------------------------------------------------------------------------------------------------
@ob("C13/Color.rgb_to_int/packing", funcs=["Color.rgb_to_int", "Color.crimp"])
def _(E):
    r, g, b = E.int("r", -600, 600), E.int("g", -600, 600), E.int("b", -600, 600)
    o = E.real("o", lambda q: q.uniform(-0.5, 1.5))
    v = E.callf("Color.rgb_to_int", r, g, b, o)
    oc = Ite(o > 1, 1, Ite(o < 0, 0, o))
    A = v % 256
    E.ensure("channels_clamped_to_0_255_and_packed_RGBA",
             And(v // 16777216 == clamp255(r), (v // 65536) % 256 == clamp255(g), (v // 256) % 256 == clamp255(b)))
    E.ensure("alpha_is_round(255*clamped_opacity)", And(A >= 0, A <= 255, Abs(A - 255 * oc) * 2 <= 1))
    E.ensure("fits_32_bits", And(v >= 0, v < 4294967296))
    E.ensure("default_opacity_is_opaque", E.callf("Color.rgb_to_int", r, g, b) % 256 == 255)


@ob("C13/Color.rgb_to_int/real_channels_truncate", funcs=["Color.rgb_to_int", "Color.crimp"])
def _(E):
    r = E.real("r", lambda q: q.uniform(-50, 300))
    v = E.callf("Color.rgb_to_int", r, 0, 0)
    R = v // 16777216
    E.ensure("clamped_then_truncated", And(R >= 0, R <= 255, Implies(And(r >= 0, r <= 255), And(R <= r, r < R + 1)),
                                           Implies(r > 255, R == 255), Implies(r < 0, R == 0)))


def mk_color(E, name="v"):
    v = E.int(name, 0, 4294967295)
    return E.new("Color", value=v), v


def fields(v):
    return v // 16777216, (v // 65536) % 256, (v // 256) % 256, v % 256


@ob("C13/Color.getters/fields", funcs=["Color.red", "Color.green", "Color.blue", "Color.alpha", "Color.opacity",
                                        "Color.rgb", "Color.rgba", "Color.argb", "Color.bgr", "Color.__int__"])
def _(E):
    c, v = mk_color(E)
    R, G, B, A = fields(v)
    E.ensure("components", And(E.get(c, "red") == R, E.get(c, "green") == G, E.get(c, "blue") == B,
                               E.get(c, "alpha") == A))
    E.ensure("opacity_is_alpha_over_255", E.get(c, "opacity") * 255 == A)
    E.ensure("packings", And(E.get(c, "rgb") == (R * 256 + G) * 256 + B, E.get(c, "rgba") == v,
                             E.get(c, "argb") == ((A * 256 + R) * 256 + G) * 256 + B,
                             E.get(c, "bgr") == (B * 256 + G) * 256 + R))
    E.ensure("int", E.call(c, "__int__") == v)


@family("C13/Color.setter/isolation", ["red", "green", "blue", "alpha"],
        funcs=["Color.red", "Color.green", "Color.blue", "Color.alpha", "Color.crimp"])
def _(E, comp):
    c, v = mk_color(E)
    x = E.int("x", -300, 600)
    E.set(c, comp, x)
    R, G, B, A = fields(v)
    R2, G2, B2, A2 = fields(c.value)
    new = {"red": R2, "green": G2, "blue": B2, "alpha": A2}
    old = {"red": R, "green": G, "blue": B, "alpha": A}
    E.ensure("component_set_to_clamped_value", new[comp] == clamp255(x))
    E.ensure("other_components_unchanged", And(*[new[k] == old[k] for k in new if k != comp]))
    E.ensure("still_32_bits", And(c.value >= 0, c.value < 4294967296))


@ob("C13/Color.opacity.setter/isolation", funcs=["Color.opacity", "Color.alpha", "Color.crimp"])
def _(E):
    c, v = mk_color(E)
    o = E.real("o", lambda q: q.uniform(-0.5, 1.5))
    E.set(c, "opacity", o)
    R, G, B, A = fields(v)
    R2, G2, B2, A2 = fields(c.value)
    oc = Ite(o > 1, 1, Ite(o < 0, 0, o))
    E.ensure("alpha_is_round(255*clamped_opacity)", Abs(A2 - 255 * oc) * 2 <= 1)
    E.ensure("colour_channels_unchanged", And(R2 == R, G2 == G, B2 == B))


@family("C13/Color.packed_setter/roundtrip", ["rgb", "rgba", "argb", "bgr"],
        funcs=["Color.rgb", "Color.rgba", "Color.argb", "Color.bgr"])
def _(E, comp):
    c, v = mk_color(E)
    hi = 16777215 if comp in ("rgb", "bgr") else 4294967295
    x = E.int("x", 0, hi)
    E.set(c, comp, x)
    E.ensure("get_after_set_is_identity", E.get(c, comp) == x)
    R2, G2, B2, A2 = fields(c.value)
    if comp in ("rgb", "bgr"):
        E.ensure("opaque", A2 == 255)
    want = {"rgb": (x // 65536, (x // 256) % 256, x % 256), "bgr": (x % 256, (x // 256) % 256, x // 65536),
            "rgba": (x // 16777216, (x // 65536) % 256, (x // 256) % 256),
            "argb": ((x // 65536) % 256, (x // 256) % 256, x % 256)}[comp]
    E.ensure("agrees_with_components", And(R2 == want[0], G2 == want[1], B2 == want[2]))
    E.ensure("still_32_bits", And(c.value >= 0, c.value < 4294967296))


@ob("C13/Color.__eq__/word_equality", funcs=["Color.__eq__", "Color.__ne__"])
def _(E):
    c, v = mk_color(E, "v")
    d, w = mk_color(E, "w")
    r = E.truth(E.call(c, "__eq__", d))
    E.ensure("equal_iff_same_word", (v == w) if r else (v != w))
    E.ensure("ne_is_negation", E.truth(E.call(c, "__ne__", d)) == (not r))
    n = E.new("Color", value=None)
    E.ensure("none_colour", And(E.truth(E.call(n, "__eq__", E.new("Color", value=None))),
                                not E.truth(E.call(n, "__eq__", c)), not E.truth(E.call(c, "__eq__", n))))
    E.ensure("compares_with_int_and_None", And(E.truth(E.call(c, "__eq__", v)), not E.truth(E.call(c, "__eq__", None))))


@ob("C13/Color.__init__/forms", funcs=["Color.__init__", "Color.rgb", "Color.rgb_to_int", "Color.opacity"],
    props=["C13", "C18"])
def _(E):
    c, v = mk_color(E)
    d = E.construct("Color", c)
    E.ensure("copy_constructor_value_and_fresh", And(d.value == v, not E.same(d, c)))
    x = E.int("x", 0, 16777215)
    e = E.construct("Color", x)
    E.ensure("int_is_opaque_rgb", e.value == x * 256 + 255)
    r, g, b = E.int("r", 0, 255), E.int("g", 0, 255), E.int("b", 0, 255)
    E.ensure("three_ints", E.construct("Color", r, g, b).value == pack(r, g, b))
    a = E.int("a", 0, 255)
    E.ensure("four_ints_alpha_0_255", E.construct("Color", r, g, b, a).value == pack(r, g, b, a))


# --------------------------------------------------------------------------------------------------
# hex forms: structure on representative digits (A5: indexing / concatenation / int(.,16) are uniform in the
# characters); the 3- and 4-digit forms are additionally enumerated exhaustively on the real code (bounded)
# --------------------------------------------------------------------------------------------------
HEX_REPS = [("#1a9", 0x11, 0xAA, 0x99, 255), ("1A9", 0x11, 0xAA, 0x99, 255), ("#F07c", 0xFF, 0x00, 0x77, 0xCC),
            ("f07C", 0xFF, 0x00, 0x77, 0xCC), ("#12aBc9", 0x12, 0xAB, 0xC9, 255), ("12AbC9", 0x12, 0xAB, 0xC9, 255),
            ("#12ab34cd", 0x12, 0xAB, 0x34, 0xCD), ("12AB34CD", 0x12, 0xAB, 0x34, 0xCD), ("#000", 0, 0, 0, 255),
            ("#fff0", 255, 255, 255, 0)]


@family("C13/Color.hex/form", [h[0] for h in HEX_REPS], funcs=["Color.parse", "Color.parse_color_hex"])
def _(E, text):
    _, r, g, b, a = [h for h in HEX_REPS if h[0] == text][0]
    E.ensure("digits_land_in_their_channels", E.callf("Color.parse", text) == pack(r, g, b, a))


@ob("C13/Color.hex/property", funcs=["Color.hex", "Color.hexa", "Color.hexrgb"])
def _(E):
    c, v = mk_color(E)
    R, G, B, A = fields(v)
    t, nums = E.fmt_parts(E.get(c, "hex"))
    if E.mode == "symbolic":
        opaque = len(nums) == 3
        E.ensure("alpha_dropped_iff_ff", (A == 255) if opaque else (A != 255))
        E.ensure("channels_in_order", And(t == "#" + "\x00" * len(nums), nums[0] == R, nums[1] == G, nums[2] == B,
                                          True if opaque else nums[3] == A))
    else:
        s = E.get(c, "hex")
        E.ensure("text", s == ("#%02x%02x%02x" % (R, G, B) if A == 255 else "#%02x%02x%02x%02x" % (R, G, B, A)))


# --------------------------------------------------------------------------------------------------
# functional forms
# --------------------------------------------------------------------------------------------------
@family("C13/Color.rgb_function", ["rgb3", "rgba4", "rgb4", "rgba3"],
        funcs=["Color.parse", "Color.parse_color_rgb", "Color.rgb_to_int", "Color.crimp"])
def _(E, form):
    r, g, b = E.int("r", -100, 400), E.int("g", -100, 400), E.int("b", -100, 400)
    E.assume(And(r >= 0, g >= 0, b >= 0))  # the sign is part of the numeral spelling (A5); see bounded check
    a = E.real("a", lambda q: q.uniform(0, 1.5))
    E.assume(a >= 0)
    if form in ("rgb3", "rgba3"):
        txt = E.text(("rgb" if form == "rgb3" else "rgba") + "(%s, %s ,%s)", r, g, b)
        A = 255
    else:
        txt = E.text(("rgb" if form == "rgb4" else "rgba") + "( %s,%s,%s , %s )", r, g, b, a)
        A = None
    v = E.callf("Color.parse", txt)
    E.ensure("integers_clamped", And(v // 16777216 == clamp255(r), (v // 65536) % 256 == clamp255(g),
                                     (v // 256) % 256 == clamp255(b)))
    if A is not None:
        E.ensure("opaque_without_alpha", v % 256 == 255)
    else:
        ac = Ite(a > 1, 1, a)
        E.ensure("alpha_clamped_and_rounded", Abs(v % 256 - 255 * ac) * 2 <= 1)


@family("C13/Color.rgb_percent_function", ["rgb3", "rgba4"],
        funcs=["Color.parse", "Color.parse_color_rgbp", "Color.rgb_to_int", "Color.crimp"], timeout_ms=90000)
def _(E, form):
    r, g, b = E.reals("r g b", lambda q: q.uniform(0, 140))
    E.assume(And(r >= 0, g >= 0, b >= 0))
    a = E.real("a", lambda q: q.uniform(0, 1.5))
    E.assume(a >= 0)
    if form == "rgb3":
        txt = E.text("rgb(%s%%, %s%%, %s%%)".replace("%%", "%"), r, g, b)
    else:
        txt = E.text("rgba(%s%%,%s%%,%s%%,%s)".replace("%%", "%"), r, g, b, a)
    v = E.callf("Color.parse", txt)
    for nm, p, got in (("red", r, v // 16777216), ("green", g, (v // 65536) % 256), ("blue", b, (v // 256) % 256)):
        pc = Ite(p > 100, 100, p)
        E.ensure("%s_is_percentage_of_255_clamped_rounded" % nm, And(got >= 0, got <= 255,
                                                                     Abs(got - pc * 255 / 100) * 2 <= 1))
    if form == "rgb3":
        E.ensure("opaque_without_alpha", v % 256 == 255)
    else:
        E.ensure("alpha_clamped_and_rounded", Abs(v % 256 - 255 * Ite(a > 1, 1, a)) * 2 <= 1)


def css_hsl_channel(E, n, h_turns, s, l):
    """CSS Color 4 section 7.1 (equivalent to CSS Color 3 4.2.4): f(n) = l - a*max(-1, min(k-3, 9-k, 1)),
    k = (n + 12*h) mod 12, a = s*min(l, 1-l); h in turns (any real), s and l already clamped to [0,1]"""
    k = n + 12 * h_turns
    k = k - 12 * E.floor(k / 12)
    a = s * Min(l, 1 - l)
    return l - a * Max(-1, Min(Min(k - 3, 9 - k), 1))


CHAN = {"red": (0, 0), "green": (1, 8), "blue": (2, 4)}


TURNS = [-3, -2, -1, 0, 1, 2, 3]


@family("C13/Color.hsl_to_int/css", [(c, br, j) for c in ("red", "green", "blue") for br in ("grey", "dark", "light")
                                     for j in TURNS],
        funcs=["Color.hsl_to_int"], timeout_ms=30000, uses=["C13/Color.rgb_to_int/real_channels_truncate"])
def _(E, case):
    """for every real hue h = J + f turns (whole turns J in -3..3 enumerated, fraction f symbolic), s and l in [0,1]:
    each channel is within one step of 255 * the CSS colour of the hue taken modulo a full turn.
    The two other channels' helper calls are havocked (frame contract of the pure helper)."""
    chan, branch, J = case
    idx, n = CHAN[chan]
    f = E.real("f", lambda q: q.uniform(0, 0.999))
    third = E.choice("third_of_the_turn", [0, 1, 2])
    E.assume(And(f >= E.const(third) / 3, f < E.const(third + 1) / 3))
    h = J + f
    s, l = E.reals("s l", lambda q: q.choice([0.0, 1.0, 0.5]) if q.random() < 0.2 else q.uniform(0, 1))
    E.assume(And(s >= 0, s <= 1, l >= 0, l <= 1))
    E.assume({"grey": s == 0, "dark": And(s != 0, l < E.const(0.5)), "light": And(s != 0, l >= E.const(0.5))}[branch])
    captured = []

    def capture_rgb(E2, args, kwargs):
        captured.append((args, kwargs))
        return E2.int("word", 0, 4294967295)

    E.use_contract("Color.rgb_to_int", capture_rgb)
    calls = []

    def other_channels(E2, args, kwargs):
        k = len(calls)
        calls.append(k)
        if k == idx or branch == "grey":
            return E2.RUN_REAL
        return E2.real("havoc%d" % k)   # frame contract of the pure helper: returns some real number

    E.use_contract("hue_2_rgb", other_channels)
    want = 255 * css_hsl_channel(E, n, h, s, l)
    if E.mode == "symbolic":
        E.callf("Color.hsl_to_int", h, s, l)
        E.ensure("packs_through_rgb_to_int_once_opaque", And(len(captured) == 1, captured[0][1].get("opacity") == 1))
        got = captured[0][0][idx]
        E.ensure("channel_value_handed_to_rgb_to_int_is_255_times_the_css_channel", got == want)
    else:
        v = E.callf("Color.hsl_to_int", h, s, l)
        got = [v // 16777216, (v // 65536) % 256, (v // 256) % 256][idx]
        E.ensure("channel_within_one_step_of_css_hsl_with_hue_modulo_a_turn", Abs(got - want) <= 1.0000001)
        E.ensure("opaque_by_default", v % 256 == 255)


def hsl_to_int_contract(record):
    def summary(E, args, kwargs):
        h, s, l = args[:3]
        o = args[3] if len(args) > 3 else kwargs.get("opacity", 1)
        E.ensure("precondition_of_hsl_to_int:saturation_and_lightness_in_unit_interval",
                 And(s >= 0, s <= 1, l >= 0, l <= 1))
        record.append((h, s, l, o))
        return E.int("hsl_word", 0, 4294967295)

    return summary


@family("C13/Color.hsl_function", ["hsl3", "hsla4"],
        funcs=["Color.parse", "Color.parse_color_hsl", "Angle.parse", "Angle.as_turns", "Angle.degrees"],
        uses=["C13/Color.hsl_to_int/css/red,grey,0"])
def _(E, form):
    h = E.real("h", lambda q: q.uniform(0, 1500))
    s, l = E.reals("s l", lambda q: q.uniform(0, 130))
    E.assume(And(h >= 0, s >= 0, l >= 0))  # signs belong to the numeral spelling (bounded check)
    a = E.real("a", lambda q: q.uniform(0, 1.5))
    E.assume(a >= 0)
    unit = ""  # the hsl() regex admits a bare number only (degrees)
    if form == "hsl3":
        txt = E.text(("hsl(%s" + unit + ", %s%%, %s%%)").replace("%%", "%"), h, s, l)
    else:
        txt = E.text(("hsla(%s" + unit + ",%s%%,%s%%,%s)").replace("%%", "%"), h, s, l, a)
    turns = {"": h / 360, "deg": h / 360, "turn": h, "grad": h / 400, "rad": h / E.tau}[unit]
    sc, lc = Ite(s > 100, 1, s / 100), Ite(l > 100, 1, l / 100)
    if E.mode == "symbolic":
        rec = []
        E.use_contract("Color.hsl_to_int", hsl_to_int_contract(rec))
        v = E.callf("Color.parse", txt)
        E.drop_contract("Color.hsl_to_int")
        E.ensure("delegates_once_to_hsl_to_int", len(rec) == 1)
        hh, ss, ll, oo = rec[0]
        E.ensure("hue_in_turns_saturation_lightness_clamped", And(E.num(hh) * E.tau == turns * E.tau, ss == sc, ll == lc))
        E.ensure("alpha_argument", (oo == 1) if form == "hsl3" else (oo == a))
    else:
        v = E.callf("Color.parse", txt)
        for chan, (idx, n) in CHAN.items():
            got = [v // 16777216, (v // 65536) % 256, (v // 256) % 256][idx]
            E.ensure("channel_%s" % chan, Abs(got - 255 * css_hsl_channel(E, n, turns, sc, lc)) <= 1.0000001)


# --------------------------------------------------------------------------------------------------
# HSL setters: delegate to hsl_to_int with the other two components and the alpha unchanged
# --------------------------------------------------------------------------------------------------
def capture_hsl(rec):
    def summary(E, args, kwargs):
        rec.append((args, kwargs))
        return E.int("new_word", 0, 4294967295)

    return summary


@family("C13/Color.hsl_setters/delegate", ["hue", "saturation", "lightness", "hsl"],
        funcs=["Color.hue", "Color.saturation", "Color.lightness", "Color.hsl", "Color.opacity", "Color.alpha",
               "Color.red", "Color.green", "Color.blue"],
        uses=["C13/Color.hsl_to_int/css/red,grey,0"], max_paths=20000)
def _(E, comp):
    c, v = mk_color(E)
    x = E.real("x", lambda q: q.uniform(0, 1))
    if E.mode != "symbolic":
        # concrete run: the observable consequences -- alpha kept, the written component reads back (8-bit steps)
        a0 = E.get(c, "alpha")
        if comp == "hsl":
            E.set(c, "hsl", (x * 360, 0.5, 0.5))
        else:
            E.set(c, comp, x * 360 if comp == "hue" else x)
        E.ensure("alpha_unchanged", E.get(c, "alpha") == a0)
        return
    h0, s0, l0 = E.num(E.get(c, "hue")), E.get(c, "saturation"), E.get(c, "lightness")
    A = v % 256
    rec = []
    E.use_contract("Color.hsl_to_int", capture_hsl(rec))
    if comp == "hsl":
        y, z = E.reals("y z")
        E.set(c, "hsl", (x, y, z))
        want = (x / 360, y, z)
    else:
        E.set(c, comp, x)
        want = {"hue": (x / 360, s0, l0), "saturation": (h0 / 360, x, l0), "lightness": (h0 / 360, s0, x)}[comp]
    E.ensure("delegates_once", len(rec) == 1)
    args, kwargs = rec[0]
    E.ensure("hue_in_turns_and_the_other_components_as_read_before",
             And(E.num(args[0]) * 360 == want[0] * 360, args[1] == want[1], args[2] == want[2]))
    E.ensure("alpha_is_kept", args[3] * 255 == A)
    E.ensure("value_is_the_word_returned", c.value == E.e.symbols["new_word"])


ORDERS = ["r>=g>=b", "r>=b>=g", "g>=r>=b", "g>=b>=r", "b>=r>=g", "b>=g>=r"]


@family("C13/Color.hsl_getters/standard_conversion", ORDERS,
        funcs=["Color.hue", "Color.saturation", "Color.lightness", "Color.red", "Color.green", "Color.blue",
               "Angle.turns", "Angle.as_degrees"], props=["C13"], timeout_ms=60000, uses=["C13/Color.getters/fields"],
        note="all 2^24 RGB values, split by the order of the channels")
def _(E, order):
    """hue, saturation and lightness read from a colour are the standard RGB -> HSL conversion of its channels
    (CSS Color 3 / colorsys): every 8-bit channel value, so also colours that are almost grey"""
    r, g, b = E.int("r", 0, 255), E.int("g", 0, 255), E.int("b", 0, 255)
    a = E.int("a", 0, 255)
    hi, mid, lo = [{"r": r, "g": g, "b": b}[k] for k in order.split(">=")]
    E.assume(And(hi >= mid, mid >= lo))
    c = E.new("Color", value=((r * 256 + g) * 256 + b) * 256 + a)
    # the channel accessors enter through their contract (C13/Color.getters/fields): the byte of the word
    for name, val in (("red", r), ("green", g), ("blue", b)):
        E.use_contract("Color." + name, lambda E2, args, kw, val=val: val if len(args) == 1 else E2.RUN_REAL)
    H, S, L = E.num(E.get(c, "hue")), E.get(c, "saturation"), E.get(c, "lightness")
    M, m = hi, lo                                           # in 1/255 units
    E.ensure("lightness_is_the_mean_of_the_extreme_channels", L * 510 == M + m)
    E.ensure("saturation", Ite(M == m, S == 0, Ite(M + m < 255, S * (M + m) == M - m, S * (510 - M - m) == M - m)))
    top = order[0]
    # hue in degrees: 60 * ((g-b)/d mod 6) if red is the maximum, 60 * (2 + (b-r)/d) for green, 60 * (4 + (r-g)/d) for blue
    d = M - m
    num = {"r": g - b, "g": b - r, "b": r - g}[top]
    base = {"r": 0, "g": 120, "b": 240}[top]
    raw = base * d + 60 * num                                 # = hue * d before wrapping into [0, 360)
    E.ensure("hue", Ite(d == 0, H == 0, Or(H * d == raw, H * d == raw + 360 * d, H * d == raw - 360 * d)))
    E.ensure("hue_in_range", And(H >= 0, H <= 360))
