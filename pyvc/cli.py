"""Command line: python3-vt -m pyvc.cli <command> ...

  dev <substring> [--no-diff] [-j N]     run matching obligations and print a table (development)
  check <property-id> [--tier quick|thorough]   the registered check (see pyvc/check.py)
"""
import argparse
import fnmatch
import json
import os
import sys
import time

sys.path.insert(0, os.path.dirname(os.path.dirname(os.path.abspath(__file__))))


def main():
    ap = argparse.ArgumentParser()
    ap.add_argument("cmd")
    ap.add_argument("arg", nargs="?")
    ap.add_argument("--tier", default=os.environ.get("VERIF_TIER", "quick"))
    ap.add_argument("--no-diff", action="store_true")
    ap.add_argument("-j", type=int, default=None)
    ap.add_argument("-v", action="store_true")
    ap.add_argument("--replay", default=None)
    a = ap.parse_args()
    seed = int(os.environ.get("VERIF_SEED", "0") or 0)
    if a.cmd == "dev":
        from pyvc import registry, runner

        registry.load_all()
        names = [n for n in registry.ORDER if (a.arg or "") in n or fnmatch.fnmatch(n, a.arg or "*")]
        t0 = time.time()
        recs = runner.run_many(names, a.tier, seed, a.j, not a.no_diff)
        for r in recs:
            d = r.get("diff") or {}
            print("%-9s %-70s paths=%-4s vcs=%-4s %5.1fs diff=%s" % (r["status"], r["name"][:70], r["paths"], r["vcs"],
                                                                  r.get("wall_s", 0), d.get("samples")))
            if a.v:
                print("      phases:", r.get("phase_s"))
            if r["status"] != "proved" or a.v:
                for n in r["notes"]:
                    print("      note:", n)
                for f in r["failures"]:
                    print("      FAIL clause=%s path=%s note=%s" % (f["clause"], f["path"], f.get("note")))
                    print("           model=%s" % json.dumps(f["model"])[:400])
                    print("           replay=%s" % json.dumps(f.get("replay"))[:600])
                if d.get("mismatch"):
                    print("      diff mismatch:", d["mismatch"][:2])
                if d.get("clause_false"):
                    print("      clause false on real code:", d["clause_false"][:2])
        print("total %.1fs, %d obligations: %s" % (time.time() - t0, len(recs), {
            s: sum(1 for r in recs if r["status"] == s) for s in set(r["status"] for r in recs)}))
        return 0
    if a.cmd == "check":
        from pyvc import check

        return check.main(a.arg, a.tier, seed, a.replay)
    print(__doc__)
    return 2


if __name__ == "__main__":
    sys.exit(main())
