"""Command line: python3-vt -m pyvc.cli <command> ...

  dev <substring> [--no-diff] [-j N]     run matching obligations and print a table (development)
  check <property-id> [--tier quick|thorough]   the registered check (see pyvc/check.py)
"""
import argparse
import fnmatch
import json
import os
import sys
import time

sys.path.insert(0, os.path.dirname(os.path.dirname(os.path.abspath(__file__))))


def main():
    ap = argparse.ArgumentParser()
    ap.add_argument("cmd")
    ap.add_argument("arg", nargs="?")
    ap.add_argument("--tier", default=os.environ.get("VERIF_TIER", "quick"))
    ap.add_argument("--no-diff", action="store_true")
    ap.add_argument("-j", type=int, default=None)
    ap.add_argument("-v", action="store_true")
    ap.add_argument("--replay", default=None)
    a = ap.parse_args()
    seed = int(os.environ.get("VERIF_SEED", "0") or 0)
    if a.cmd == "dev":
        from pyvc import registry, runner

        registry.load_all()
        names = [n for n in registry.ORDER if (a.arg or "") in n or fnmatch.fnmatch(n, a.arg or "*")]
        t0 = time.time()
        recs = runner.run_many(names, a.tier, seed, a.j, not a.no_diff)
        for r in recs:
            d = r.get("diff") or {}
            print("%-9s %-70s paths=%-4s vcs=%-4s %5.1fs diff=%s" % (r["status"], r["name"][:70], r["paths"], r["vcs"],
                                                                  r.get("wall_s", 0), d.get("samples")))
            if a.v:
                print("      phases:", r.get("phase_s"))
            if r["status"] != "proved" or a.v:
                for n in r["notes"]:
                    print("      note:", n)
                for f in r["failures"]:
                    rp = f.get("replay") or {}
                    mv = {k: v for k, v in (rp.get("values") or f["model"] or {}).items() if k not in ("sin", "cos", "PI")}
                    for k, v in list(mv.items()):
                        if isinstance(v, list) and len(v) == 2:
                            mv[k] = round(v[0] / v[1], 6)
                        elif isinstance(v, float):
                            mv[k] = round(v, 6)
                    print("      FAIL clause=%s path=%s reproduced=%s %s" % (f["clause"], f["path"], rp.get("reproduced"),
                                                                        f.get("note") or ""))
                    if a.v:
                        print("           input=%s" % json.dumps(mv)[:500])
                if d.get("mismatch"):
                    print("      diff mismatch:", d["mismatch"][:2])
                if d.get("clause_false") and a.v:
                    print("      clause false on real code:", str(d["clause_false"][:1])[:300])
        print("total %.1fs, %d obligations: %s" % (time.time() - t0, len(recs), {
            s: sum(1 for r in recs if r["status"] == s) for s in set(r["status"] for r in recs)}))
        return 0
    if a.cmd == "baseline":
        # records which obligation clauses are discharged on the current (unchanged) tree
        from pyvc import registry, runner

        registry.load_all()
        names = [n for n in registry.ORDER if (a.arg or "") in n]
        recs = runner.run_many(names, "quick", seed, a.j, False)
        path = os.path.join(os.path.dirname(os.path.dirname(os.path.abspath(__file__))), "baseline_obligations.json")
        old = {}
        if os.path.exists(path) and a.arg:
            old = json.load(open(path))
        for r in recs:
            old[r["name"]] = {"props": r.get("props", []),
                              "clauses": sorted(c for c, st in r.get("clauses", {}).items()
                                                if st["sat"] == 0 and st["unknown"] == 0)}
        json.dump(old, open(path, "w"), indent=0, sort_keys=True)
        print("baseline ledger: %d obligations, %d discharged clauses" % (
            len(old), sum(len(v["clauses"]) for v in old.values())))
        bad = [r["name"] for r in recs if r["status"] != "proved"]
        print("not fully proved:", bad[:20])
        for r in recs:
            if r["status"] != "proved":
                print("   ", r["name"], r["status"], r.get("notes", [])[:2])
        return 0
    if a.cmd == "check":
        from pyvc import check

        return check.main(a.arg, a.tier, seed, a.replay)
    print(__doc__)
    return 2


if __name__ == "__main__":
    sys.exit(main())
