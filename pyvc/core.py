"""The interpreter proper: attributes, subscripts, calls, statements, expressions."""
import ast
from fractions import Fraction

import z3

from .values import (SV, Obj, PList, PDict, PyFloat, F, FmtStr, Num, NOTIMPL, lift, to_real, to_int, to_bool,
                     sv_not, sv_and, sv_or, sv_ite, is_sym)
from .engine import Undecided, PathAbort
from .interp import *  # noqa
from .interp import _yield_in
from .ops import OpsMixin, tname
from .builtins_ import BuiltinsMixin

BINOPS = {ast.Add: "+", ast.Sub: "-", ast.Mult: "*", ast.Div: "/", ast.FloorDiv: "//", ast.Mod: "%", ast.Pow: "**",
          ast.LShift: "<<", ast.RShift: ">>", ast.BitAnd: "&", ast.BitOr: "|", ast.BitXor: "^", ast.MatMult: "@"}
CMPOPS = {ast.Eq: "==", ast.NotEq: "!=", ast.Lt: "<", ast.LtE: "<=", ast.Gt: ">", ast.GtE: ">=", ast.Is: "is",
          ast.IsNot: "is not", ast.In: "in", ast.NotIn: "not in"}

MAX_DEPTH = 120
MAX_LOOP = 5000


class Interp(OpsMixin, BuiltinsMixin):
    def __init__(self, source, filename="svgelements.py", float_mode=False):
        self.source = source
        self.tree = ast.parse(source, filename)
        self.float_mode = float_mode
        self.E = None
        self.depth = 0
        self.writes = []
        self.call_hooks = {}  # qualified name -> callable(interp, func, args, kwargs) used for contracts
        self.trace_calls = None
        self.globals = Env()
        self.module_loaded = False
        self.lines = source.split("\n")
        self.float_lits = {}
        for n in ast.walk(self.tree):
            if isinstance(n, ast.Constant) and isinstance(n.value, float):
                self.float_lits[id(n)] = self._literal_fraction(n)

    def _literal_fraction(self, n):
        try:
            if n.lineno == n.end_lineno:
                line = self.lines[n.lineno - 1].encode("utf-8")
                seg = line[n.col_offset:n.end_col_offset].decode("utf-8")
                return F(Fraction(seg.replace("_", "")))
        except (ValueError, ZeroDivisionError, IndexError):
            pass
        return F(n.value)

    # ------------------------------------------------------------------ life cycle
    def attach(self, engine):
        self.E = engine

    def reset_path(self):
        self.writes = []
        self.depth = 0
        self.call_hooks = {}
        if not self.module_loaded:
            # the module body is executed once per interpreter: class namespaces and module constants are
            # never written by the functions under contract (checked: no `global`, no class-attribute stores).
            self.load_module()
            self.writes = []      # writes made while the module body builds its own objects are not writes of a call

    def load_module(self):
        self.globals = Env()
        self.install_builtins(self.globals)
        self.globals.vars["__name__"] = "svgelements.svgelements"
        for st in self.tree.body:
            self.exec_stmt(st, self.globals)
        self.module_loaded = True
        from .values import next_serial

        # every heap object created by the module body (class attributes, module constants) has a smaller serial
        self.module_mark = next_serial()

    def log_write(self, obj, field):
        self.writes.append((obj.serial if hasattr(obj, "serial") else id(obj), field))

    def cls(self, name):
        return self.globals.vars[name]

    # ------------------------------------------------------------------ attributes
    def getattr(self, o, name):
        if isinstance(o, Obj):
            if name in o.fd:
                return o.fd[name]
            v, owner = o.cls.lookup(name)
            if owner is not None:
                return self.bind(v, o, o.cls)
            if o.num is not None:
                return self.num_attr(o.num, name)
            if o.items is not None:
                return self.list_method(o.items, name, o)
            if name == "__class__":
                return o.cls
            if name == "__dict__":
                raise Undecided("__dict__ access")
            self.raise_("AttributeError", "'%s' object has no attribute '%s'" % (o.cls.name, name))
        if isinstance(o, ClassVal):
            v, owner = o.lookup(name)
            if owner is not None:
                if isinstance(v, StaticM):
                    return v.func
                if isinstance(v, ClassM):
                    return BoundMethod(v.func, o)
                return v
            if name == "__name__":
                return o.name
            for b in o.mro():
                if isinstance(b, BuiltinType):
                    r = self.builtin_type_attr(b, name)
                    if r is not None:
                        return r
            self.raise_("AttributeError", "type object '%s' has no attribute '%s'" % (o.name, name))
        if isinstance(o, BuiltinType):
            r = self.builtin_type_attr(o, name)
            if r is not None:
                return r
            self.raise_("AttributeError", "type %s has no attribute %s" % (o.name, name))
        if o is None:
            self.raise_("AttributeError", "'NoneType' object has no attribute '%s'" % name)
        if isinstance(o, (str, FmtStr)):
            return self.str_method(o, name)
        if isinstance(o, PList):
            return self.list_method(o, name)
        if isinstance(o, PDict):
            return self.dict_method(o, name)
        if isinstance(o, tuple):
            return self.tuple_method(o, name)
        if is_number(o):
            return self.num_attr(o, name)
        if isinstance(o, ExcVal):
            if name == "args":
                return o.args
            self.raise_("AttributeError", name)
        if isinstance(o, ModuleVal):
            if name in o.ns:
                return o.ns[name]
            self.raise_("AttributeError", "module has no attribute %s" % name)
        if isinstance(o, RegexVal):
            return self.regex_method(o, name)
        if isinstance(o, BoundMethod) and name == "__func__":
            return o.func
        if isinstance(o, slice):
            return getattr(o, name)
        if isinstance(o, complex):
            return self.concrete_float(getattr(o, name)) if name in ("real", "imag") else getattr(o, name)
        raise Undecided("getattr %s.%s" % (tname(o), name))

    def num_attr(self, x, name):
        if name == "real":
            return x
        if name == "imag":
            if is_float_val(x):
                return self.concrete_float(0)
            return 0
        if name == "as_integer_ratio" or name == "is_integer":
            raise Undecided("float method %s" % name)
        self.raise_("AttributeError", "'%s' object has no attribute '%s'" % (tname(x), name))

    def bind(self, v, o, cls):
        if isinstance(v, PyFunc):
            return BoundMethod(v, o)
        if isinstance(v, Prop):
            return self.call_function(v.fget, [o], {})
        if isinstance(v, StaticM):
            return v.func
        if isinstance(v, ClassM):
            return BoundMethod(v.func, cls)
        return v

    def hasattr(self, o, name):
        if isinstance(o, Obj):
            if name in o.fd:
                return True
            v, owner = o.cls.lookup(name)
            if owner is not None:
                if isinstance(v, Prop):
                    try:
                        self.call_function(v.fget, [o], {})
                        return True
                    except PyRaise as e:
                        if EXC["AttributeError"] in e.exc.cls.mro():
                            return False
                        raise
                return True
            if o.items is not None and name in ("append", "extend", "insert", "pop", "remove", "index", "count",
                                                "reverse", "sort", "clear", "copy"):
                return True
            return False
        try:
            self.getattr(o, name)
            return True
        except PyRaise as e:
            if EXC["AttributeError"] in e.exc.cls.mro():
                return False
            raise

    def setattr(self, o, name, value):
        if isinstance(o, Obj):
            v, owner = o.cls.lookup(name)
            if isinstance(v, Prop):
                if v.fset is None:
                    self.raise_("AttributeError", "can't set attribute '%s'" % name)
                self.call_function(v.fset, [o, value], {})
                return
            o.fd[name] = value
            self.log_write(o, name)
            return
        if isinstance(o, ClassVal):
            o.ns[name] = value
            return
        if o is None:
            self.raise_("AttributeError", "'NoneType' object has no attribute '%s'" % name)
        if isinstance(o, ElementStub):
            o.attrs_py[name] = value
            return
        self.raise_("AttributeError", "'%s' object has no attribute '%s'" % (tname(o), name))

    # ------------------------------------------------------------------ subscripts
    def norm_index(self, i, n, what="list"):
        """concrete or symbolic index into a sequence of concrete length n -> python int"""
        i = self.unwrap_num(i)
        if isinstance(i, SV):
            if i.kind == "real":
                self.raise_("TypeError", "%s indices must be integers" % what)
            # enumerate the feasible values (concrete length, so finitely many)
            for k in range(-n, n):
                if self.E.decide(i == k):
                    i = k
                    break
            else:
                self.raise_("IndexError", "%s index out of range" % what)
        if isinstance(i, bool):
            i = int(i)
        if not isinstance(i, int):
            self.raise_("TypeError", "%s indices must be integers or slices, not %s" % (what, tname(i)))
        if i < 0:
            i += n
        if i < 0 or i >= n:
            self.raise_("IndexError", "%s index out of range" % what)
        return i

    def mk_slice(self, lo, hi, step):
        vals = []
        for x in (lo, hi, step):
            x = self.unwrap_num(x)
            if isinstance(x, SV):
                raise Undecided("symbolic slice bound")
            vals.append(x)
        return slice(*vals)

    def subscript(self, o, i):
        if isinstance(o, Obj):
            m, _ = o.cls.lookup("__getitem__")
            if m is not None:
                return self.call_method(o, "__getitem__", i)
            if o.items is not None:
                return self.subscript(o.items, i)
            self.raise_("TypeError", "'%s' object is not subscriptable" % o.cls.name)
        if isinstance(o, PList):
            if isinstance(i, slice):
                return PList(o.v[i])
            return o.v[self.norm_index(i, len(o.v))]
        if isinstance(o, tuple):
            if isinstance(i, slice):
                return o[i]
            return o[self.norm_index(i, len(o), "tuple")]
        if isinstance(o, str):
            if isinstance(i, slice):
                return o[i]
            return o[self.norm_index(i, len(o), "string")]
        if isinstance(o, PDict):
            if isinstance(i, SV):
                raise Undecided("symbolic dict key")
            if isinstance(i, (Obj, PList, PDict)):
                self.raise_("TypeError", "unhashable key")
            if i in o.v:
                return o.v[i]
            self.raise_("KeyError", i)
        if o is None:
            self.raise_("TypeError", "'NoneType' object is not subscriptable")
        if is_number(o):
            self.raise_("TypeError", "'%s' object is not subscriptable" % tname(o))
        if isinstance(o, MatchStub):
            return o.group(i)
        if isinstance(o, FmtStr):
            if isinstance(i, slice) and i.start is None and i.step is None and isinstance(i.stop, int) and i.stop < 0:
                last = o.parts[-1] if o.parts else ""
                if isinstance(last, str) and len(last) >= -i.stop:
                    return FmtStr(o.parts[:-1] + [last[:i.stop]])
            raise Undecided("subscript of formatted string")
        self.raise_("TypeError", "'%s' object is not subscriptable" % tname(o))

    def store_subscript(self, o, i, v):
        if isinstance(o, Obj):
            m, _ = o.cls.lookup("__setitem__")
            if m is not None:
                self.call_method(o, "__setitem__", i, v)
                return
            if o.items is not None:
                return self.store_subscript(o.items, i, v)
            self.raise_("TypeError", "'%s' object does not support item assignment" % o.cls.name)
        if isinstance(o, PList):
            if isinstance(i, slice):
                o.v[i] = list(self.iterate(v))
            else:
                o.v[self.norm_index(i, len(o.v))] = v
            self.log_write(o, None)
            return
        if isinstance(o, PDict):
            if isinstance(i, SV):
                raise Undecided("symbolic dict key")
            o.v[i] = v
            self.log_write(o, i)
            return
        self.raise_("TypeError", "'%s' object does not support item assignment" % tname(o))

    def del_subscript(self, o, i):
        if isinstance(o, Obj):
            m, _ = o.cls.lookup("__delitem__")
            if m is not None:
                self.call_method(o, "__delitem__", i)
                return
            if o.items is not None:
                return self.del_subscript(o.items, i)
        if isinstance(o, PList):
            if isinstance(i, slice):
                del o.v[i]
            else:
                del o.v[self.norm_index(i, len(o.v))]
            self.log_write(o, None)
            return
        if isinstance(o, PDict):
            if i in o.v:
                del o.v[i]
                self.log_write(o, i)
                return
            self.raise_("KeyError", i)
        self.raise_("TypeError", "'%s' object doesn't support item deletion" % tname(o))

    # ------------------------------------------------------------------ iteration
    def iterate(self, o):
        """returns a python list of the elements (eager)"""
        if isinstance(o, PList):
            return list(o.v)
        if isinstance(o, (tuple, list)):
            return list(o)
        if isinstance(o, str):
            return list(o)
        if isinstance(o, range):
            return list(o)
        if isinstance(o, PDict):
            return list(o.v.keys())
        if isinstance(o, LazySeq):
            return o.materialize(self)
        if isinstance(o, Obj):
            m, _ = o.cls.lookup("__iter__")
            if m is not None:
                it = self.call_method(o, "__iter__")
                if isinstance(it, (PList, tuple, list, LazySeq)):
                    return self.iterate(it)
                out = []
                for _ in range(MAX_LOOP):
                    try:
                        out.append(self.call_method(it, "__next__"))
                    except PyRaise as e:
                        if EXC["StopIteration"] in e.exc.cls.mro():
                            return out
                        raise
                raise Undecided("iterator does not terminate")
            if o.items is not None:
                return list(o.items.v)
            m, _ = o.cls.lookup("__getitem__")
            if m is not None:
                out = []
                for k in range(MAX_LOOP):
                    try:
                        out.append(self.call_method(o, "__getitem__", k))
                    except PyRaise as e:
                        if EXC["IndexError"] in e.exc.cls.mro():
                            return out
                        raise
                raise Undecided("sequence iteration does not terminate")
            self.raise_("TypeError", "'%s' object is not iterable" % o.cls.name)
        if isinstance(o, (set, frozenset)):
            return list(o)
        if o is None or is_number(o):
            self.raise_("TypeError", "'%s' object is not iterable" % tname(o))
        raise Undecided("iterate %s" % tname(o))

    # ------------------------------------------------------------------ calls
    def call_method(self, o, name, *args, **kwargs):
        f = self.getattr(o, name)
        return self.call(f, list(args), kwargs)

    def call(self, f, args, kwargs):
        if isinstance(f, BoundMethod):
            return self.call_function(f.func, [f.self_obj] + list(args), kwargs)
        if isinstance(f, PyFunc):
            return self.call_function(f, args, kwargs)
        if isinstance(f, Builtin):
            return f.fn(*args, **kwargs)
        if isinstance(f, ClassVal):
            return self.instantiate(f, args, kwargs)
        if isinstance(f, BuiltinType):
            return self.call_builtin_type(f, args, kwargs)
        if isinstance(f, ExcClass):
            return ExcVal(f, args)
        if isinstance(f, Obj):
            m, _ = f.cls.lookup("__call__")
            if m is not None:
                return self.call_method(f, "__call__", *args, **kwargs)
        if f is None:
            self.raise_("TypeError", "'NoneType' object is not callable")
        if callable(f) and getattr(f, "_pyvc_native", False):
            return f(*args, **kwargs)
        self.raise_("TypeError", "'%s' object is not callable" % tname(f))

    def instantiate(self, cls, args, kwargs):
        o = Obj(cls)
        mro = cls.mro()
        if BT["float"] in mro:
            # float-derived (Angle): value from the single argument
            if len(args) != 1:
                raise Undecided("float subclass constructor arity")
            v = self.to_float(args[0])
            object.__setattr__(o, "num", v)
            return o
        if BT["list"] in mro:
            object.__setattr__(o, "items", PList())
        init, owner = cls.lookup("__init__")
        if init is not None:
            self.call_function(init, [o] + list(args), kwargs)
        elif args or kwargs:
            if BT["list"] in mro and len(args) == 1:
                o.items.v.extend(self.iterate(args[0]))
            else:
                self.raise_("TypeError", "%s() takes no arguments" % cls.name)
        return o

    def qualname(self, func):
        if func.owner is not None:
            return "%s.%s" % (func.owner, func.name)
        return func.name

    def call_function(self, func, args, kwargs):
        if not isinstance(func, PyFunc):
            return self.call(func, args, kwargs)
        q = self.qualname(func)
        hook = self.call_hooks.get(q)
        if hook is not None:
            r = hook(self, func, args, kwargs)
            if r is not _NOHOOK:
                return r
        if self.trace_calls is not None:
            self.trace_calls.append(q)
        node = func.node
        env = Env(func.env)
        self.bind_args(func, node, env, args, kwargs)
        self.depth += 1
        if self.depth > MAX_DEPTH:
            self.depth -= 1
            self.raise_("RecursionError", "maximum recursion depth exceeded")
        try:
            if func.is_gen:
                env.vars["$yield"] = []
                try:
                    self.exec_block(node.body, env)
                except ReturnEx:
                    pass
                return LazySeq(env.vars["$yield"])
            if isinstance(node, ast.Lambda):
                return self.eval(node.body, env)
            try:
                self.exec_block(node.body, env)
            except ReturnEx as r:
                return r.value
            return None
        finally:
            self.depth -= 1

    def bind_args(self, func, node, env, args, kwargs):
        a = node.args
        params = [p.arg for p in getattr(a, "posonlyargs", [])] + [p.arg for p in a.args]
        nparams = len(params)
        args = list(args)
        kwargs = dict(kwargs)
        vals = {}
        if len(args) > nparams:
            if a.vararg is None:
                self.raise_("TypeError", "%s() takes %d positional arguments but %d were given" % (
                    func.name, nparams, len(args)))
            extra = tuple(args[nparams:])
            args = args[:nparams]
        else:
            extra = ()
        for p, v in zip(params, args):
            vals[p] = v
        for p in params[len(args):]:
            if p in kwargs:
                vals[p] = kwargs.pop(p)
        for p in params[:len(args)]:
            if p in kwargs:
                self.raise_("TypeError", "%s() got multiple values for argument '%s'" % (func.name, p))
        ndef = len(func.defaults)
        for idx, p in enumerate(params):
            if p not in vals:
                didx = idx - (nparams - ndef)
                if didx >= 0:
                    vals[p] = func.defaults[didx]
                else:
                    self.raise_("TypeError", "%s() missing required positional argument: '%s'" % (func.name, p))
        for p, d in zip(a.kwonlyargs, func.kw_defaults):
            if p.arg in kwargs:
                vals[p.arg] = kwargs.pop(p.arg)
            elif d is not _NODEFAULT:
                vals[p.arg] = d
            else:
                self.raise_("TypeError", "%s() missing keyword-only argument '%s'" % (func.name, p.arg))
        if a.vararg is not None:
            vals[a.vararg.arg] = extra
        if a.kwarg is not None:
            vals[a.kwarg.arg] = PDict(kwargs)
        elif kwargs:
            self.raise_("TypeError", "%s() got an unexpected keyword argument '%s'" % (func.name, sorted(kwargs)[0]))
        env.vars.update(vals)

    # ------------------------------------------------------------------ statements
    def exec_block(self, stmts, env):
        for st in stmts:
            self.exec_stmt(st, env)

    def exec_stmt(self, st, env):
        m = getattr(self, "st_" + st.__class__.__name__, None)
        if m is None:
            raise Undecided("statement %s at line %d" % (st.__class__.__name__, st.lineno))
        return m(st, env)

    def st_Expr(self, st, env):
        if isinstance(st.value, ast.Constant) and isinstance(st.value.value, str):
            return  # docstring / bare string
        self.eval(st.value, env)

    def st_Pass(self, st, env):
        pass

    def st_Assign(self, st, env):
        v = self.eval(st.value, env)
        for t in st.targets:
            self.assign(t, v, env)

    def st_AnnAssign(self, st, env):
        if st.value is not None:
            self.assign(st.target, self.eval(st.value, env), env)

    def st_AugAssign(self, st, env):
        op = BINOPS[type(st.op)]
        t = st.target
        if isinstance(t, ast.Name):
            cur = self.eval(t, env)
            self.assign(t, self.binop(op, cur, self.eval(st.value, env), inplace=True), env)
        elif isinstance(t, ast.Attribute):
            o = self.eval(t.value, env)
            cur = self.getattr(o, t.attr)
            self.setattr(o, t.attr, self.binop(op, cur, self.eval(st.value, env), inplace=True))
        elif isinstance(t, ast.Subscript):
            o = self.eval(t.value, env)
            i = self.eval_index(t.slice, env)
            cur = self.subscript(o, i)
            self.store_subscript(o, i, self.binop(op, cur, self.eval(st.value, env), inplace=True))
        else:
            raise Undecided("augassign target")

    def assign(self, t, v, env):
        if isinstance(t, ast.Name):
            env.vars[t.id] = v
        elif isinstance(t, ast.Attribute):
            self.setattr(self.eval(t.value, env), t.attr, v)
        elif isinstance(t, ast.Subscript):
            self.store_subscript(self.eval(t.value, env), self.eval_index(t.slice, env), v)
        elif isinstance(t, (ast.Tuple, ast.List)):
            if any(isinstance(e, ast.Starred) for e in t.elts):
                raise Undecided("starred assignment")
            vals = self.iterate(v)
            if len(vals) != len(t.elts):
                self.raise_("ValueError", "not enough/too many values to unpack (expected %d, got %d)" % (
                    len(t.elts), len(vals)))
            for e, x in zip(t.elts, vals):
                self.assign(e, x, env)
        else:
            raise Undecided("assignment target %s" % t.__class__.__name__)

    def st_Delete(self, st, env):
        for t in st.targets:
            if isinstance(t, ast.Subscript):
                self.del_subscript(self.eval(t.value, env), self.eval_index(t.slice, env))
            elif isinstance(t, ast.Name):
                del env.vars[t.id]
            else:
                raise Undecided("del target")

    def st_Return(self, st, env):
        raise ReturnEx(self.eval(st.value, env) if st.value is not None else None)

    def st_If(self, st, env):
        if self.truth(self.eval(st.test, env)):
            self.exec_block(st.body, env)
        else:
            self.exec_block(st.orelse, env)

    def st_While(self, st, env):
        hook = self.loop_hook(st, env)
        if hook is not None:
            return hook()
        n = 0
        while self.truth(self.eval(st.test, env)):
            n += 1
            if n > MAX_LOOP:
                raise Undecided("while loop at line %d exceeds %d iterations" % (st.lineno, MAX_LOOP))
            try:
                self.exec_block(st.body, env)
            except BreakEx:
                return
            except ContinueEx:
                continue
        self.exec_block(st.orelse, env)

    def st_For(self, st, env):
        it = self.eval(st.iter, env)
        hook = self.loop_hook(st, env, it)
        if hook is not None:
            return hook()
        seq = self.iterate(it)
        for x in seq:
            self.assign(st.target, x, env)
            try:
                self.exec_block(st.body, env)
            except BreakEx:
                return
            except ContinueEx:
                continue
        self.exec_block(st.orelse, env)

    def loop_hook(self, st, env, it=None):
        return None

    def st_Break(self, st, env):
        raise BreakEx()

    def st_Continue(self, st, env):
        raise ContinueEx()

    def st_Raise(self, st, env):
        if st.exc is None:
            cur = env.lookup("$exc") if env.has("$exc") else None
            if cur is None:
                self.raise_("RuntimeError", "No active exception to reraise")
            raise PyRaise(cur)
        v = self.eval(st.exc, env)
        if isinstance(v, ExcClass):
            v = ExcVal(v, ())
        if not isinstance(v, ExcVal):
            self.raise_("TypeError", "exceptions must derive from BaseException")
        raise PyRaise(v)

    def st_Assert(self, st, env):
        if not self.truth(self.eval(st.test, env)):
            self.raise_("AssertionError")

    def exc_matches(self, exc, spec):
        if spec is None:
            return True
        if isinstance(spec, tuple):
            return any(self.exc_matches(exc, s) for s in spec)
        if isinstance(spec, ExcClass):
            return spec in exc.cls.mro()
        return False

    def st_Try(self, st, env):
        try:
            try:
                self.exec_block(st.body, env)
            except PyRaise as pr:
                for h in st.handlers:
                    spec = self.eval(h.type, env) if h.type is not None else None
                    if self.exc_matches(pr.exc, spec):
                        if h.name:
                            env.vars[h.name] = pr.exc
                        old = env.vars.get("$exc")
                        env.vars["$exc"] = pr.exc
                        try:
                            self.exec_block(h.body, env)
                        finally:
                            env.vars["$exc"] = old
                        break
                else:
                    raise
            else:
                self.exec_block(st.orelse, env)
        finally:
            if st.finalbody:
                self.exec_block(st.finalbody, env)

    def st_FunctionDef(self, st, env, owner=None):
        f = self.make_func(st, env, st.name, owner)
        v = f
        for d in reversed(st.decorator_list):
            v = self.apply_decorator(d, v, env)
        env.vars[st.name] = v

    def make_func(self, node, env, name, owner=None):
        a = node.args
        defaults = [self.eval(d, env) for d in a.defaults]
        kw_defaults = [self.eval(d, env) if d is not None else _NODEFAULT for d in a.kw_defaults]
        is_gen = _yield_in(node.body) if not isinstance(node, ast.Lambda) else False
        return PyFunc(node, env, defaults, kw_defaults, name, owner, is_gen)

    def apply_decorator(self, d, v, env):
        if isinstance(d, ast.Name):
            if d.id == "property":
                return Prop(v)
            if d.id == "staticmethod":
                return StaticM(v)
            if d.id == "classmethod":
                return ClassM(v)
        if isinstance(d, ast.Attribute) and d.attr == "setter" and isinstance(d.value, ast.Name):
            p = env.vars.get(d.value.id)
            if isinstance(p, Prop):
                return Prop(p.fget, v)
        raise Undecided("decorator at line %d" % d.lineno)

    def st_ClassDef(self, st, env):
        bases = [self.eval(b, env) for b in st.bases]
        if not bases:
            bases = [BT["object"]]
        ns_env = Env(env)
        qual = st.name
        for s in st.body:
            if isinstance(s, ast.FunctionDef):
                self.st_FunctionDef(s, ns_env, owner=qual)
            else:
                self.exec_stmt(s, ns_env)
        cls = ClassVal(st.name, bases, ns_env.vars, qual)
        # methods defined in a class body must not see the class namespace as an enclosing scope
        for v in ns_env.vars.values():
            for f in _funcs_of(v):
                if f.env is ns_env:
                    f.env = env
        env.vars[st.name] = cls

    def st_Import(self, st, env):
        for al in st.names:
            self.import_module(al.name, al.asname or al.name.split(".")[0], env)

    def st_ImportFrom(self, st, env):
        self.import_from(st.module, [(al.name, al.asname or al.name) for al in st.names], env)

    def st_Global(self, st, env):
        raise Undecided("global statement")

    # ------------------------------------------------------------------ expressions
    def eval(self, e, env):
        m = getattr(self, "ex_" + e.__class__.__name__, None)
        if m is None:
            raise Undecided("expression %s at line %d" % (e.__class__.__name__, getattr(e, "lineno", -1)))
        return m(e, env)

    def eval_index(self, s, env):
        if isinstance(s, ast.Slice):
            lo = self.eval(s.lower, env) if s.lower is not None else None
            hi = self.eval(s.upper, env) if s.upper is not None else None
            stp = self.eval(s.step, env) if s.step is not None else None
            return self.mk_slice(lo, hi, stp)
        return self.eval(s, env)

    def ex_Constant(self, e, env):
        v = e.value
        if isinstance(v, float):
            if self.float_mode:
                return v
            return self.float_lits.get(id(e)) or F(v)
        if isinstance(v, complex):
            raise Undecided("complex literal")
        if v is Ellipsis:
            raise Undecided("ellipsis")
        return v

    def ex_Name(self, e, env):
        try:
            return env.lookup(e.id)
        except KeyError:
            try:
                return self.globals.vars[e.id]
            except KeyError:
                self.raise_("NameError", "name '%s' is not defined" % e.id)

    def ex_Attribute(self, e, env):
        return self.getattr(self.eval(e.value, env), e.attr)

    def ex_Subscript(self, e, env):
        return self.subscript(self.eval(e.value, env), self.eval_index(e.slice, env))

    def ex_BinOp(self, e, env):
        a = self.eval(e.left, env)
        b = self.eval(e.right, env)
        return self.binop(BINOPS[type(e.op)], a, b)

    def ex_UnaryOp(self, e, env):
        v = self.eval(e.operand, env)
        if isinstance(e.op, ast.Not):
            if isinstance(v, SV) and v.kind == "bool":
                return sv_not(v)
            return not self.truth(v)
        return self.unop({ast.USub: "-", ast.UAdd: "+", ast.Invert: "~"}[type(e.op)], v)

    def ex_BoolOp(self, e, env):
        is_and = isinstance(e.op, ast.And)
        v = None
        for i, sub in enumerate(e.values):
            v = self.eval(sub, env)
            if i == len(e.values) - 1:
                return v
            t = self.truth(v)
            if is_and and not t:
                return v if not isinstance(v, SV) else False
            if not is_and and t:
                return v if not isinstance(v, SV) else True
        return v

    def ex_Compare(self, e, env):
        left = self.eval(e.left, env)
        res = True
        for i, (op, rn) in enumerate(zip(e.ops, e.comparators)):
            right = self.eval(rn, env)
            r = self.compare(CMPOPS[type(op)], left, right)
            if i == len(e.ops) - 1:
                return r
            if not self.truth(r):
                return False
            left = right
        return res

    def ex_IfExp(self, e, env):
        if self.truth(self.eval(e.test, env)):
            return self.eval(e.body, env)
        return self.eval(e.orelse, env)

    def ex_Tuple(self, e, env):
        return tuple(self.eval_elts(e.elts, env))

    def ex_List(self, e, env):
        return PList(self.eval_elts(e.elts, env))

    def eval_elts(self, elts, env):
        out = []
        for x in elts:
            if isinstance(x, ast.Starred):
                out.extend(self.iterate(self.eval(x.value, env)))
            else:
                out.append(self.eval(x, env))
        return out

    def ex_Dict(self, e, env):
        d = PDict()
        for k, v in zip(e.keys, e.values):
            if k is None:
                src = self.eval(v, env)
                d.v.update(src.v)
            else:
                d.v[self.eval(k, env)] = self.eval(v, env)
        return d

    def ex_Set(self, e, env):
        vals = self.eval_elts(e.elts, env)
        if any(isinstance(x, (SV, Obj)) for x in vals):
            raise Undecided("set of symbolic values")
        return frozenset(vals)

    def ex_Lambda(self, e, env):
        return self.make_func(e, env, "<lambda>")

    def ex_Call(self, e, env):
        f = self.eval(e.func, env)
        args = self.eval_elts(e.args, env)
        kwargs = {}
        for kw in e.keywords:
            if kw.arg is None:
                d = self.eval(kw.value, env)
                if not isinstance(d, PDict):
                    self.raise_("TypeError", "argument after ** must be a mapping")
                for k, v in d.v.items():
                    if k in kwargs:
                        self.raise_("TypeError", "got multiple values for keyword argument '%s'" % k)
                    kwargs[k] = v
            else:
                kwargs[kw.arg] = self.eval(kw.value, env)
        return self.call(f, args, kwargs)

    def comp_iter(self, gens, env, k, body):
        if k == len(gens):
            body()
            return
        g = gens[k]
        for x in self.iterate(self.eval(g.iter, env)):
            self.assign(g.target, x, env)
            if all(self.truth(self.eval(c, env)) for c in g.ifs):
                self.comp_iter(gens, env, k + 1, body)

    def ex_ListComp(self, e, env):
        out = []
        sub = Env(env)
        self.comp_iter(e.generators, sub, 0, lambda: out.append(self.eval(e.elt, sub)))
        return PList(out)

    def ex_GeneratorExp(self, e, env):
        out = []
        sub = Env(env)
        self.comp_iter(e.generators, sub, 0, lambda: out.append(self.eval(e.elt, sub)))
        return LazySeq(out)

    def ex_DictComp(self, e, env):
        out = PDict()
        sub = Env(env)

        def body():
            out.v[self.eval(e.key, sub)] = self.eval(e.value, sub)

        self.comp_iter(e.generators, sub, 0, body)
        return out

    def ex_JoinedStr(self, e, env):
        parts = []
        for v in e.values:
            if isinstance(v, ast.Constant):
                parts.append(v.value)
            else:
                if v.format_spec is not None or v.conversion not in (-1, 115):
                    raise Undecided("f-string format spec")
                parts.append(self.to_str(self.eval(v.value, env)))
        if all(isinstance(p, str) for p in parts):
            return "".join(parts)
        return FmtStr(parts)

    def ex_Yield(self, e, env):
        v = self.eval(e.value, env) if e.value is not None else None
        env.lookup("$yield").append(v)
        return None

    def ex_YieldFrom(self, e, env):
        vals = self.iterate(self.eval(e.value, env))
        env.lookup("$yield").extend(vals)
        return None

    def ex_Starred(self, e, env):
        raise Undecided("starred expression")


class LazySeq(object):
    """result of a generator function / generator expression (already evaluated)."""

    def __init__(self, vals):
        self.vals = list(vals)
        self.pos = 0

    def materialize(self, interp):
        r = self.vals[self.pos:]
        self.pos = len(self.vals)
        return r


class ElementStub(object):
    pass


class MatchStub(object):
    pass


class _NoHook(object):
    pass


_NOHOOK = _NoHook()
_NODEFAULT = object()


def _funcs_of(v):
    if isinstance(v, PyFunc):
        yield v
    elif isinstance(v, Prop):
        if v.fget is not None:
            yield from _funcs_of(v.fget)
        if v.fset is not None:
            yield from _funcs_of(v.fset)
    elif isinstance(v, (StaticM, ClassM)):
        yield from _funcs_of(v.func)
