"""The contract-facing API.  One obligation thunk runs against two engines:

* SymE  - symbolic: the real functions' ASTs are executed over z3 terms; `ensure` records VCs.
* ConcE - concrete: the real svgelements module (imported under /venv/bin/python from $VERIF_REPO) is
          called on float inputs (a solver model, or random samples); `ensure` evaluates the same
          clause with a tolerance.  Used for counterexample replay, for the differential self-check
          of the executor and for bounded run-time checking.

Contract code must only touch objects through this API (E.new / E.call / attribute reads on the
returned handles) so that both engines can run it.
"""
import ast
import math
import random

try:
    import z3  # noqa
    from .values import SV, Obj, PList, PDict, sv_and, sv_or, sv_not, sv_implies, sv_ite, lift, to_real, F, PyFloat, \
        FmtStr, Num, NOTIMPL
    HAVE_Z3 = True
except ImportError:  # concrete side (/venv/bin/python has no z3)
    HAVE_Z3 = False
    SV = Obj = PList = PDict = FmtStr = Num = ()
    NOTIMPL = NotImplemented


# ------------------------------------------------------------------------------------------------
# engine-independent logical helpers
# ------------------------------------------------------------------------------------------------
def And(*xs):
    flat = []
    for x in xs:
        if isinstance(x, (list, tuple)):
            flat.extend(x)
        else:
            flat.append(x)
    if HAVE_Z3 and any(isinstance(x, SV) for x in flat):
        return sv_and(*flat)
    return all(bool(x) for x in flat)


def Or(*xs):
    flat = []
    for x in xs:
        if isinstance(x, (list, tuple)):
            flat.extend(x)
        else:
            flat.append(x)
    if HAVE_Z3 and any(isinstance(x, SV) for x in flat):
        return sv_or(*flat)
    return any(bool(x) for x in flat)


def Not(x):
    if HAVE_Z3 and isinstance(x, SV):
        return sv_not(x)
    return not x


def Implies(a, b):
    return Or(Not(a), b)


def Ite(c, a, b):
    if HAVE_Z3 and isinstance(c, SV):
        return sv_ite(c, a, b)
    return a if c else b


def Abs(x):
    if HAVE_Z3 and isinstance(x, SV):
        return Ite(x >= 0, x, -x)
    return abs(x)


def Min(a, b):
    return Ite(a <= b, a, b)


def Max(a, b):
    return Ite(a >= b, a, b)


def ctor_constants(fnode):
    """{field: constant} for the top-level statements `self.<field> = <constant>` of a constructor"""
    out = {}
    if not fnode.args.args:
        return out
    me = fnode.args.args[0].arg
    for st in fnode.body:
        if isinstance(st, ast.Assign) and len(st.targets) == 1 and isinstance(st.value, ast.Constant):
            t = st.targets[0]
            if isinstance(t, ast.Attribute) and isinstance(t.value, ast.Name) and t.value.id == me \
                    and isinstance(st.value.value, (type(None), bool, int, float, str)):
                out[t.attr] = st.value.value
    return out


_REAL_CTOR = {}


def _real_ctor_constants(cls):
    if cls not in _REAL_CTOR:
        import inspect
        import textwrap

        try:
            node = ast.parse(textwrap.dedent(inspect.getsource(cls.__dict__["__init__"]))).body[0]
            _REAL_CTOR[cls] = ctor_constants(node)
        except (OSError, TypeError, SyntaxError, IndexError):
            _REAL_CTOR[cls] = {}
    return _REAL_CTOR[cls]


class Outcome(object):
    """result of E.catch(...): either .ok with .value, or .exc = exception class name"""

    def __init__(self, ok, value=None, exc=None, detail=""):
        self.ok = ok
        self.value = value
        self.exc = exc
        self.detail = detail

    def __repr__(self):
        return "Outcome(ok=%r, value=%r, exc=%r)" % (self.ok, self.value, self.exc)


# ------------------------------------------------------------------------------------------------
# symbolic engine facade
# ------------------------------------------------------------------------------------------------
class SymE(object):
    mode = "symbolic"

    @property
    def RUN_REAL(self):
        """returned by a contract summary to let the real callee body run for this call"""
        from .core import _NOHOOK

        return _NOHOOK

    def __init__(self, engine, interp):
        self.e = engine
        self.ip = interp
        self.sample_hint = {}

    # symbols
    def real(self, name, sample=None):
        return self.e.real(name)

    def reals(self, names, sample=None):
        return [self.real(n) for n in names.split()]

    def int(self, name, lo=None, hi=None):
        v = self.e.int(name)
        if lo is not None:
            self.e.assume(v >= lo)
        if hi is not None:
            self.e.assume(v <= hi)
        return v

    def bool(self, name):
        return self.e.bool(name)

    def choice(self, name, options):
        """one exploration path per option (exhaustive case split); options are concrete values"""
        k = self.e.choose(len(options), name)
        return options[k]

    def const(self, x):
        return self.e.const(x)

    # assumptions and obligations
    def assume(self, c):
        self.e.assume(c)

    def ensure(self, clause, cond, note=""):
        self.e.ensure(clause, cond, note)

    def cover(self, label):
        self.e.cover(label)

    def observe(self, name, value):
        self.e.observe(name, value)

    def tol(self, atol=None, rtol=None):
        pass

    def abort(self):
        from .engine import PathAbort

        raise PathAbort()

    # objects
    def cls(self, name):
        return self.ip.cls(name)

    def new(self, clsname, **fields):
        """raw object of class `clsname` with these fields (no constructor is run); fields that the constructors of
        the class and its bases initialise with a constant (`self.x = None` ...) and that are not given here get
        that constant - hidden state such as caches starts in the state a constructor leaves it in"""
        o = Obj(self.ip.cls(clsname))
        from .interp import BT, ClassVal, PyFunc

        if BT["list"] in o.cls.mro():
            object.__setattr__(o, "items", PList(fields.pop("_items", [])))
        for c in reversed(o.cls.mro()):
            fn = c.ns.get("__init__") if isinstance(c, ClassVal) else None
            if isinstance(fn, PyFunc):
                for k, v in ctor_constants(fn.node).items():
                    o.fd[k] = self._in(v)
        for k, v in fields.items():
            o.fd[k] = self._in(v)
        return o

    def _in(self, v):
        if isinstance(v, float):
            return F(v)
        if isinstance(v, list):
            return PList([self._in(x) for x in v])
        if isinstance(v, dict):
            return PDict({k: self._in(x) for k, x in v.items()})
        if isinstance(v, tuple):
            return tuple(self._in(x) for x in v)
        return v

    def elementwise_loop(self, qual, which=0):
        """side condition of the generic-element rule (pyvc/loops.py): loop number `which` of function `qual` is
        element-wise on the current source; otherwise the obligation is undecided"""
        from . import loops
        from .engine import Undecided

        try:
            loops.check(self.ip.tree, qual, which)
        except loops.NotElementwise as e:
            raise Undecided("generic-element rule not applicable to %s loop %d: %s" % (qual, which, e))

    def prefix_independence(self):
        """side condition of the parser obligations (loops.audit_prefix_independence)"""
        from . import loops
        from .engine import Undecided

        try:
            loops.audit_prefix_independence(self.ip.tree, self.ip.source)
        except loops.NotElementwise as e:
            raise Undecided("prefix-independence audit failed: %s" % e)

    def feasibility_budget(self, ms):
        """time given to each branch-feasibility query (no answer = explored as feasible; vacuous paths are harmless)"""
        self.e.feas_timeout_ms = ms

    def side_conditions(self, on=True):
        """implicit exceptions of arithmetic (ZeroDivisionError, sqrt/acos domain) become verification conditions
        `pc => cannot raise` instead of path splits (for code that does not catch them)"""
        self.e.side_mode = on

    def use_contract(self, qual, summary):
        """modular rule: from now on (this path) calls of `qual` are replaced by `summary(E, args, kwargs)`,
        which must check the callee's precondition with E.ensure and return a value constrained only by the
        callee's postcondition.  The obligation that proves that contract is named in `uses=` of @ob."""
        from .core import _NOHOOK

        def hook(ip, func, args, kwargs):
            return summary(self, list(args), dict(kwargs))

        self.ip.call_hooks[qual] = hook
        used = getattr(self.ip, "contracts_used", None)
        if used is not None:
            used.add(qual)

    def drop_contract(self, qual):
        self.ip.call_hooks.pop(qual, None)

    def pure_contract(self, qual, fields, result="real"):
        """frame contract of a pure observer method: after the audit `loops.audit_pure` (no store to an attribute,
        subscript or global in `qual` or in anything it may call) the call is a *function* of the listed numeric
        fields of its receiver and of its numeric arguments - represented by an uninterpreted function.  `fields`
        maps the receiver to a tuple of numbers; result: "real" or "point"."""
        from . import loops
        from .engine import Undecided

        try:
            loops.audit_pure(self.ip.tree, qual)
        except loops.NotElementwise as e:
            raise Undecided("frame contract of %s not applicable: %s" % (qual, e))

        def flat(v):
            if v is None:
                return []
            if isinstance(v, Obj):
                if "x" in v.fd and "y" in v.fd:
                    return [v.fd["x"], v.fd["y"]]
                raise Undecided("pure_contract(%s): argument object %r" % (qual, v.cls))
            if isinstance(v, (tuple, list)):
                return [y for x in v for y in flat(x)]
            return [self.ip.unwrap_num(v)]

        def summary(E, args, kwargs):
            if kwargs:
                return E.RUN_REAL
            xs = list(fields(args[0])) + flat(args[1:])
            if result == "real":
                return self.uf(qual, *xs)
            return self.new("Point", x=self.uf(qual + ".x", *xs), y=self.uf(qual + ".y", *xs))

        self.use_contract(qual, summary)

    def list(self, xs):
        return PList([self._in(x) for x in xs])

    def text(self, template, *nums):
        """a string: `template` with each %s replaced by the numeral of a number (opaque when symbolic)"""
        parts = template.split("%s")
        out = []
        for i, piece in enumerate(parts):
            out.append(piece)
            if i < len(nums):
                n = nums[i]
                if isinstance(n, SV):
                    out.append(Num(n, "repr"))
                else:
                    out.append(repr(float(n)) if not isinstance(n, int) else str(n))
        if all(isinstance(p, str) for p in out):
            return "".join(out)
        return FmtStr(out)

    def dict(self, d):
        return PDict({k: self._in(v) for k, v in d.items()})

    def construct(self, clsname, *args, **kwargs):
        return self.ip.call(self.ip.cls(clsname), [self._in(a) for a in args],
                            {k: self._in(v) for k, v in kwargs.items()})

    def call(self, obj, method, *args, **kwargs):
        return self.ip.call(self.ip.getattr(obj, method), [self._in(a) for a in args],
                            {k: self._in(v) for k, v in kwargs.items()})

    def callf(self, qual, *args, **kwargs):
        """call Class.function (static / class method / unbound method) or a module function"""
        parts = qual.split(".")
        f = self.ip.globals.vars[parts[0]]
        for p in parts[1:]:
            f = self.ip.getattr(f, p)
        return self.ip.call(f, [self._in(a) for a in args], {k: self._in(v) for k, v in kwargs.items()})

    def catch(self, thunk):
        from .interp import PyRaise

        try:
            return Outcome(True, thunk())
        except PyRaise as pr:
            return Outcome(False, None, pr.exc.cls.name, repr(pr.exc.args))

    def get(self, obj, name):
        return self.ip.getattr(obj, name)

    def set(self, obj, name, value):
        self.ip.setattr(obj, name, self._in(value))

    def item(self, obj, i):
        return self.ip.subscript(obj, i)

    def items(self, obj):
        return self.ip.iterate(obj)

    def len(self, obj):
        return self.ip.bi_len(obj)

    def isinstance(self, obj, clsname):
        names = clsname if isinstance(clsname, (tuple, list)) else (clsname,)
        return any(self.ip.isinstance1(obj, self.ip.cls(n)) for n in names)

    def clsname(self, obj):
        if isinstance(obj, Obj):
            return obj.cls.name
        return self.ip.type_of(obj).name if obj is not None else "NoneType"

    def is_none(self, v):
        return v is None

    def same(self, a, b):
        return a is b

    def ident(self, o):
        return getattr(o, "serial", id(o))

    def is_number(self, v):
        from .interp import is_number

        return is_number(self.ip.unwrap_num(v))

    def num(self, v):
        return self.ip.unwrap_num(v)

    def truth(self, v):
        return self.ip.truth(v)

    def eq(self, a, b):
        """python-level == through the interpreter (dispatches to __eq__)"""
        return self.ip.py_eq(a, b)

    def serial_mark(self):
        from .values import next_serial

        return next_serial()

    def reach(self, root, mutable_only=True):
        """set of heap objects (Obj/PList/PDict) reachable from root"""
        seen = {}
        stack = [root]
        while stack:
            x = stack.pop()
            if isinstance(x, Obj):
                if x.serial in seen:
                    continue
                seen[x.serial] = x
                stack.extend(x.fd.values())
                if x.items is not None:
                    stack.append(x.items)
            elif isinstance(x, PList):
                if x.serial in seen:
                    continue
                seen[x.serial] = x
                stack.extend(x.v)
            elif isinstance(x, PDict):
                if x.serial in seen:
                    continue
                seen[x.serial] = x
                stack.extend(x.v.values())
            elif isinstance(x, tuple):
                stack.extend(x)
        return seen

    def writes(self):
        return list(self.ip.writes)

    def fmt_parts(self, s):
        """(template, [numeral values]) of a str / formatted string"""
        if isinstance(s, str):
            return s, []
        return s.template(), [n.value for n in s.nums()]

    # math
    def sqrt(self, x):
        return self.e.spec_sqrt(x)

    def code_sqrt(self, x):
        """the symbol math.sqrt(x) denotes in the executed code (sqrt is memoised per canonical argument); x >= 0"""
        return self.e.sqrt(x)

    def cos(self, x):
        return self.e.cos(x)

    def sin(self, x):
        return self.e.sin(x)

    @property
    def pi(self):
        return self.e.pi

    @property
    def tau(self):
        return self.e.tau

    def uf(self, name, *args):
        return self.e.uf(name, *args)

    def axiom(self, c):
        self.e.axiom(c)

    def trig_sum(self, a, b):
        """instances cos(a+b), sin(a+b) of the angle-sum formulas (A3, by name)"""
        ca, sa, cb, sb = self.cos(a), self.sin(a), self.cos(b), self.sin(b)
        self.e.axiom(self.cos(a + b) == ca * cb - sa * sb)
        self.e.axiom(self.sin(a + b) == sa * cb + ca * sb)

    def trig_double_all(self):
        """double-angle instances cos(2x), sin(2x) for every argument x a trig function was applied to so far"""
        import z3 as _z3

        for key, term in list(self.e.trig_terms.items()):
            x = SV(term, "real")
            self.trig_sum(x, x)

    def trig_neg(self, a):
        self.e.axiom(self.cos(-a) == self.cos(a))
        self.e.axiom(self.sin(-a) == -self.sin(a))

    def trig_period(self, a, k=1):
        self.e.axiom(self.cos(a + self.tau * k) == self.cos(a))
        self.e.axiom(self.sin(a + self.tau * k) == self.sin(a))

    def floor(self, x):
        q = self.e.fresh_int("sfloor")
        x = to_real(x)
        self.e.axiom(z3.And(z3.ToReal(q.t) <= x.t, x.t < z3.ToReal(q.t) + 1))
        return q


# ------------------------------------------------------------------------------------------------
# concrete engine: the real module, floats with a tolerance
# ------------------------------------------------------------------------------------------------
class Tol(object):
    atol = 1e-9
    rtol = 1e-9


class TF(float):
    """float whose comparisons are tolerant (so that a clause false in TF arithmetic is really violated)"""

    __slots__ = ()

    def _t(self, o):
        return Tol.atol + Tol.rtol * max(abs(float(self)), abs(float(o)))

    def __eq__(self, o):
        if o is None or isinstance(o, str):
            return False
        try:
            return abs(float(self) - float(o)) <= self._t(o)
        except (TypeError, ValueError):
            return False

    def __ne__(self, o):
        return not self.__eq__(o)

    # strict comparisons are exact (they are what contracts use in hypotheses / case distinctions),
    # non-strict ones and equality are tolerant (they are what contracts conclude)
    def __lt__(self, o):
        return float(self) < float(o)

    def __le__(self, o):
        return float(self) <= float(o) + self._t(o)

    def __gt__(self, o):
        return float(self) > float(o)

    def __ge__(self, o):
        return float(self) >= float(o) - self._t(o)

    __hash__ = float.__hash__

    def __add__(self, o):
        return TF(float(self) + float(o))

    __radd__ = __add__

    def __sub__(self, o):
        return TF(float(self) - float(o))

    def __rsub__(self, o):
        return TF(float(o) - float(self))

    def __mul__(self, o):
        return TF(float(self) * float(o))

    __rmul__ = __mul__

    def __truediv__(self, o):
        return TF(float(self) / float(o))

    def __rtruediv__(self, o):
        return TF(float(o) / float(self))

    def __neg__(self):
        return TF(-float(self))

    def __abs__(self):
        return TF(abs(float(self)))

    def __pow__(self, n):
        return TF(float(self) ** n)


class View(object):
    """handle on a real object; reads are wrapped (floats become TF, objects become Views)"""

    __slots__ = ("_o", "_E")

    def __init__(self, o, E):
        object.__setattr__(self, "_o", o)
        object.__setattr__(self, "_E", E)

    def __getattr__(self, name):
        return self._E._out(getattr(self._o, name))

    def __setattr__(self, name, v):
        setattr(self._o, name, self._E._raw(v))

    def __getitem__(self, i):
        return self._E._out(self._o[i])

    def __iter__(self):
        return iter([self._E._out(x) for x in self._o])

    def __len__(self):
        return len(self._o)

    def __repr__(self):
        return "View(%r)" % (self._o,)


class Reject(Exception):
    """sample does not satisfy an assumption"""


class ConcE(object):
    mode = "concrete"

    def __init__(self, module, values=None, rng=None):
        self.mod = module
        self.values = values or {}
        self.rng = rng or random.Random(0)
        self.results = []  # (clause, bool)
        self.observations = []
        self.choices = []
        self.used = {}
        self.choice_plan = None
        self.choice_pos = 0

    # symbols
    def _num(self, name, default_sampler):
        if name in self.used:
            return self.used[name]      # the same symbol name denotes the same value
        if name in self.values:
            v = self.values[name]
            if isinstance(v, (list, tuple)):
                v = v[0] / v[1]
        else:
            v = default_sampler()
        self.used[name] = v
        return v

    def real(self, name, sample=None):
        def samp():
            if sample is not None:
                return sample(self.rng)
            r = self.rng.random()
            if r < 0.1:
                return 0.0
            mag = 10 ** self.rng.uniform(-2, 3)
            return mag * self.rng.choice((-1, 1))

        return TF(self._num(name, samp))

    def reals(self, names, sample=None):
        return [self.real(n, sample) for n in names.split()]

    def int(self, name, lo=None, hi=None):
        v = self._num(name, lambda: self.rng.randint(lo if lo is not None else -5, hi if hi is not None else 5))
        return int(v)

    def bool(self, name):
        return bool(self._num(name, lambda: self.rng.random() < 0.5))

    def choice(self, name, options):
        if self.choice_plan is not None and self.choice_pos < len(self.choice_plan):
            k = self.choice_plan[self.choice_pos]
        elif ("choice:" + name) in self.values:
            k = self.values["choice:" + name]
        else:
            k = self.rng.randrange(len(options))
        self.choice_pos += 1
        self.choices.append(k)
        return options[k]

    def const(self, x):
        return x

    def assume(self, c):
        if isinstance(c, (list, tuple)):
            for x in c:
                self.assume(x)
            return
        if not c:
            raise Reject()

    def ensure(self, clause, cond, note=""):
        if isinstance(cond, (list, tuple)):
            cond = all(bool(c) for c in cond)
        self.results.append((clause, bool(cond)))

    def cover(self, label):
        pass

    def observe(self, name, value):
        self.observations.append((name, self._plain(value)))

    def tol(self, atol=None, rtol=None):
        if atol is not None:
            Tol.atol = atol
        if rtol is not None:
            Tol.rtol = rtol

    def abort(self):
        raise Reject()

    # objects
    def cls(self, name):
        return getattr(self.mod, name)

    def _raw(self, v):
        if isinstance(v, View):
            return v._o
        if isinstance(v, TF):
            return float(v)
        if isinstance(v, list):
            return [self._raw(x) for x in v]
        if isinstance(v, tuple):
            return tuple(self._raw(x) for x in v)
        if isinstance(v, dict):
            return {k: self._raw(x) for k, x in v.items()}
        return v

    def _out(self, v):
        if isinstance(v, bool) or v is None or isinstance(v, (str, int)):
            return v
        if isinstance(v, float):
            if type(v) is float or isinstance(v, TF):
                return TF(v)
            return View(v, self)  # float subclass (Angle): keep identity, numeric through float()
        if isinstance(v, tuple):
            return tuple(self._out(x) for x in v)
        if isinstance(v, (list, dict)) and type(v) in (list, dict):
            return View(v, self)
        if isinstance(v, complex):
            return v
        return View(v, self)

    def new(self, clsname, **fields):
        c = getattr(self.mod, clsname)
        o = c.__new__(c)
        items = fields.pop("_items", None)
        if items is not None:
            list.extend(o, [self._raw(x) for x in items])
        for b in reversed(c.__mro__):
            if "__init__" in b.__dict__ and b.__module__ == self.mod.__name__:
                for k, v in _real_ctor_constants(b).items():
                    object.__setattr__(o, k, v)
        for k, v in fields.items():
            object.__setattr__(o, k, self._raw(v))
        return View(o, self)

    def side_conditions(self, on=True):
        pass

    def elementwise_loop(self, qual, which=0):
        pass

    def prefix_independence(self):
        pass

    def feasibility_budget(self, ms):
        pass

    def use_contract(self, qual, summary):
        pass  # the real callee runs

    def pure_contract(self, qual, fields, result="real"):
        pass  # the real callee runs

    def drop_contract(self, qual):
        pass

    def list(self, xs):
        return View([self._raw(x) for x in xs], self)

    def text(self, template, *nums):
        parts = template.split("%s")
        out = []
        for i, piece in enumerate(parts):
            out.append(piece)
            if i < len(nums):
                n = nums[i]
                out.append(repr(float(n)) if not isinstance(n, int) or isinstance(n, bool) else str(n))
        return "".join(out)

    def dict(self, d):
        return View({k: self._raw(v) for k, v in d.items()}, self)

    def construct(self, clsname, *args, **kwargs):
        c = getattr(self.mod, clsname)
        return self._out(c(*[self._raw(a) for a in args], **{k: self._raw(v) for k, v in kwargs.items()}))

    def call(self, obj, method, *args, **kwargs):
        f = getattr(self._raw(obj), method)
        return self._out(f(*[self._raw(a) for a in args], **{k: self._raw(v) for k, v in kwargs.items()}))

    def callf(self, qual, *args, **kwargs):
        f = self.mod
        for p in qual.split("."):
            f = getattr(f, p)
        return self._out(f(*[self._raw(a) for a in args], **{k: self._raw(v) for k, v in kwargs.items()}))

    def catch(self, thunk):
        try:
            return Outcome(True, thunk())
        except Reject:
            raise
        except RecursionError as e:
            return Outcome(False, None, "RecursionError", str(e)[:100])
        except Exception as e:  # noqa
            return Outcome(False, None, type(e).__name__, str(e)[:200])

    def get(self, obj, name):
        return self._out(getattr(self._raw(obj), name))

    def set(self, obj, name, value):
        setattr(self._raw(obj), name, self._raw(value))

    def item(self, obj, i):
        return self._out(self._raw(obj)[i])

    def items(self, obj):
        return [self._out(x) for x in self._raw(obj)]

    def len(self, obj):
        return len(self._raw(obj))

    def isinstance(self, obj, clsname):
        names = clsname if isinstance(clsname, (tuple, list)) else (clsname,)
        return isinstance(self._raw(obj), tuple(getattr(self.mod, n) for n in names))

    def clsname(self, obj):
        return type(self._raw(obj)).__name__

    def is_none(self, v):
        return v is None

    def same(self, a, b):
        return self._raw(a) is self._raw(b)

    def ident(self, o):
        return id(self._raw(o))

    def is_number(self, v):
        return isinstance(self._raw(v), (int, float)) and not isinstance(v, View) or (
            isinstance(v, View) and isinstance(v._o, float))

    def num(self, v):
        if isinstance(v, View):
            return TF(float(v._o))
        return v

    def truth(self, v):
        return bool(self._raw(v))

    def eq(self, a, b):
        return self._raw(a) == self._raw(b)

    def reach(self, root, mutable_only=True):
        seen = {}
        stack = [self._raw(root)]
        while stack:
            x = stack.pop()
            if isinstance(x, (int, float, str, bool, type(None), complex)) and not hasattr(x, "__dict__"):
                continue
            if id(x) in seen:
                continue
            if isinstance(x, tuple):
                stack.extend(x)
                continue
            seen[id(x)] = x
            if isinstance(x, dict):
                stack.extend(x.values())
            elif isinstance(x, list):
                stack.extend(x)
            if hasattr(x, "__dict__"):
                stack.extend(vars(x).values())
        return seen

    def writes(self):
        return []

    def fmt_parts(self, s):
        import re

        nums = []

        def rep(m):
            nums.append(TF(float(m.group(0))))
            return "\x00"

        t = re.sub(r"[-+]?(?:\d+\.?\d*|\.\d+)(?:[eE][-+]?\d+)?", rep, s)
        return t, nums

    def _plain(self, v):
        v = self._raw(v)
        if isinstance(v, float):
            return float(v)
        if isinstance(v, (tuple, list)):
            return [self._plain(x) for x in v]
        if isinstance(v, (int, str, bool)) or v is None:
            return v
        return repr(v)

    # math
    def sqrt(self, x):
        return TF(math.sqrt(x)) if x >= 0 else TF(0.0)

    def code_sqrt(self, x):
        return TF(math.sqrt(x)) if x >= 0 else TF(0.0)

    def cos(self, x):
        return TF(math.cos(x))

    def sin(self, x):
        return TF(math.sin(x))

    @property
    def pi(self):
        return TF(math.pi)

    @property
    def tau(self):
        return TF(math.tau)

    def uf(self, name, *args):
        f = {"atan2": math.atan2, "acos": math.acos, "atan": math.atan, "log": math.log, "tan": math.tan}[name]
        return TF(f(*[float(a) for a in args]))

    def axiom(self, c):
        pass

    def trig_sum(self, a, b):
        pass

    def trig_double_all(self):
        pass

    def trig_neg(self, a):
        pass

    def trig_period(self, a, k=1):
        pass

    def floor(self, x):
        return math.floor(x)
