"""Concrete side: runs obligation thunks against the REAL svgelements module.

Started as:  /venv/bin/python -m pyvc.conc_runner     (cwd=/verif, env VERIF_REPO)
Protocol: one JSON request per line on stdin, one JSON answer per line on stdout.
  {"op":"sample","ob":name,"n":8,"seed":1}      -> random inputs satisfying the assumptions
  {"op":"replay","ob":name,"values":{...},"choices":[...]}
"""
import json
import os
import random
import sys
import traceback


def flatten(v, depth=0, seen=None):
    from pyvc.api import View, TF

    if seen is None:
        seen = set()
    if isinstance(v, View):
        v = v._o
    if isinstance(v, bool) or v is None or isinstance(v, str):
        return v
    if isinstance(v, int):
        return v
    if isinstance(v, float):
        return float(v)
    if isinstance(v, complex):
        return [v.real, v.imag]
    if depth > 6:
        return "..."
    if isinstance(v, (tuple, list)) and type(v) in (tuple, list):
        return [flatten(x, depth + 1, seen) for x in v]
    if isinstance(v, dict) and type(v) is dict:
        return {str(k): flatten(x, depth + 1, seen) for k, x in sorted(v.items(), key=lambda kv: str(kv[0]))}
    if id(v) in seen:
        return "<cycle>"
    seen = seen | {id(v)}
    if hasattr(v, "__dict__"):
        d = {"__class__": type(v).__name__}
        for k, x in sorted(vars(v).items()):
            d[k] = flatten(x, depth + 1, seen)
        if isinstance(v, list):
            d["__items__"] = [flatten(x, depth + 1, seen) for x in v]
        return d
    if callable(v):
        return "<callable>"
    return repr(v)


_MODULE_STATE = {}


def module_state(mod):
    """snapshot (flattened values) of every object that the module body created and that a function could mutate:
    instances of the module's classes, lists, dicts and sets held by module globals or by class attributes"""
    if id(mod) not in _MODULE_STATE:
        holders = []
        classes = [v for v in vars(mod).values() if isinstance(v, type) and v.__module__ == mod.__name__]
        for ns_name, ns in [("", vars(mod))] + [(c.__name__ + ".", vars(c)) for c in classes]:
            for k, v in list(ns.items()):
                if k.startswith("__") and k.endswith("__"):
                    continue
                if isinstance(v, (list, dict, set)) or type(v).__module__ == mod.__name__ and not isinstance(v, type) \
                        and not callable(v):
                    holders.append((ns_name + k, v))
        _MODULE_STATE[id(mod)] = holders
    return json.dumps([[n, flatten(v)] for n, v in _MODULE_STATE[id(mod)]], sort_keys=True, default=str)


def run_one(mod, ob, values, choices, rng, tol=None):
    from pyvc.api import ConcE, Reject, Tol
    from pyvc.runner import FRAME_CLAUSE

    state_before = module_state(mod)

    Tol.atol, Tol.rtol = (1e-9, 1e-9) if not tol else (float(tol[0]), float(tol[1]))
    E = ConcE(mod, values=values, rng=rng)
    E.choice_plan = choices
    E.auto = []
    orig_call, orig_callf, orig_construct = E.call, E.callf, E.construct

    def wrap(f, tag):
        def g(*a, **k):
            try:
                r = f(*a, **k)
            except Reject:
                raise
            except BaseException as e:  # noqa
                E.auto.append([tag, "raise", type(e).__name__])
                raise
            E.auto.append([tag, "ret", flatten(r)])
            return r

        return g

    E.call, E.callf, E.construct = wrap(orig_call, "call"), wrap(orig_callf, "callf"), wrap(orig_construct, "new")
    status = "ok"
    detail = ""
    try:
        ob.fn(E)
    except Reject:
        status = "rejected"
    except RecursionError as e:
        status = "escaped"
        detail = "RecursionError"
    except Exception as e:  # an exception escaping the real code that the contract did not catch
        status = "escaped"
        detail = "%s: %s" % (type(e).__name__, str(e)[:200])
        E.tb = traceback.format_exc()[-1500:]
    frame_ok = module_state(mod) == state_before
    return {"status": status, "detail": detail, "values": E.used, "choices": E.choices,
            "results": [[c, bool(r)] for c, r in E.results] + [[FRAME_CLAUSE, frame_ok]], "auto": E.auto,
            "obs": [[n, v] for n, v in E.observations], "tb": getattr(E, "tb", "")}


def main():
    repo = os.environ.get("VERIF_REPO", "/repo")
    sys.path.insert(0, repo)
    sys.path.insert(0, os.path.dirname(os.path.dirname(os.path.abspath(__file__))))
    sys.setrecursionlimit(3000)
    import svgelements.svgelements as mod
    from pyvc import registry

    registry.load_all()
    out = sys.stdout
    for line in sys.stdin:
        line = line.strip()
        if not line:
            continue
        req = json.loads(line)
        try:
            ob = registry.OBLIGATIONS[req["ob"]]
            if req["op"] == "sample":
                rng = random.Random("%s|%s" % (req.get("seed", 0), req["ob"]))
                got = []
                tries = 0
                while len(got) < req["n"] and tries < req["n"] * 40:
                    tries += 1
                    r = run_one(mod, ob, {}, None, rng)
                    if r["status"] != "rejected":
                        got.append(r)
                ans = {"ok": True, "runs": got, "tries": tries}
            else:
                rng = random.Random(0)
                r = run_one(mod, ob, req.get("values", {}), req.get("choices"), rng, req.get("tol"))
                ans = {"ok": True, "runs": [r]}
        except Exception as e:  # noqa
            ans = {"ok": False, "error": "%s: %s" % (type(e).__name__, e), "tb": traceback.format_exc()[-2000:]}
        out.write(json.dumps(ans, default=str) + "\n")
        out.flush()


if __name__ == "__main__":
    main()
