"""Additional back ends: cvc5 through SMT-LIB text, ackermannised nlsat."""
import subprocess
import tempfile
import os

import z3


def to_smt2(goal, logic=None):
    s = z3.Solver()
    for g in goal:
        s.add(g)
    txt = s.to_smt2()
    return txt


def cvc5_check(goal, timeout_ms):
    txt = to_smt2(goal)
    txt = txt.replace("(check-sat)", "(check-sat)\n")
    with tempfile.NamedTemporaryFile("w", suffix=".smt2", delete=False) as f:
        f.write("(set-logic ALL)\n" + txt)
        path = f.name
    try:
        p = subprocess.run(["/usr/bin/cvc5", "--tlimit=%d" % timeout_ms, "--nl-cov", path], capture_output=True,
                           text=True, timeout=timeout_ms / 1000.0 + 10)
        out = p.stdout.strip().splitlines()
        r = out[0] if out else "unknown"
        if r not in ("sat", "unsat"):
            r = "unknown"
        return r, None
    except subprocess.TimeoutExpired:
        return "unknown", None
    finally:
        os.unlink(path)


def ackermannize(goal):
    """replace every application of an uninterpreted function by a fresh real constant (the same application ->
    the same constant).  The result is weaker than the input (congruence is dropped), so `unsat` carries over."""
    cache = {}
    table = {}

    def walk(e):
        k = e.get_id()
        if k in cache:
            return cache[k]
        if z3.is_app(e):
            kids = [walk(c) for c in e.children()]
            d = e.decl()
            if d.kind() == z3.Z3_OP_UNINTERPRETED and e.num_args() > 0:
                key = (d.name(), tuple(str(z3.simplify(c)) for c in kids))
                if key not in table:
                    table[key] = z3.Real("ack!%s!%d" % (d.name(), len(table)))
                r = table[key]
            elif kids:
                r = d(*kids) if not z3.is_and(e) and not z3.is_or(e) else (z3.And(*kids) if z3.is_and(e) else z3.Or(*kids))
            else:
                r = e
        else:
            r = e
        cache[k] = r
        return r

    return [walk(g) for g in goal]
