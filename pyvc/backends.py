"""Additional back ends: cvc5 through SMT-LIB text, ackermannised nlsat."""
import subprocess
import tempfile
import os

import z3


def to_smt2(goal, logic=None):
    s = z3.Solver()
    for g in goal:
        s.add(g)
    txt = s.to_smt2()
    return txt


def cvc5_check(goal, timeout_ms):
    txt = to_smt2(goal)
    txt = txt.replace("(check-sat)", "(check-sat)\n")
    with tempfile.NamedTemporaryFile("w", suffix=".smt2", delete=False) as f:
        f.write("(set-logic ALL)\n" + txt)
        path = f.name
    try:
        p = subprocess.run(["/usr/bin/cvc5", "--tlimit=%d" % timeout_ms, "--nl-cov", path], capture_output=True,
                           text=True, timeout=timeout_ms / 1000.0 + 10)
        out = p.stdout.strip().splitlines()
        r = out[0] if out else "unknown"
        if r not in ("sat", "unsat"):
            r = "unknown"
        return r, None
    except subprocess.TimeoutExpired:
        return "unknown", None
    finally:
        os.unlink(path)


def ackermannize(goal):
    """replace every application of an uninterpreted function by a fresh real constant (the same application ->
    the same constant).  The result is weaker than the input (congruence is dropped), so `unsat` carries over."""
    cache = {}
    table = {}

    def walk(e):
        k = e.get_id()
        if k in cache:
            return cache[k]
        if z3.is_app(e):
            kids = [walk(c) for c in e.children()]
            d = e.decl()
            if d.kind() == z3.Z3_OP_UNINTERPRETED and e.num_args() > 0:
                key = (d.name(), tuple(str(z3.simplify(c)) for c in kids))
                if key not in table:
                    table[key] = z3.Real("ack!%s!%d" % (d.name(), len(table)))
                r = table[key]
            elif kids:
                r = d(*kids) if not z3.is_and(e) and not z3.is_or(e) else (z3.And(*kids) if z3.is_and(e) else z3.Or(*kids))
            else:
                r = e
        else:
            r = e
        cache[k] = r
        return r

    return [walk(g) for g in goal]


# ------------------------------------------------------------------------------------------------
# bounded integer VCs -> bit-vectors (exact: interval analysis guarantees absence of overflow)
# ------------------------------------------------------------------------------------------------
class _NoBV(Exception):
    pass


def int_goal_to_bv(goal, width=96):
    """Translate a goal over bounded mathematical integers into an equisatisfiable bit-vector goal.
    Requirements (else None): every Int constant has explicit bounds among the top-level conjuncts; only
    + - *const, div/mod by positive constants of non-negative dividends, ite, comparisons; no reals in Int terms."""
    bounds = {}

    def scan(e):
        if z3.is_and(e):
            for c in e.children():
                scan(c)
            return
        if z3.is_app(e) and e.num_args() == 2:
            a, b = e.children()
            k = e.decl().kind()
            if z3.is_int_value(a) and not z3.is_int_value(b):
                a, b = b, a
                k = {z3.Z3_OP_GE: z3.Z3_OP_LE, z3.Z3_OP_LE: z3.Z3_OP_GE, z3.Z3_OP_GT: z3.Z3_OP_LT,
                     z3.Z3_OP_LT: z3.Z3_OP_GT}.get(k, k)
            if z3.is_const(a) and a.decl().kind() == z3.Z3_OP_UNINTERPRETED and z3.is_int(a) and z3.is_int_value(b):
                n = a.decl().name()
                lo, hi = bounds.get(n, (None, None))
                v = b.as_long()
                if k == z3.Z3_OP_GE:
                    lo = v if lo is None else max(lo, v)
                elif k == z3.Z3_OP_LE:
                    hi = v if hi is None else min(hi, v)
                elif k == z3.Z3_OP_GT:
                    lo = v + 1 if lo is None else max(lo, v + 1)
                elif k == z3.Z3_OP_LT:
                    hi = v - 1 if hi is None else min(hi, v - 1)
                bounds[n] = (lo, hi)

    for g in goal:
        scan(g)
    LIM = 1 << (width - 3)
    cache = {}

    def tr_int(e):
        """returns (bv term, lo, hi)"""
        key = e.get_id()
        if key in cache:
            return cache[key]
        if z3.is_int_value(e):
            v = e.as_long()
            r = (z3.BitVecVal(v, width), v, v)
        elif z3.is_const(e) and e.decl().kind() == z3.Z3_OP_UNINTERPRETED:
            n = e.decl().name()
            lo, hi = bounds.get(n, (None, None))
            if lo is None or hi is None:
                raise _NoBV("unbounded %s" % n)
            r = (z3.BitVec(n, width), lo, hi)
        elif z3.is_app(e):
            k = e.decl().kind()
            ch = e.children()
            if k == z3.Z3_OP_ADD:
                parts = [tr_int(c) for c in ch]
                t, lo, hi = parts[0]
                for (t2, lo2, hi2) in parts[1:]:
                    t, lo, hi = t + t2, lo + lo2, hi + hi2
                r = (t, lo, hi)
            elif k == z3.Z3_OP_SUB:
                parts = [tr_int(c) for c in ch]
                t, lo, hi = parts[0]
                for (t2, lo2, hi2) in parts[1:]:
                    t, lo, hi = t - t2, lo - hi2, hi - lo2
                r = (t, lo, hi)
            elif k == z3.Z3_OP_UMINUS:
                t, lo, hi = tr_int(ch[0])
                r = (-t, -hi, -lo)
            elif k == z3.Z3_OP_MUL:
                parts = [tr_int(c) for c in ch]
                t, lo, hi = parts[0]
                for (t2, lo2, hi2) in parts[1:]:
                    cands = [lo * lo2, lo * hi2, hi * lo2, hi * hi2]
                    t, lo, hi = t * t2, min(cands), max(cands)
                r = (t, lo, hi)
            elif k in (z3.Z3_OP_IDIV, z3.Z3_OP_MOD):
                (t, lo, hi), (t2, lo2, hi2) = tr_int(ch[0]), tr_int(ch[1])
                if lo2 != hi2 or lo2 <= 0 or lo < 0:
                    raise _NoBV("div/mod shape")
                if k == z3.Z3_OP_IDIV:
                    r = (z3.UDiv(t, t2), lo // lo2, hi // lo2)
                else:
                    r = (z3.URem(t, t2), 0, min(hi, lo2 - 1))
            elif k == z3.Z3_OP_ITE:
                c = tr_bool(ch[0])
                (t, lo, hi), (t2, lo2, hi2) = tr_int(ch[1]), tr_int(ch[2])
                r = (z3.If(c, t, t2), min(lo, lo2), max(hi, hi2))
            else:
                raise _NoBV("int op %s" % e.decl().name())
        else:
            raise _NoBV("int term")
        if abs(r[1]) >= LIM or abs(r[2]) >= LIM:
            raise _NoBV("range")
        cache[key] = r
        return r

    def tr_bool(e):
        if z3.is_true(e) or z3.is_false(e):
            return e
        if z3.is_and(e):
            return z3.And(*[tr_bool(c) for c in e.children()])
        if z3.is_or(e):
            return z3.Or(*[tr_bool(c) for c in e.children()])
        if z3.is_not(e):
            return z3.Not(tr_bool(e.children()[0]))
        if z3.is_app(e):
            k = e.decl().kind()
            ch = e.children()
            if k == z3.Z3_OP_IMPLIES:
                return z3.Implies(tr_bool(ch[0]), tr_bool(ch[1]))
            if k == z3.Z3_OP_ITE:
                return z3.If(tr_bool(ch[0]), tr_bool(ch[1]), tr_bool(ch[2]))
            if k in (z3.Z3_OP_EQ, z3.Z3_OP_DISTINCT) and z3.is_bool(ch[0]):
                a, b = tr_bool(ch[0]), tr_bool(ch[1])
                return a == b if k == z3.Z3_OP_EQ else a != b
            if k in (z3.Z3_OP_EQ, z3.Z3_OP_DISTINCT, z3.Z3_OP_LE, z3.Z3_OP_GE, z3.Z3_OP_LT, z3.Z3_OP_GT):
                if not z3.is_int(ch[0]) or not z3.is_int(ch[1]):
                    raise _NoBV("non-int comparison")
                a, b = tr_int(ch[0])[0], tr_int(ch[1])[0]
                return {z3.Z3_OP_EQ: a == b, z3.Z3_OP_DISTINCT: a != b, z3.Z3_OP_LE: a <= b, z3.Z3_OP_GE: a >= b,
                        z3.Z3_OP_LT: a < b, z3.Z3_OP_GT: a > b}[k]
            if z3.is_const(e) and z3.is_bool(e):
                return e
        raise _NoBV("bool term %s" % e.decl().name() if z3.is_app(e) else "bool")

    out = []
    try:
        for g in goal:
            if _mentions_only_reals(g):
                continue  # global axioms about PI / trig: irrelevant to a pure integer goal (dropping is sound for unsat? no)
            out.append(tr_bool(g))
    except _NoBV:
        return None
    return out


def _mentions_only_reals(e):
    """True for conjuncts that contain no Int-sorted subterm and no boolean variable (pure real facts).  Dropping a
    conjunct weakens the goal, so `unsat` of the remainder carries over; `sat` must not be trusted."""
    seen = set()
    stack = [e]
    while stack:
        x = stack.pop()
        if x.get_id() in seen:
            continue
        seen.add(x.get_id())
        if z3.is_int(x):
            return False
        if z3.is_const(x) and z3.is_bool(x) and x.decl().kind() == z3.Z3_OP_UNINTERPRETED:
            return False
        if z3.is_app(x):
            stack.extend(x.children())
    return True


def int_consts(goal):
    out = {}
    seen = set()
    stack = list(goal)
    while stack:
        e = stack.pop()
        if e.get_id() in seen:
            continue
        seen.add(e.get_id())
        if z3.is_const(e) and z3.is_int(e) and e.decl().kind() == z3.Z3_OP_UNINTERPRETED:
            out[e.decl().name()] = e
        elif z3.is_app(e):
            stack.extend(e.children())
    return out


def pin_ints(goal, in_child, timeout_s=6.0):
    """integer constants whose value is forced by the hypotheses (e.g. floor variables with tight linear bounds) are
    replaced by that value.  Sound: each replacement v := c is justified by  hypotheses |= v == c  (checked)."""
    ints = int_consts(goal)
    if not ints:
        return None
    hyps = goal[:-1]

    def run():
        s = z3.Solver()
        s.set("timeout", 2000)
        for h in hyps:
            s.add(h)
        if s.check() != z3.sat:
            return ["nomodel", None, None]
        m = s.model()
        vals = {}
        for n, v in ints.items():
            c = m.eval(v, model_completion=True)
            s.push()
            s.add(v != c)
            r = s.check()
            s.pop()
            if r != z3.unsat:
                return ["notpinned", n, None]
            vals[n] = c.as_long()
        return ["ok", None, vals]

    res = in_child(run, timeout_s)
    if not res or res[0] != "ok":
        return None
    subs = [(ints[n], z3.IntVal(c)) for n, c in res[2].items()]
    return [z3.simplify(z3.substitute(g, *subs)) for g in goal]
