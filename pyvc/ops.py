"""Numeric / comparison / truth primitives of the interpreter (mixin)."""
import math
from fractions import Fraction

import z3

from .values import (SV, Obj, PList, PDict, PyFloat, F, FmtStr, Num, NOTIMPL, lift, to_real, to_int, to_bool,
                     sv_not, sv_and, sv_or, sv_ite, is_sym, coerce_pair)
from .engine import Undecided
from .interp import (PyRaise, ExcVal, EXC, ClassVal, BuiltinType, BT, is_number, is_float_val, is_int_val, RegexVal,
                     PyFunc, BoundMethod, Builtin, ExcClass)

ARITH_DUNDER = {"+": "add", "-": "sub", "*": "mul", "/": "truediv", "//": "floordiv", "%": "mod", "**": "pow",
                "@": "matmul", "<<": "lshift", ">>": "rshift", "&": "and", "|": "or", "^": "xor"}
CMP_DUNDER = {"==": "eq", "!=": "ne", "<": "lt", "<=": "le", ">": "gt", ">=": "ge"}
CMP_SWAP = {"==": "==", "!=": "!=", "<": ">", "<=": ">=", ">": "<", ">=": "<="}


def pw2(k):
    return 1 << k


class OpsMixin(object):
    # ------------------------------------------------------------------ helpers
    def raise_(self, name, *args):
        raise PyRaise(ExcVal(EXC[name], args))

    def make_exc(self, name, *args):
        return ExcVal(EXC[name], args)

    def unwrap_num(self, x):
        if isinstance(x, Obj) and x.num is not None:
            return x.num
        return x

    def concrete_float(self, x):
        """concrete number -> the engine's float representation"""
        if self.float_mode:
            return float(x)
        return F(x)

    # ------------------------------------------------------------------ truth
    def truth(self, v):
        if v is None or v is False:
            return False
        if v is True:
            return True
        if isinstance(v, SV):
            if v.kind == "bool":
                return self.E.decide(v)
            return self.E.decide(v != 0)
        if isinstance(v, (int, Fraction, float)):
            return v != 0
        if isinstance(v, (str, tuple, list)):
            return len(v) != 0
        if isinstance(v, FmtStr):
            return True if v.nums() else len(v.template()) != 0
        if isinstance(v, PList):
            return len(v.v) != 0
        if isinstance(v, PDict):
            return len(v.v) != 0
        if isinstance(v, Obj):
            if v.num is not None:
                return self.truth(v.num)
            m, _ = v.cls.lookup("__bool__")
            if m is not None:
                return self.truth(self.call_method(v, "__bool__"))
            m, _ = v.cls.lookup("__len__")
            if m is not None:
                return self.truth(self.py_ne(self.call_method(v, "__len__"), 0))
            if v.items is not None:
                return len(v.items.v) != 0
            return True
        if v is NOTIMPL:
            return True
        return True

    # ------------------------------------------------------------------ arithmetic
    def binop(self, op, a, b, inplace=False):
        if op == "%" and isinstance(a, (str, FmtStr)):
            return self.str_format(a, b)
        if isinstance(a, Obj) and a.num is None or isinstance(b, Obj) and b.num is None:
            return self.obj_binop(op, a, b, inplace)
        a = self.unwrap_num(a)
        b = self.unwrap_num(b)
        if a is None or b is None:
            self.raise_("TypeError", "unsupported operand type(s) for %s: %s and %s" % (op, tname(a), tname(b)))
        if is_number(a) and is_number(b):
            return self.num_binop(op, a, b)
        return self.seq_binop(op, a, b, inplace)

    def seq_binop(self, op, a, b, inplace):
        if op == "+":
            if isinstance(a, str) and isinstance(b, str):
                return a + b
            if isinstance(a, (str, FmtStr)) and isinstance(b, (str, FmtStr)):
                return FmtStr([a, b])
            if isinstance(a, tuple) and isinstance(b, tuple):
                return a + b
            if isinstance(a, PList) and isinstance(b, PList):
                if inplace:
                    a.v.extend(b.v)
                    self.log_write(a, None)
                    return a
                return PList(a.v + b.v)
            if isinstance(a, PList) and inplace:
                a.v.extend(self.iterate(b))
                self.log_write(a, None)
                return a
        if op == "*":
            if isinstance(a, (str, tuple)) and isinstance(b, int):
                return a * b
            if isinstance(b, (str, tuple)) and isinstance(a, int):
                return a * b
            if isinstance(a, PList) and isinstance(b, int):
                return PList(a.v * b)
            if isinstance(b, PList) and isinstance(a, int):
                return PList(b.v * a)
        if op == "%" and isinstance(a, (str, FmtStr)):
            return self.str_format(a, b)
        self.raise_("TypeError", "unsupported operand type(s) for %s: %s and %s" % (op, tname(a), tname(b)))

    def num_binop(self, op, a, b):
        sym = isinstance(a, SV) or isinstance(b, SV)
        if not sym:
            return self.conc_binop(op, a, b)
        A, B = lift(a), lift(b)
        if A.kind == "bool":
            A = to_int(A)
        if B.kind == "bool":
            B = to_int(B)
        both_int = A.kind == "int" and B.kind == "int"
        if op in ("+", "-", "*"):
            A, B = coerce_pair(A, B)
            t = {"+": A.t + B.t, "-": A.t - B.t, "*": A.t * B.t}[op]
            return SV(t)
        if op == "/":
            if self.E.implicit_raise(B == 0, "ZeroDivisionError"):
                self.raise_("ZeroDivisionError", "division by zero")
            return SV(to_real(A).t / to_real(B).t, "real")
        if op in ("//", "%"):
            if self.E.decide(B == 0):
                self.raise_("ZeroDivisionError", "modulo by zero")
            if both_int:
                # python floor semantics; z3 div/mod are euclidean: equal for positive divisors
                if isinstance(b, int) and b > 0:
                    return SV(A.t / B.t if op == "//" else A.t % B.t, "int")
                q = z3.If(B.t > 0, A.t / B.t, -((-A.t) / (-B.t)) if False else (-A.t) / (-B.t))
                # for negative divisor: floor(a/b) = floor((-a)/(-b)), (-b) > 0
                if op == "//":
                    return SV(q, "int")
                return SV(A.t - B.t * q, "int")
            Ar, Br = to_real(A), to_real(B)
            if not isinstance(b, SV) and b > 0:
                # floor(a/b) as a fresh integer with linear bounds (no ToInt term): q*b <= a < (q+1)*b
                key = (str(z3.simplify(Ar.t, som=True, sort_sums=True)), str(Br.t))
                qr = self.E.floor_cache.get(key)     # floor is a function: same arguments, same symbol
                if qr is None:
                    qi = self.E.fresh_int("floor")
                    qr = z3.ToReal(qi.t)
                    self.E.axiom(z3.And(qr * Br.t <= Ar.t, Ar.t < (qr + 1) * Br.t))
                    self.E.floor_cache[key] = qr
                q = qr
            else:
                q = z3.ToReal(z3.ToInt(Ar.t / Br.t))  # floor
            if op == "//":
                return SV(q, "real")
            return SV(Ar.t - Br.t * q, "real")
        if op == "**":
            if isinstance(b, int) and not isinstance(b, bool) and 0 <= b <= 6:
                r = None
                for _ in range(b):
                    r = A if r is None else SV(r.t * A.t)
                return r if r is not None else 1
            raise Undecided("symbolic power %r ** %r" % (a, b))
        if op in ("<<", ">>", "&", "|", "^"):
            return self.bit_binop(op, a, b)
        raise Undecided("binop %s on symbolic numbers" % op)

    def conc_binop(self, op, a, b):
        fl = is_float_val(a) or is_float_val(b)
        try:
            if op == "+":
                r = a + b
            elif op == "-":
                r = a - b
            elif op == "*":
                r = a * b
            elif op == "/":
                if b == 0:
                    self.raise_("ZeroDivisionError", "division by zero")
                if self.float_mode:
                    return float(a) / float(b)
                return F(Fraction(a) / Fraction(b))
            elif op == "//":
                if b == 0:
                    self.raise_("ZeroDivisionError", "division by zero")
                r = a // b
                if fl and not self.float_mode:
                    r = F(r)
            elif op == "%":
                if b == 0:
                    self.raise_("ZeroDivisionError", "modulo by zero")
                r = a % b
            elif op == "**":
                if isinstance(b, int) and not isinstance(b, bool):
                    if b < 0 and a == 0:
                        self.raise_("ZeroDivisionError", "0 to a negative power")
                    r = a ** b if b >= 0 or self.float_mode else Fraction(a) ** b
                    if b < 0 and not self.float_mode:
                        fl = True
                elif self.float_mode:
                    r = float(a) ** float(b)
                else:
                    raise Undecided("non-integer power %r ** %r" % (a, b))
            elif op in ("<<", ">>", "&", "|", "^"):
                if fl:
                    self.raise_("TypeError", "unsupported operand for %s: float" % op)
                a, b = int(a), int(b)
                r = {"<<": lambda: a << b, ">>": lambda: a >> b, "&": lambda: a & b, "|": lambda: a | b,
                     "^": lambda: a ^ b}[op]()
                return r
            else:
                raise Undecided("binop %s" % op)
        except PyRaise:
            raise
        except OverflowError:
            self.raise_("OverflowError", "overflow")
        if fl and not self.float_mode and not isinstance(r, PyFloat):
            r = F(r)
        if isinstance(r, bool):
            r = int(r)
        return r

    # integers with bit operations: exact translation into linear integer arithmetic where one operand
    # is a constant mask, bit-vectors (guarded by range conditions) otherwise.
    def bit_binop(self, op, a, b):
        A = lift(a)
        B = lift(b)
        if A.kind == "real" or B.kind == "real":
            self.raise_("TypeError", "unsupported operand for %s: float" % op)
        A, B = to_int(A), to_int(B)
        if op == "<<":
            if isinstance(b, int):
                if b < 0:
                    self.raise_("ValueError", "negative shift count")
                return SV(A.t * pw2(b), "int")
            raise Undecided("symbolic shift count")
        if op == ">>":
            if isinstance(b, int):
                if b < 0:
                    self.raise_("ValueError", "negative shift count")
                return SV(A.t / pw2(b), "int")  # euclidean div by positive = floor
            raise Undecided("symbolic shift count")
        if op == "&":
            if isinstance(b, int):
                return SV(mask_and(A.t, b), "int")
            if isinstance(a, int):
                return SV(mask_and(B.t, a), "int")
        if op == "|":
            # x | m  =  (x & ~m) + m   for a constant m
            if isinstance(b, int):
                return SV(mask_and(A.t, ~b) + b, "int")
            if isinstance(a, int):
                return SV(mask_and(B.t, ~a) + a, "int")
        if op == "^":
            if isinstance(b, int):
                return SV(mask_and(A.t, ~b) + mask_and(~A.t if False else (-A.t - 1), b), "int")
        # both symbolic: exact when the operands provably occupy disjoint bit ranges (x | y == x + y, x & y == 0)
        ra, rb = self.bit_range(A), self.bit_range(B)
        if ra is not None and rb is not None:
            (ka, ma), (kb, mb) = ra, rb
            if ma <= kb or mb <= ka:
                if op in ("|", "^"):
                    return SV(A.t + B.t, "int")
                return 0
        # one operand confined to a window [k, m) in which the other has only zero bits
        for (X, rx, Y) in ((A, ra, B), (B, rb, A)):
            if rx is None:
                continue
            k, m = rx
            if self.entails(SV((Y.t / pw2(k)) % pw2(m - k) == 0, "bool")):
                if op in ("|", "^"):
                    return SV(A.t + B.t, "int")
                return 0
        raise Undecided("bit operation %s on two symbolic integers whose bit ranges are not provably disjoint" % op)

    def entails(self, cond):
        import z3 as _z3

        c = to_bool(cond).t
        return not self.E._feasible(_z3.Not(c))

    def bit_range(self, X):
        """(k, m): X is a multiple of 2^k and 0 <= X < 2^m under the current path condition (None if unknown)"""
        m = None
        for cand in (8, 16, 24, 32, 40, 48, 56, 62):
            if self.entails(SV(z3.And(X.t >= 0, X.t < pw2(cand)), "bool")):
                m = cand
                break
        if m is None:
            return None
        k = 0
        for cand in (56, 48, 40, 32, 24, 16, 8):
            if cand < m and self.entails(SV(X.t % pw2(cand) == 0, "bool")):
                k = cand
                break
        return (k, m)

    def unop(self, op, a):
        if isinstance(a, Obj) and a.num is None:
            name = {"-": "__neg__", "+": "__pos__", "~": "__invert__"}[op]
            m, _ = a.cls.lookup(name)
            if m is None:
                self.raise_("TypeError", "bad operand type for unary %s" % op)
            return self.call_method(a, name)
        a = self.unwrap_num(a)
        if not is_number(a):
            self.raise_("TypeError", "bad operand type for unary %s: %s" % (op, tname(a)))
        if op == "-":
            if isinstance(a, SV):
                return SV(-(to_int(a).t if a.kind == "bool" else a.t))
            r = -a
            return F(r) if isinstance(a, PyFloat) else r
        if op == "+":
            return a
        if op == "~":
            if isinstance(a, SV):
                return SV(-to_int(a).t - 1, "int")
            return ~int(a)
        raise Undecided("unary %s" % op)

    def obj_binop(self, op, a, b, inplace):
        dn = ARITH_DUNDER[op]
        if inplace and isinstance(a, Obj):
            m, _ = a.cls.lookup("__i%s__" % dn)
            if m is not None:
                r = self.call_method(a, "__i%s__" % dn, b)
                if r is not NOTIMPL:
                    return r
        if isinstance(a, Obj) and a.num is None:
            m, _ = a.cls.lookup("__%s__" % dn)
            if m is not None:
                r = self.call_method(a, "__%s__" % dn, b)
                if r is not NOTIMPL:
                    return r
            elif a.items is not None and op == "+" and inplace:
                a.items.v.extend(self.iterate(b))
                return a
        if isinstance(b, Obj) and b.num is None:
            m, _ = b.cls.lookup("__r%s__" % dn)
            if m is not None:
                r = self.call_method(b, "__r%s__" % dn, a)
                if r is not NOTIMPL:
                    return r
        self.raise_("TypeError", "unsupported operand type(s) for %s: %s and %s" % (op, tname(a), tname(b)))

    # ------------------------------------------------------------------ comparison
    def compare(self, op, a, b):
        if op == "is":
            return self.py_is(a, b)
        if op == "is not":
            return not self.py_is(a, b)
        if op == "in":
            return self.contains(b, a)
        if op == "not in":
            r = self.contains(b, a)
            return sv_not(r)
        if op == "==":
            return self.py_eq(a, b)
        if op == "!=":
            return self.py_ne(a, b)
        return self.py_order(op, a, b)

    def py_is(self, a, b):
        if a is None or b is None:
            return a is b
        if isinstance(a, bool) or isinstance(b, bool):
            return a is b
        if isinstance(a, (Obj, PList, PDict, ClassVal, BuiltinType, PyFunc)) or isinstance(
                b, (Obj, PList, PDict, ClassVal, BuiltinType, PyFunc)):
            return a is b
        if isinstance(a, str) and isinstance(b, str):
            return a == b
        if a is NOTIMPL or b is NOTIMPL:
            return a is b
        return a is b

    def py_eq(self, a, b):
        """python == ; returns bool or SV bool"""
        if isinstance(a, Obj) and a.num is None:
            m, _ = a.cls.lookup("__eq__")
            if m is not None:
                r = self.call_method(a, "__eq__", b)
                if r is not NOTIMPL:
                    return r
            if isinstance(b, Obj) and b.num is None and b.cls is not a.cls:
                m, _ = b.cls.lookup("__eq__")
                if m is not None:
                    r = self.call_method(b, "__eq__", a)
                    if r is not NOTIMPL:
                        return r
            if a.items is not None and isinstance(b, Obj) and b.items is not None and m is None:
                return self.py_eq(a.items, b.items)
            return a is b
        if isinstance(b, Obj) and b.num is None:
            m, _ = b.cls.lookup("__eq__")
            if m is not None:
                r = self.call_method(b, "__eq__", a)
                if r is not NOTIMPL:
                    return r
            return False
        if isinstance(a, Obj) and a.num is not None:
            m, _ = a.cls.lookup("__eq__")
            if m is not None:
                return self.call_method(a, "__eq__", b)
            a = a.num
        if isinstance(b, Obj) and b.num is not None:
            m, _ = b.cls.lookup("__eq__")
            if m is not None:
                return self.call_method(b, "__eq__", a)
            b = b.num
        if a is None or b is None:
            return a is b
        if is_number(a) and is_number(b):
            if isinstance(a, SV) or isinstance(b, SV):
                A, B = lift(a), lift(b)
                if A.kind == "bool" and B.kind == "bool":
                    return SV(A.t == B.t, "bool")
                A, B = coerce_pair(to_int(A) if A.kind == "bool" else A, to_int(B) if B.kind == "bool" else B)
                return SV(A.t == B.t, "bool")
            return a == b
        if isinstance(a, str) and isinstance(b, str):
            return a == b
        if isinstance(a, (str, FmtStr)) and isinstance(b, (str, FmtStr)):
            return self.fmt_eq(a, b)
        if isinstance(a, tuple) and isinstance(b, tuple):
            if len(a) != len(b):
                return False
            return sv_and(*[self.py_eq(x, y) for x, y in zip(a, b)])
        if isinstance(a, PList) and isinstance(b, PList):
            if len(a.v) != len(b.v):
                return False
            return sv_and(*[self.py_eq(x, y) for x, y in zip(a.v, b.v)])
        if isinstance(a, PDict) and isinstance(b, PDict):
            if set(a.v) != set(b.v):
                return False
            return sv_and(*[self.py_eq(a.v[k], b.v[k]) for k in a.v])
        if type(a) is not type(b):
            return False if not (a is b) else True
        return a is b or a == b

    def fmt_eq(self, a, b):
        fa = a if isinstance(a, FmtStr) else FmtStr([a])
        fb = b if isinstance(b, FmtStr) else FmtStr([b])
        if not fa.nums() and not fb.nums():
            return fa.template() == fb.template()
        for x, y in ((fa, fb), (fb, fa)):
            if not x.nums() and y.nums() and not any(ch.isdigit() for ch in x.template()):
                return False  # a numeral contains a digit (A1 excludes inf/nan); the other text has none
        if fa.template() == fb.template() and len(fa.nums()) == len(fb.nums()):
            conds = []
            for x, y in zip(fa.nums(), fb.nums()):
                if x.fmt != y.fmt:
                    raise Undecided("comparison of differently formatted numerals")
                conds.append(self.py_eq(x.value, y.value))
            # equal values print equally; different values may print equally too (rounding): undecidable
            r = sv_and(*conds)
            if r is True:
                return True
            raise Undecided("equality of formatted strings with symbolic numerals")
        raise Undecided("equality of formatted strings %r %r" % (a, b))

    def py_ne(self, a, b):
        if isinstance(a, Obj) and a.num is None:
            m, _ = a.cls.lookup("__ne__")
            if m is not None:
                r = self.call_method(a, "__ne__", b)
                if r is not NOTIMPL:
                    return r
        r = self.py_eq(a, b)
        if isinstance(r, SV):
            return sv_not(r)
        if r is NOTIMPL:
            return True
        return not self.truth(r) if not isinstance(r, bool) else not r

    def py_order(self, op, a, b):
        if isinstance(a, Obj) and a.num is None:
            m, _ = a.cls.lookup("__%s__" % CMP_DUNDER[op])
            if m is not None:
                r = self.call_method(a, "__%s__" % CMP_DUNDER[op], b)
                if r is not NOTIMPL:
                    return r
        if isinstance(b, Obj) and b.num is None:
            sw = CMP_SWAP[op]
            m, _ = b.cls.lookup("__%s__" % CMP_DUNDER[sw])
            if m is not None:
                r = self.call_method(b, "__%s__" % CMP_DUNDER[sw], a)
                if r is not NOTIMPL:
                    return r
        a, b = self.unwrap_num(a), self.unwrap_num(b)
        if is_number(a) and is_number(b):
            if isinstance(a, SV) or isinstance(b, SV):
                A, B = lift(a), lift(b)
                A, B = coerce_pair(to_int(A) if A.kind == "bool" else A, to_int(B) if B.kind == "bool" else B)
                t = {"<": A.t < B.t, "<=": A.t <= B.t, ">": A.t > B.t, ">=": A.t >= B.t}[op]
                return SV(t, "bool")
            return {"<": a < b, "<=": a <= b, ">": a > b, ">=": a >= b}[op]
        if isinstance(a, str) and isinstance(b, str):
            return {"<": a < b, "<=": a <= b, ">": a > b, ">=": a >= b}[op]
        if isinstance(a, tuple) and isinstance(b, tuple) and all(not is_sym(x) for x in a + b):
            return {"<": a < b, "<=": a <= b, ">": a > b, ">=": a >= b}[op]
        self.raise_("TypeError", "'%s' not supported between instances of %s and %s" % (op, tname(a), tname(b)))

    def contains(self, container, item):
        if isinstance(container, str):
            if isinstance(item, str):
                return item in container
            self.raise_("TypeError", "'in <string>' requires string as left operand")
        if isinstance(container, FmtStr):
            if isinstance(item, str):
                tmpl = container.template()
                if item in tmpl.replace("\x00", ""):
                    # conservative: literal text containing it
                    for piece in tmpl.split("\x00"):
                        if item in piece:
                            return True
                if item == "." and any(("f" in n.fmt and not n.stripped) for n in container.nums()):
                    return True
                if item in (".", "E", "e") and len(container.parts) == 1 and container.nums() and \
                        container.nums()[0].fmt.endswith("G"):
                    # a %G numeral may or may not contain a dot / an exponent; the representative spelling is the
                    # fixed-point one with a fractional part (A5: the branches taken on the spelling only strip
                    # zeros, which does not change the value the numeral denotes)
                    return item == "."
                if item == "." and any(n.stripped for n in container.nums()):
                    raise Undecided("'.' in stripped numeral")
                for piece in tmpl.split("\x00"):
                    if item in piece:
                        return True
                if all(c.isalpha() or c in "( " for c in item):
                    return False  # numerals contain no letters other than e/E/inf/nan (A5)
                raise Undecided("%r in formatted string" % item)
        if isinstance(container, PDict):
            if isinstance(item, (SV,)):
                raise Undecided("symbolic dict key")
            return item in container.v
        if isinstance(container, (tuple, PList)) or (isinstance(container, Obj) and container.items is not None):
            seq = container if isinstance(container, tuple) else (
                container.v if isinstance(container, PList) else container.items.v)
            res = []
            for e in seq:
                if e is item and not isinstance(e, SV):
                    return True
                r = self.py_eq(item, e)
                if r is True:
                    return True
                if r is False or r is NOTIMPL:
                    continue
                res.append(r)
            return sv_or(*res) if res else False
        if isinstance(container, Obj):
            m, _ = container.cls.lookup("__contains__")
            if m is not None:
                return self.call_method(container, "__contains__", item)
            for e in self.iterate(container):
                r = self.py_eq(item, e)
                if self.truth(r):
                    return True
            return False
        if isinstance(container, (set, frozenset)):
            return item in container
        self.raise_("TypeError", "argument of type %s is not iterable" % tname(container))


def mask_and(x, m):
    """x & m for a z3 Int x and a python int constant m, exact for all integers x."""
    if m == 0:
        return z3.IntVal(0)
    if m == -1:
        return x
    total = None
    # positive part: runs of ones in the (finite) low part
    neg = m < 0
    bits = m if not neg else m  # python ints are two's complement with infinite sign extension
    lo = 0
    limit = max(m.bit_length(), 1) + 1
    runs = []
    i = 0
    while i < limit:
        if (m >> i) & 1:
            j = i
            while j < limit and (m >> j) & 1:
                j += 1
            runs.append((i, j))
            i = j
        else:
            i += 1
    for (i, j) in runs:
        if j >= limit and neg:
            term = (x / pw2(i)) * pw2(i)  # all bits from i upwards
        else:
            term = ((x / pw2(i)) % pw2(j - i)) * pw2(i)
        total = term if total is None else total + term
    return total if total is not None else z3.IntVal(0)


def tname(x):
    if x is None:
        return "NoneType"
    if isinstance(x, Obj):
        return x.cls.name
    if isinstance(x, SV):
        return {"int": "int", "real": "float", "bool": "bool"}[x.kind]
    if isinstance(x, PyFloat):
        return "float"
    if isinstance(x, PList):
        return "list"
    if isinstance(x, PDict):
        return "dict"
    if isinstance(x, FmtStr):
        return "str"
    return type(x).__name__
