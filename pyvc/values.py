"""Value domain of the symbolic executor.

Concrete numbers:  Python int / bool, PyFloat (exact rational standing for a Python float,
                   assumption A1: floats are reals), or - in the concrete differential mode - real
                   Python floats.
Symbolic numbers:  SV wrapping a z3 term of sort Int, Real or Bool.
Heap values:       Obj (instance of an extracted class), PList, PDict; tuples are Python tuples.
Text:              Python str, or FmtStr (a formatted string with opaque numerals).
"""
from fractions import Fraction
import itertools

try:  # z3 only exists in the tooling venv; the concrete engine never needs it
    import z3
except ImportError:  # pragma: no cover
    z3 = None


class PyFloat(Fraction):
    """An exact rational that stands for a Python float (isinstance(x, float) is True)."""

    __slots__ = ()

    def __repr__(self):
        return "F(%s)" % Fraction.__str__(self)

    __str__ = __repr__


def F(x):
    if isinstance(x, PyFloat):
        return x
    if isinstance(x, float):
        return PyFloat(Fraction(repr(x)) if x == x and abs(x) != float("inf") else Fraction(0))
    return PyFloat(x)


_counter = itertools.count()


def fresh_name(prefix):
    return "%s!%d" % (prefix, next(_counter))


def reset_names():
    global _counter
    _counter = itertools.count()


class SV(object):
    """Symbolic value: z3 term + python-level kind ('int', 'real', 'bool')."""

    __slots__ = ("t", "kind")

    def __init__(self, t, kind=None):
        self.t = t
        if kind is None:
            s = t.sort().kind()
            kind = {z3.Z3_INT_SORT: "int", z3.Z3_REAL_SORT: "real", z3.Z3_BOOL_SORT: "bool"}[s]
        self.kind = kind

    def __repr__(self):
        return "SV(%s)" % (self.t,)

    __hash__ = object.__hash__

    # -- arithmetic (no forking here: used by spec code; the interpreter wraps these) --------
    def _bin(self, other, f, swap=False):
        a, b = lift(self), lift(other)
        if a is NotImplemented or b is NotImplemented:
            return NotImplemented
        if swap:
            a, b = b, a
        a, b = coerce_pair(a, b)
        return SV(z3.simplify(f(a.t, b.t)) if False else f(a.t, b.t))

    def __add__(self, o):
        return self._bin(o, lambda x, y: x + y)

    def __radd__(self, o):
        return self._bin(o, lambda x, y: x + y, True)

    def __sub__(self, o):
        return self._bin(o, lambda x, y: x - y)

    def __rsub__(self, o):
        return self._bin(o, lambda x, y: x - y, True)

    def __mul__(self, o):
        return self._bin(o, lambda x, y: x * y)

    def __rmul__(self, o):
        return self._bin(o, lambda x, y: x * y, True)

    def __truediv__(self, o):
        a, b = lift(self), lift(o)
        if b is NotImplemented:
            return NotImplemented
        return SV(to_real(a).t / to_real(b).t)

    def __rtruediv__(self, o):
        a, b = lift(o), lift(self)
        if a is NotImplemented:
            return NotImplemented
        return SV(to_real(a).t / to_real(b).t)

    def __floordiv__(self, o):
        if isinstance(o, int) and o > 0 and self.kind == "int":
            return SV(self.t / o, "int")  # z3 integer division is euclidean: floor for a positive divisor
        return NotImplemented

    def __mod__(self, o):
        if isinstance(o, int) and o > 0 and self.kind == "int":
            return SV(self.t % o, "int")
        return NotImplemented

    def __neg__(self):
        return SV(-self.t)

    def __pos__(self):
        return self

    def __abs__(self):
        return SV(z3.If(self.t >= 0, self.t, -self.t))

    def __pow__(self, n):
        if isinstance(n, int) and not isinstance(n, bool) and 0 <= n <= 8:
            r = None
            for _ in range(n):
                r = self if r is None else r * self
            return r if r is not None else 1
        return NotImplemented

    # -- comparisons -------------------------------------------------------------------------
    def __eq__(self, o):
        if o is None:
            return False
        if self.kind == "bool":
            b = lift(o)
            if b is NotImplemented:
                return False
            return SV(self.t == to_bool(b).t)
        return self._bin(o, lambda x, y: x == y)

    def __ne__(self, o):
        r = self.__eq__(o)
        if r is NotImplemented:
            return r
        return sv_not(r)

    def __lt__(self, o):
        return self._bin(o, lambda x, y: x < y)

    def __le__(self, o):
        return self._bin(o, lambda x, y: x <= y)

    def __gt__(self, o):
        return self._bin(o, lambda x, y: x > y)

    def __ge__(self, o):
        return self._bin(o, lambda x, y: x >= y)

    # -- truth value: a decision of the current path -------------------------------------------
    def __bool__(self):
        from . import engine

        return engine.current().decide(self)

    # logical helpers usable from spec code
    def __and__(self, o):
        return sv_and(self, o)

    def __rand__(self, o):
        return sv_and(o, self)

    def __or__(self, o):
        return sv_or(self, o)

    def __ror__(self, o):
        return sv_or(o, self)

    def __invert__(self):
        return sv_not(self)


def is_sym(x):
    return isinstance(x, SV)


def lift(x):
    """python number / SV -> SV (NotImplemented for non numbers)."""
    if isinstance(x, SV):
        return x
    if isinstance(x, bool):
        return SV(z3.BoolVal(x), "bool")
    if isinstance(x, int):
        return SV(z3.IntVal(x), "int")
    if isinstance(x, Fraction):
        return SV(z3.RealVal(str(Fraction(x))), "real")
    if isinstance(x, float):
        return SV(z3.RealVal(str(Fraction(repr(x)))), "real")
    return NotImplemented


def to_real(a):
    a = lift(a)
    if a.kind == "real":
        return a
    if a.kind == "int":
        if z3.is_int_value(a.t):
            return SV(z3.RealVal(a.t.as_long()), "real")
        return SV(z3.ToReal(a.t), "real")
    return SV(z3.If(a.t, z3.RealVal(1), z3.RealVal(0)), "real")


def to_int(a):
    a = lift(a)
    if a.kind == "int":
        return a
    if a.kind == "bool":
        return SV(z3.If(a.t, z3.IntVal(1), z3.IntVal(0)), "int")
    raise TypeError("real used as int")


def to_bool(a):
    a = lift(a)
    if a.kind == "bool":
        return a
    if a.kind == "int":
        return SV(a.t != 0, "bool")
    return SV(a.t != 0, "bool")


def coerce_pair(a, b):
    if a.kind == b.kind and a.kind != "bool":
        return a, b
    if a.kind == "real" or b.kind == "real":
        return to_real(a), to_real(b)
    return to_int(a), to_int(b)


def sv_not(a):
    if isinstance(a, bool):
        return not a
    return SV(z3.Not(to_bool(a).t), "bool")


def sv_and(*xs):
    ts = []
    for x in xs:
        if isinstance(x, (list, tuple)):
            x = sv_and(*x)
        if x is True:
            continue
        if x is False:
            return False
        ts.append(to_bool(x).t)
    if not ts:
        return True
    return SV(z3.And(*ts) if len(ts) > 1 else ts[0], "bool")


def sv_or(*xs):
    ts = []
    for x in xs:
        if isinstance(x, (list, tuple)):
            x = sv_or(*x)
        if x is False:
            continue
        if x is True:
            return True
        ts.append(to_bool(x).t)
    if not ts:
        return False
    return SV(z3.Or(*ts) if len(ts) > 1 else ts[0], "bool")


def sv_implies(a, b):
    return sv_or(sv_not(a), b)


def sv_ite(c, a, b):
    if isinstance(c, bool):
        return a if c else b
    a2, b2 = lift(a), lift(b)
    if a2 is NotImplemented or b2 is NotImplemented:
        raise TypeError("ite over non-numbers")
    if a2.kind == "bool" and b2.kind == "bool":
        return SV(z3.If(c.t, a2.t, b2.t), "bool")
    a2, b2 = coerce_pair(a2, b2)
    return SV(z3.If(to_bool(c).t, a2.t, b2.t))


# ------------------------------------------------------------------------------------------------
# heap values
# ------------------------------------------------------------------------------------------------
_serial = itertools.count(1)


def next_serial():
    return next(_serial)


class Obj(object):
    """Instance of an extracted class.  Fields live in .fd; attribute sugar is for spec code."""

    __slots__ = ("cls", "fd", "serial", "num", "items")

    def __init__(self, cls):
        object.__setattr__(self, "cls", cls)
        object.__setattr__(self, "fd", {})
        object.__setattr__(self, "serial", next_serial())
        object.__setattr__(self, "num", None)  # value of a float-derived instance (Angle)
        object.__setattr__(self, "items", None)  # PList of a list-derived instance (Group, Use)

    def __repr__(self):
        return "<%s#%d %s>" % (self.cls.name, self.serial, self.fd if self.num is None else self.num)

    # spec-code sugar: obj.x reads the field / property through the interpreter
    def __getattr__(self, name):
        if name.startswith("__"):
            raise AttributeError(name)
        from . import engine

        return engine.current().interp.getattr(self, name)

    def __setattr__(self, name, value):
        from . import engine

        engine.current().interp.setattr(self, name, value)

    def __getitem__(self, i):
        from . import engine

        return engine.current().interp.subscript(self, i)

    def __iter__(self):
        from . import engine

        return iter(engine.current().interp.iterate(self))

    def __len__(self):
        from . import engine

        return engine.current().interp.call_builtin_len(self)

    __hash__ = object.__hash__

    def __eq__(self, other):
        return self is other


class PList(object):
    __slots__ = ("v", "serial")

    def __init__(self, v=None):
        self.v = list(v) if v is not None else []
        self.serial = next_serial()

    def __repr__(self):
        return "PList(%r)" % (self.v,)

    def __iter__(self):
        return iter(list(self.v))

    def __len__(self):
        return len(self.v)

    def __getitem__(self, i):
        return self.v[i]


class PDict(object):
    __slots__ = ("v", "serial")

    def __init__(self, v=None):
        self.v = dict(v) if v is not None else {}
        self.serial = next_serial()

    def __repr__(self):
        return "PDict(%r)" % (self.v,)


class Num(object):
    """An opaque numeral inside a FmtStr: the text of `value` printed with `fmt`."""

    __slots__ = ("value", "fmt", "stripped")

    def __init__(self, value, fmt, stripped=False):
        self.value = value
        self.fmt = fmt
        self.stripped = stripped

    def __repr__(self):
        return "N<%s:%s>" % (self.fmt, self.value)


class FmtStr(object):
    """A string some of whose pieces are numerals of symbolic numbers."""

    __slots__ = ("parts",)

    def __init__(self, parts):
        out = []
        for p in parts:
            if isinstance(p, FmtStr):
                ps = p.parts
            else:
                ps = [p]
            for q in ps:
                if isinstance(q, str):
                    if q == "":
                        continue
                    if out and isinstance(out[-1], str):
                        out[-1] = out[-1] + q
                        continue
                out.append(q)
        self.parts = out

    def __repr__(self):
        return "FmtStr(%r)" % (self.parts,)

    def placeholder(self):
        """(text, {placeholder key: Num}): the representative spelling used for regex matching, len() and
        positions: numeral i is written as the digits 9<i:04d>7 (A5: numeral-spelling independence)"""
        out, holder = [], {}
        for part in self.parts:
            if isinstance(part, str):
                out.append(part)
            else:
                key = "9%04d7" % (len(holder) + 1)
                holder[key] = part
                out.append(key)
        return "".join(out), holder

    def template(self):
        return "".join(p if isinstance(p, str) else "\x00" for p in self.parts)

    def nums(self):
        return [p for p in self.parts if not isinstance(p, str)]


class NotImpl(object):
    def __repr__(self):
        return "NotImplemented"


NOTIMPL = NotImpl()
