"""Bounded stand-ins (label B): run-time contract checks of the REAL code on finite, stated families.

Each check is a function registered with @bounded(name, props) in /verif/bounded/*.py with signature
fn(mod, tier, seed) -> dict(evaluations, distinct_nontrivial, rule, bound, failures, samples[, exhaustive]).
They run under /venv/bin/python (real svgelements from $VERIF_REPO, no numpy) one subprocess per check.
They are reported separately and never counted as proved.
"""
import importlib
import json
import os
import pkgutil
import subprocess
import sys
import time

VERIF = os.path.dirname(os.path.dirname(os.path.abspath(__file__)))
BOUNDED = {}
ORDER = []


def bounded(name, props, replay=None):
    def deco(fn):
        BOUNDED[name] = {"name": name, "props": list(props), "fn": fn, "replay": replay}
        ORDER.append(name)
        return fn

    return deco


_loaded = False


def load_all():
    global _loaded
    if _loaded:
        return
    _loaded = True
    import bounded as pkg

    for m in sorted(pkgutil.iter_modules(pkg.__path__), key=lambda m: m.name):
        if not m.name.startswith("_"):
            importlib.import_module("bounded." + m.name)


def names_for(pid):
    # names are discovered in a /venv subprocess-free way: importing the modules only registers functions
    load_all()
    return [n for n in ORDER if pid in BOUNDED[n]["props"]]


def _spawn(name, tier, seed, op="run", payload=None):
    env = dict(os.environ)
    env["VERIF_REPO"] = os.environ.get("VERIF_REPO", "/repo")
    env["PYTHONPATH"] = VERIF
    return subprocess.Popen(["/venv/bin/python", "-m", "pyvc.bounded", op, name, tier, str(seed)], cwd=VERIF, env=env,
                            stdin=subprocess.PIPE, stdout=subprocess.PIPE, stderr=subprocess.PIPE, text=True)


def run_for_property(pid, tier, seed, limit_s=None):
    names = names_for(pid)
    procs = [(n, time.time(), _spawn(n, tier, seed)) for n in names]
    out = []
    for n, t0, p in procs:
        try:
            so, se = p.communicate(timeout=limit_s or (900 if tier == "quick" else 7200))
            rec = json.loads(so.strip().splitlines()[-1]) if so.strip() else {"status": "fault", "error": se[-1500:]}
        except subprocess.TimeoutExpired:
            p.kill()
            rec = {"status": "fault", "error": "bounded check timed out"}
        except Exception as e:  # noqa
            rec = {"status": "fault", "error": "%s: %s" % (type(e).__name__, e)}
        rec["name"] = n
        rec.setdefault("status", "ok")
        rec["wall_s"] = round(time.time() - t0, 2)
        out.append(rec)
    return out


def replay(payload):
    p = _spawn(payload["bounded_check"], "quick", 0, "replay")
    so, se = p.communicate(json.dumps(payload["witness"]), timeout=600)
    try:
        return json.loads(so.strip().splitlines()[-1])
    except Exception:
        return {"reproduced": False, "error": se[-1000:]}


def _main():
    # when started as `python -m pyvc.bounded` this file is module __main__; the checks register themselves in the
    # importable module pyvc.bounded, so delegate to that copy
    import pyvc.bounded as real

    return real._main_impl()


def _main_impl():
    op, name, tier, seed = sys.argv[1], sys.argv[2], sys.argv[3], int(sys.argv[4])
    sys.path.insert(0, os.environ.get("VERIF_REPO", "/repo"))
    sys.setrecursionlimit(3000)
    import svgelements.svgelements as mod

    load_all()
    b = BOUNDED[name]
    if op == "replay":
        w = json.loads(sys.stdin.read())
        if b["replay"] is None:
            print(json.dumps({"reproduced": False, "error": "no replay function"}))
            return
        try:
            res = b["replay"](mod, w)
        except KeyError:
            # some replay functions take the input record itself, the failure record nests it under "input"
            if isinstance(w, dict) and isinstance(w.get("input"), dict):
                res = b["replay"](mod, w["input"])
            else:
                raise
        print(json.dumps(res, default=str))
        return
    try:
        r = b["fn"](mod, tier, seed)
        r.setdefault("status", "ok")
    except Exception as e:  # noqa
        import traceback

        r = {"status": "fault", "error": "%s: %s\n%s" % (type(e).__name__, e, traceback.format_exc()[-1500:])}
    print(json.dumps(r, default=str))


if __name__ == "__main__":
    _main()
