"""AST interpreter over the value domain of values.py (part 1: data model).

The interpreter executes the *real* ast.FunctionDef nodes of svgelements.py.  Everything that is
not modelled raises engine.Undecided, which makes the obligation undecided (never passed).
"""
import ast
import math
from fractions import Fraction

from .values import (SV, Obj, PList, PDict, PyFloat, F, FmtStr, Num, NOTIMPL, lift, to_real, to_int, to_bool,
                     sv_not, sv_and, sv_or, sv_ite, is_sym)
from .engine import Undecided, PathAbort


class PyRaise(Exception):
    """A Python exception travelling through interpreted code."""

    def __init__(self, exc):
        Exception.__init__(self, repr(exc))
        self.exc = exc


class ReturnEx(Exception):
    def __init__(self, value):
        self.value = value


class BreakEx(Exception):
    pass


class ContinueEx(Exception):
    pass


class ExcClass(object):
    def __init__(self, name, bases):
        self.name = name
        self.bases = bases

    def mro(self):
        out = [self]
        for b in self.bases:
            for c in b.mro():
                if c not in out:
                    out.append(c)
        return out

    def __repr__(self):
        return "<exc %s>" % self.name


class ExcVal(object):
    def __init__(self, cls, args=()):
        self.cls = cls
        self.args = tuple(args)

    def __repr__(self):
        return "%s%r" % (self.cls.name, self.args)


def _mk_exc_classes():
    d = {}

    def mk(name, *bases):
        d[name] = ExcClass(name, [d[b] for b in bases])

    mk("BaseException")
    mk("Exception", "BaseException")
    mk("ArithmeticError", "Exception")
    mk("ZeroDivisionError", "ArithmeticError")
    mk("OverflowError", "ArithmeticError")
    mk("LookupError", "Exception")
    mk("IndexError", "LookupError")
    mk("KeyError", "LookupError")
    mk("ValueError", "Exception")
    mk("TypeError", "Exception")
    mk("AttributeError", "Exception")
    mk("ImportError", "Exception")
    mk("ModuleNotFoundError", "ImportError")
    mk("StopIteration", "Exception")
    mk("RuntimeError", "Exception")
    mk("NotImplementedError", "RuntimeError")
    mk("RecursionError", "RuntimeError")
    mk("AssertionError", "Exception")
    mk("NameError", "Exception")
    return d


EXC = _mk_exc_classes()


class BuiltinType(object):
    """int, float, str, ... as class objects."""

    def __init__(self, name):
        self.name = name

    def __repr__(self):
        return "<type %s>" % self.name


BT = {n: BuiltinType(n) for n in ("int", "float", "str", "bool", "list", "tuple", "dict", "complex", "object",
                                  "set", "slice", "MutableSequence", "type")}


class ClassVal(object):
    def __init__(self, name, bases, ns, qual=None):
        self.name = name
        self.bases = bases  # ClassVal or BuiltinType
        self.ns = ns
        self.qual = qual or name
        self._mro = None

    def mro(self):
        if self._mro is None:
            seqs = []
            for b in self.bases:
                if isinstance(b, ClassVal):
                    seqs.append(list(b.mro()))
                else:
                    seqs.append([b])
            seqs.append(list(self.bases))
            res = [self]
            seqs = [s for s in seqs if s]
            while seqs:
                for s in seqs:
                    cand = s[0]
                    if not any(cand in t[1:] for t in seqs):
                        break
                else:
                    raise Undecided("inconsistent MRO for %s" % self.name)
                res.append(cand)
                seqs = [[x for x in s if x is not cand] for s in seqs]
                seqs = [s for s in seqs if s]
            self._mro = res
        return self._mro

    def lookup(self, name):
        for c in self.mro():
            if isinstance(c, ClassVal) and name in c.ns:
                return c.ns[name], c
        return None, None

    def derives(self, base):
        return base in self.mro()

    def __repr__(self):
        return "<class %s>" % self.name


class PyFunc(object):
    def __init__(self, node, env, defaults, kw_defaults, name, owner=None, is_gen=False):
        self.node = node
        self.env = env
        self.defaults = defaults
        self.kw_defaults = kw_defaults
        self.name = name
        self.owner = owner
        self.is_gen = is_gen

    def __repr__(self):
        return "<func %s>" % self.name


class BoundMethod(object):
    def __init__(self, func, self_obj):
        self.func = func
        self.self_obj = self_obj

    def __repr__(self):
        return "<bound %s of %r>" % (self.func, self.self_obj)


class Prop(object):
    def __init__(self, fget, fset=None):
        self.fget = fget
        self.fset = fset


class StaticM(object):
    def __init__(self, func):
        self.func = func


class ClassM(object):
    def __init__(self, func):
        self.func = func


class Builtin(object):
    def __init__(self, name, fn):
        self.name = name
        self.fn = fn

    def __repr__(self):
        return "<builtin %s>" % self.name


class RegexVal(object):
    def __init__(self, pattern, flags=0):
        self.pattern = pattern
        self.flags = flags

    def __repr__(self):
        return "<regex %r>" % self.pattern


class ModuleVal(object):
    def __init__(self, name, ns):
        self.name = name
        self.ns = ns


class Env(object):
    __slots__ = ("vars", "parent", "globals")

    def __init__(self, parent=None, globals_=None):
        self.vars = {}
        self.parent = parent
        self.globals = globals_ if globals_ is not None else (parent.globals if parent else self.vars)

    def lookup(self, name):
        e = self
        while e is not None:
            if name in e.vars:
                return e.vars[name]
            e = e.parent
        raise KeyError(name)

    def has(self, name):
        e = self
        while e is not None:
            if name in e.vars:
                return True
            e = e.parent
        return False


def contains_yield(node):
    for n in ast.walk(node):
        if isinstance(n, (ast.Yield, ast.YieldFrom)):
            # make sure the yield belongs to this function, not a nested def
            return _yield_in(node.body)
    return False


def _yield_in(stmts):
    stack = list(stmts)
    while stack:
        n = stack.pop()
        if isinstance(n, (ast.FunctionDef, ast.Lambda, ast.ClassDef)):
            continue
        if isinstance(n, (ast.Yield, ast.YieldFrom)):
            return True
        stack.extend(ast.iter_child_nodes(n))
    return False


def is_number(x):
    return isinstance(x, (int, Fraction, float)) or (isinstance(x, SV) and x.kind in ("int", "real", "bool"))


def is_float_val(x):
    return isinstance(x, (PyFloat, float)) or (isinstance(x, SV) and x.kind == "real")


def is_int_val(x):
    return (isinstance(x, int)) or (isinstance(x, SV) and x.kind in ("int", "bool"))
