"""Concrete-float engine for the interpreter: used for the differential self-check against CPython."""
import math

from . import engine as _eng
from .engine import PathAbort
from .api import SymE, Outcome


class FloatEngine(object):
    mode = "float"

    def __init__(self, interp, values, choices):
        self.interp = interp
        self.values = values
        self.choices = list(choices or [])
        self.cpos = 0
        self.results = []
        self.observations = []
        self.auto = []

    def run(self, thunk):
        prev = _eng._current
        _eng._current = self
        try:
            self.interp.reset_path()
            thunk(FloatE(self, self.interp))
            return "ok"
        except PathAbort:
            return "rejected"
        finally:
            _eng._current = prev

    def decide(self, c):
        return bool(c)

    def implicit_raise(self, c, what):
        return bool(c)

    def choose(self, n, label=""):
        k = self.choices[self.cpos] if self.cpos < len(self.choices) else 0
        self.cpos += 1
        return k

    def _v(self, name):
        v = self.values.get(name, 0.0)
        if isinstance(v, (list, tuple)):
            v = v[0] / v[1]
        return v

    def real(self, name):
        return float(self._v(name))

    def int(self, name):
        return int(self._v(name))

    def bool(self, name):
        return bool(self._v(name))

    def const(self, x):
        return x

    def assume(self, c):
        if isinstance(c, (list, tuple)):
            for x in c:
                self.assume(x)
            return
        if not c:
            raise PathAbort()

    def axiom(self, c):
        pass

    def ensure(self, clause, cond, note=""):
        if isinstance(cond, (list, tuple)):
            cond = all(bool(c) for c in cond)
        self.results.append((clause, bool(cond)))

    def cover(self, label):
        pass

    def observe(self, name, value):
        self.observations.append((name, value))

    def sqrt(self, x):
        if x < 0:
            self.interp.raise_("ValueError", "math domain error")
        return math.sqrt(x)

    def spec_sqrt(self, x):
        return math.sqrt(x) if x >= 0 else 0.0

    def trig(self, name, x):
        return getattr(math, name)(x)

    def cos(self, x):
        return math.cos(x)

    def sin(self, x):
        return math.sin(x)

    def uf(self, name, *args):
        return getattr(math, name)(*args)

    @property
    def pi(self):
        return math.pi

    @property
    def tau(self):
        return math.tau

    def fresh_real(self, p="r"):
        raise RuntimeError("fresh symbol in float mode")


class FloatE(SymE):
    mode = "float"

    def _in(self, v):
        from .api import TF
        from .values import PList, PDict

        if isinstance(v, TF):
            return float(v)
        if isinstance(v, list):
            return PList([self._in(x) for x in v])
        if isinstance(v, dict):
            return PDict({k: self._in(x) for k, x in v.items()})
        if isinstance(v, tuple):
            return tuple(self._in(x) for x in v)
        return v

    def _auto(self, tag, f):
        from .interp import PyRaise

        try:
            r = f()
        except PyRaise as pr:
            self.e.auto.append([tag, "raise", pr.exc.cls.name])
            raise
        self.e.auto.append([tag, "ret", flatten(r)])
        return r

    def construct(self, clsname, *a, **k):
        return self._auto("new", lambda: SymE.construct(self, clsname, *a, **k))

    def call(self, obj, method, *a, **k):
        return self._auto("call", lambda: SymE.call(self, obj, method, *a, **k))

    def callf(self, qual, *a, **k):
        return self._auto("callf", lambda: SymE.callf(self, qual, *a, **k))

    def sqrt(self, x):
        return self.e.spec_sqrt(x)

    def code_sqrt(self, x):
        return self.e.spec_sqrt(x)

    def use_contract(self, qual, summary):
        pass  # concrete run: the real callee body is executed

    def pure_contract(self, qual, fields, result="real"):
        pass

    def drop_contract(self, qual):
        pass

    def trig_sum(self, a, b):
        pass

    def trig_neg(self, a):
        pass

    def trig_double_all(self):
        pass

    def trig_period(self, a, k=1):
        pass

    def floor(self, x):
        return math.floor(x)

    def fmt_parts(self, s):
        from .api import ConcE

        if isinstance(s, str):
            return ConcE.fmt_parts(None, s)
        return SymE.fmt_parts(self, s)


def flatten(v, depth=0, seen=None):
    from .values import Obj, PList, PDict, FmtStr
    from .core import LazySeq
    from fractions import Fraction

    if seen is None:
        seen = frozenset()
    if isinstance(v, bool) or v is None or isinstance(v, str):
        return v
    if isinstance(v, int):
        return v
    if isinstance(v, (float, Fraction)):
        return float(v)
    if depth > 6:
        return "..."
    if isinstance(v, tuple):
        return [flatten(x, depth + 1, seen) for x in v]
    if isinstance(v, PList):
        return [flatten(x, depth + 1, seen) for x in v.v]
    if isinstance(v, PDict):
        return {str(k): flatten(x, depth + 1, seen) for k, x in sorted(v.v.items(), key=lambda kv: str(kv[0]))}
    if isinstance(v, Obj):
        if v.num is not None:
            return float(v.num)
        if v.serial in seen:
            return "<cycle>"
        seen = seen | {v.serial}
        d = {"__class__": v.cls.name}
        for k, x in sorted(v.fd.items()):
            d[k] = flatten(x, depth + 1, seen)
        if v.items is not None:
            d["__items__"] = [flatten(x, depth + 1, seen) for x in v.items.v]
        return d
    if isinstance(v, LazySeq):
        return "<generator>"
    if isinstance(v, FmtStr):
        return repr(v)
    return "<%s>" % type(v).__name__


def compare(a, b, rtol=1e-6, atol=1e-9, path=""):
    """structural comparison of two flattened observations; returns None or a description of the difference"""
    if isinstance(a, (int, float)) and isinstance(b, (int, float)) and not isinstance(a, bool) and not isinstance(
            b, bool):
        if a != a and b != b:
            return None
        if abs(a - b) <= atol + rtol * max(abs(a), abs(b)):
            return None
        return "%s: %r != %r" % (path, a, b)
    if type(a) != type(b):
        if isinstance(a, str) and a.startswith("<") or isinstance(b, str) and b.startswith("<"):
            return None
        return "%s: type %s != %s (%r vs %r)" % (path, type(a).__name__, type(b).__name__, a, b)
    if isinstance(a, list):
        if len(a) != len(b):
            return "%s: length %d != %d" % (path, len(a), len(b))
        for i, (x, y) in enumerate(zip(a, b)):
            d = compare(x, y, rtol, atol, "%s[%d]" % (path, i))
            if d:
                return d
        return None
    if isinstance(a, dict):
        if set(a) != set(b):
            return "%s: keys %s != %s" % (path, sorted(set(a) ^ set(b)), "")
        for k in a:
            d = compare(a[k], b[k], rtol, atol, "%s.%s" % (path, k))
            if d:
                return d
        return None
    if isinstance(a, str) and (a.startswith("<") or b.startswith("<") or a == "..." or b == "..."):
        return None
    if a != b:
        return "%s: %r != %r" % (path, a, b)
    return None
