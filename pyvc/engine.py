"""Path exploration (decision replay), path conditions, VC collection and discharge."""
import time
import z3

from .values import SV, lift, to_bool, to_real, sv_not, sv_and, reset_names, fresh_name, F, PyFloat
from fractions import Fraction

_current = None


def current():
    if _current is None:
        raise RuntimeError("no symbolic engine active")
    return _current


class PathAbort(Exception):
    """Stops the current path silently (infeasible assumption)."""


class Undecided(Exception):
    """The executor met something it does not model: the obligation is undecided."""


class PathBudget(Exception):
    pass


class VC(object):
    __slots__ = ("clause", "path_id", "pc", "cond", "decisions", "note", "choices")

    def __init__(self, clause, path_id, pc, cond, decisions, note="", choices=()):
        self.choices = list(choices)
        self.clause = clause
        self.path_id = path_id
        self.pc = pc
        self.cond = cond
        self.decisions = decisions
        self.note = note


# global math constants / uninterpreted functions (assumption A3)
PI = z3.Real("PI")
_fn = {}


def ufun(name, arity=1):
    key = (name, arity)
    if key not in _fn:
        _fn[key] = z3.Function(name, *([z3.RealSort()] * (arity + 1)))
    return _fn[key]


def global_axioms():
    cos, sin = ufun("cos"), ufun("sin")
    ax = [PI > z3.RealVal("3.14159265358"), PI < z3.RealVal("3.14159265359")]
    for k, (c, s) in enumerate([(1, 0), (0, 1), (-1, 0), (0, -1), (1, 0)]):
        ang = PI * z3.RealVal(k) / 2
        ax.append(cos(ang) == c)
        ax.append(sin(ang) == s)
    for k, (c, s) in enumerate([(1, 0), (0, -1), (-1, 0), (0, 1), (1, 0)]):
        if k == 0:
            continue
        ang = -PI * z3.RealVal(k) / 2
        ax.append(cos(ang) == c)
        ax.append(sin(ang) == s)
    return ax


class Engine(object):
    """Symbolic engine.  One instance explores one obligation thunk."""

    mode = "symbolic"

    def __init__(self, interp, max_paths=4000, feas_timeout_ms=1500):
        self.interp = interp
        self.max_paths = max_paths
        self.feas_timeout_ms = feas_timeout_ms
        self.vcs = []
        self.covers = []
        self.paths = 0
        self.path_log = []
        self.notes = []
        self.solver_time = 0.0

    # ------------------------------------------------------------------ exploration
    def explore(self, thunk):
        global _current
        worklist = [[]]
        prev = _current
        _current = self
        try:
            while worklist:
                prefix = worklist.pop()
                self.paths += 1
                if self.paths > self.max_paths:
                    raise PathBudget("more than %d paths" % self.max_paths)
                self._begin(prefix)
                try:
                    thunk(self)
                    self.path_log.append((list(self.decisions), "done"))
                except PathAbort:
                    self.path_log.append((list(self.decisions), "aborted"))
                for alt in self.pending:
                    worklist.append(alt)
        finally:
            _current = prev
        return self.vcs

    def _begin(self, prefix):
        reset_names()
        self.prefix = prefix
        self.decisions = []
        self.pc = []  # z3 bools: branch conditions + assumptions
        self.axioms = list(global_axioms())  # defining axioms of introduced symbols
        self.pending = []
        self.solver = z3.Solver()
        self.solver.set("timeout", self.feas_timeout_ms)
        for a in self.axioms:
            self.solver.add(a)
        self.trig_args = set()
        self.trig_terms = {}
        self.sqrt_cache = {}
        self.floor_cache = {}
        self.side_mode = False
        self.side_count = 0
        self.choice_trace = []
        self.interp.reset_path()
        self.symbols = {}
        self.observations = []

    # ------------------------------------------------------------------ decisions
    def _feasible(self, term):
        """is pc /\ term satisfiable?  Asked in a forked child (the child inherits the incremental solver) so that a
        solver that ignores its timeout cannot hang the exploration; no answer counts as feasible."""
        t0 = time.time()

        def run():
            self.solver.set("timeout", int(self.feas_timeout_ms))
            self.solver.push()
            self.solver.add(term)
            r = self.solver.check()
            return [str(r), None, None]

        res = _in_child(run, self.feas_timeout_ms / 1000.0 + 0.3)
        self.solver_time += time.time() - t0
        if res is None or res[0] != "unsat":
            return True
        return False

    def decide(self, cond):
        """Truth value of a symbolic boolean on this path (forks)."""
        if isinstance(cond, bool):
            return cond
        c = to_bool(cond).t
        c = z3.simplify(c)
        if z3.is_true(c):
            return True
        if z3.is_false(c):
            return False
        pos = len(self.decisions)
        if pos < len(self.prefix):
            choice = self.prefix[pos]
        else:
            can_t = self._feasible(c)
            can_f = self._feasible(z3.Not(c)) if can_t else True
            if can_t and can_f:
                choice = True
                self.pending.append(self.decisions + [False])
            elif can_t:
                choice = True
            elif can_f:
                choice = False
            else:
                raise PathAbort()
        self.decisions.append(choice)
        lit = c if choice else z3.Not(c)
        self.pc.append(lit)
        self.solver.add(lit)
        return choice

    def implicit_raise(self, cond, what):
        """an operation raises `what` when cond holds.  Default: fork on cond.  In side-condition mode the absence of
        the exception becomes a verification condition of its own (pc => not cond) and execution continues under
        `not cond` - the usual treatment of safety conditions in a VC generator, without a path split."""
        if not getattr(self, "side_mode", False):
            return self.decide(cond)
        if isinstance(cond, bool):
            return cond
        c = z3.simplify(to_bool(cond).t)
        if z3.is_false(c):
            return False
        if z3.is_true(c):
            return True
        self.side_count = getattr(self, "side_count", 0) + 1
        self.vcs.append(VC("no-%s#%d" % (what, self.side_count), self.paths, list(self.axioms) + list(self.pc),
                           z3.Not(c), list(self.decisions), "implicit raise", self.choice_trace))
        self.pc.append(z3.Not(c))
        self.solver.add(z3.Not(c))
        return False

    def choose(self, n, label=""):
        """n-way non-deterministic choice (all alternatives explored)."""
        if n <= 0:
            raise PathAbort()
        pos = len(self.decisions)
        if pos < len(self.prefix):
            choice = self.prefix[pos]
        else:
            choice = 0
            for k in range(n - 1, 0, -1):
                self.pending.append(self.decisions + [k])
        self.decisions.append(choice)
        self.choice_trace.append(choice)
        return choice

    # ------------------------------------------------------------------ symbols
    def real(self, name):
        s = SV(z3.Real(name), "real")
        self.symbols[name] = s
        return s

    def reals(self, names):
        return [self.real(n) for n in names.split()]

    def int(self, name):
        s = SV(z3.Int(name), "int")
        self.symbols[name] = s
        return s

    def bool(self, name):
        s = SV(z3.Bool(name), "bool")
        self.symbols[name] = s
        return s

    def fresh_real(self, prefix="r"):
        return SV(z3.Real(fresh_name(prefix)), "real")

    def fresh_int(self, prefix="i"):
        return SV(z3.Int(fresh_name(prefix)), "int")

    def const(self, x):
        """A python number as the engine's number type (exact rational for floats)."""
        if isinstance(x, float):
            return F(x)
        return x

    # ------------------------------------------------------------------ assumptions / obligations
    def assume(self, cond):
        if isinstance(cond, (list, tuple)):
            for c in cond:
                self.assume(c)
            return
        if cond is True:
            return
        if cond is False:
            raise PathAbort()
        c = to_bool(cond).t
        self.pc.append(c)
        self.solver.add(c)

    def axiom(self, cond):
        c = to_bool(cond).t if not z3.is_expr(cond) else cond
        self.axioms.append(c)
        self.solver.add(c)

    def ensure(self, clause, cond, note=""):
        """Record the verification condition  pc => cond  for this path."""
        if isinstance(cond, (list, tuple)):
            cond = sv_and(*cond)
        if cond is True:
            c = z3.BoolVal(True)
        elif cond is False:
            c = z3.BoolVal(False)
        else:
            c = to_bool(cond).t
        self.vcs.append(VC(clause, self.paths, list(self.axioms) + list(self.pc), c, list(self.decisions), note,
                           self.choice_trace))

    def cover(self, label):
        """Reachability witness: this program point is reachable under the assumptions."""
        self.covers.append((label, list(self.axioms) + list(self.pc)))

    def observe(self, name, value):
        self.observations.append((name, value))

    def undecided(self, why):
        raise Undecided(why)

    # ------------------------------------------------------------------ math (A3)
    def sqrt(self, x):
        from .interp import PyRaise

        if not isinstance(x, SV):
            if x < 0:
                raise PyRaise(self.interp.make_exc("ValueError", "math domain error"))
            fx = Fraction(x)
            n, d = fx.numerator, fx.denominator
            import math as _m

            rn, rd = _m.isqrt(n), _m.isqrt(d)
            if rn * rn == n and rd * rd == d:
                return F(Fraction(rn, rd))
            x = lift(F(x))
        x = to_real(x)
        if self.implicit_raise(x < 0, "ValueError(sqrt)"):
            raise PyRaise(self.interp.make_exc("ValueError", "math domain error"))
        key = str(z3.simplify(x.t, som=True, sort_sums=True))   # canonical sum-of-monomials form
        if key in self.sqrt_cache:
            return self.sqrt_cache[key]      # sqrt is a function: the same argument gives the same symbol
        s = self.fresh_real("sqrt")
        self.axiom(z3.And(s.t >= 0, s.t * s.t == x.t))
        self.sqrt_cache[key] = s
        return s

    def spec_sqrt(self, x):
        """sqrt for specification code: defined only for x >= 0 (caller's duty)."""
        s = self.fresh_real("ssqrt")
        x = to_real(x)
        self.axiom(z3.Implies(x.t >= 0, z3.And(s.t >= 0, s.t * s.t == x.t)))
        return s

    def trig(self, name, x):
        x = to_real(x)
        key = str(x.t)
        if key not in self.trig_args:
            self.trig_args.add(key)
            self.trig_terms[key] = x.t
            c, s = ufun("cos")(x.t), ufun("sin")(x.t)
            self.axiom(c * c + s * s == 1)
            self.axiom(z3.And(c >= -1, c <= 1, s >= -1, s <= 1))
        return SV(ufun(name)(x.t), "real")

    def cos(self, x):
        return self.trig("cos", x)

    def sin(self, x):
        return self.trig("sin", x)

    def uf(self, name, *args):
        ts = [to_real(a).t for a in args]
        return SV(ufun(name, len(ts))(*ts), "real")

    @property
    def pi(self):
        return SV(PI, "real")

    @property
    def tau(self):
        return SV(2 * PI, "real")


# ------------------------------------------------------------------------------------------------
# discharge
# ------------------------------------------------------------------------------------------------
def _mk_goal(vc):
    return list(vc.pc) + [z3.Not(vc.cond)]


def _in_child(fn, hard_timeout_s):
    """run fn() in a forked child with a hard wall-clock limit; returns fn's JSON-able result or None"""
    import os
    import select
    import json
    import signal

    r, w = os.pipe()
    pid = os.fork()
    if pid == 0:
        try:
            os.close(r)
            try:
                res = fn()
            except BaseException as e:  # noqa
                res = ["error", "%s: %s" % (type(e).__name__, e), None]
            data = json.dumps(res, default=str).encode()
            with os.fdopen(w, "wb") as f:
                f.write(data)
        finally:
            os._exit(0)
    os.close(w)
    out = b""
    deadline = time.time() + hard_timeout_s
    try:
        while True:
            left = deadline - time.time()
            if left <= 0:
                break
            rd, _, _ = select.select([r], [], [], min(left, 1.0))
            if rd:
                chunk = os.read(r, 1 << 16)
                if not chunk:
                    break
                out += chunk
        else:
            pass
    finally:
        os.close(r)
        try:
            os.kill(pid, signal.SIGKILL)
        except ProcessLookupError:
            pass
        try:
            os.waitpid(pid, 0)
        except ChildProcessError:
            pass
    if not out:
        return None
    try:
        return json.loads(out.decode())
    except ValueError:
        return None


def _z3_attempt(goal, mk, timeout_ms, want_model):
    def run():
        s = mk()
        s.set("timeout", int(timeout_ms))
        for g in goal:
            s.add(g)
        r = s.check()
        if r == z3.sat and want_model:
            return [str(r), None, _model_dict(s.model())]
        return [str(r), None, None]

    res = _in_child(run, timeout_ms / 1000.0 + 2.0)
    if res is None:
        return "unknown", None
    if res[0] == "error":
        return "error:" + str(res[1]), None
    return res[0], res[2]


def _seeded_solver(seed):
    s = z3.Solver()
    s.set("random_seed", seed)
    return s


def solve_vc(vc, timeout_ms=20000, want_model=True):
    """returns (status, backend, seconds, model_dict_or_None, attempts)"""
    goal = _mk_goal(vc)
    t0 = time.time()
    attempts = []
    if _has_int(goal):
        try:
            from . import backends

            g3 = backends.pin_ints(goal, _in_child)
            if g3 is not None and not _has_int(g3):
                attempts.append(("pin-ints", "ok"))
                goal = g3
        except z3.Z3Exception as e:
            attempts.append(("pin-ints", "error:%s" % e))
    has_uf = _has_uf_or_int(goal)
    has_int = _has_int(goal)
    quick = ("z3", lambda: z3.Solver(), goal, True, min(1200, timeout_ms))
    if not has_uf:
        plan = [quick, ("z3-nlsat", lambda: z3.Tactic("qfnra-nlsat").solver(), goal, True, timeout_ms)]
    elif not has_int:
        from . import backends

        g2 = backends.ackermannize(goal)
        plan = [("z3-nlsat-ack", lambda: z3.Tactic("qfnra-nlsat").solver(), g2, False, min(4000, timeout_ms)), quick,
                ("z3-nlsat-ack", lambda: z3.Tactic("qfnra-nlsat").solver(), g2, False, timeout_ms)]
    else:
        plan = [quick]
        try:
            from . import backends

            gbv = backends.int_goal_to_bv(goal)
        except Exception:  # noqa
            gbv = None
        if gbv is not None:
            # sat answers are not used (real-valued conjuncts were dropped); unsat carries over
            plan = [("z3-int2bv", lambda: z3.Solver(), gbv, False, timeout_ms)] + plan
    plan.append(("z3-full", lambda: z3.Solver(), goal, True, timeout_ms))
    # z3's incomplete nonlinear core gives up (`unknown`) depending on timing and heuristics: two re-seeded attempts
    # keep a verdict from flipping to undecided on a busy machine (a different seed can only turn unknown into an answer)
    for seed in (7, 23):
        plan.append(("z3-seed%d" % seed, (lambda sd: (lambda: _seeded_solver(sd)))(seed), goal, True,
                     min(8000, timeout_ms)))
    for tname, mk, g, sat_ok, budget in plan:
        r, model = _z3_attempt(g, mk, budget, want_model and sat_ok)
        attempts.append((tname, r))
        if r == "unsat":
            return "unsat", tname, time.time() - t0, None, attempts
        if r == "sat" and sat_ok:
            return "sat", tname, time.time() - t0, model, attempts
    try:
        from . import backends

        r2 = backends.cvc5_check(goal, timeout_ms)
        attempts.append(("cvc5", r2[0]))
        if r2[0] == "unsat":
            return "unsat", "cvc5", time.time() - t0, None, attempts
        if r2[0] == "sat":
            # no model from the text interface: ask z3 for one with the remaining budget, else report without
            return "sat", "cvc5", time.time() - t0, None, attempts
    except Exception as e:  # noqa
        attempts.append(("cvc5", "error:%s" % e))
    return "unknown", "-", time.time() - t0, None, attempts


def _has_int(goal):
    seen = set()
    stack = list(goal)
    while stack:
        e = stack.pop()
        if e.get_id() in seen:
            continue
        seen.add(e.get_id())
        if z3.is_app(e):
            k = e.decl().kind()
            if k in (z3.Z3_OP_TO_INT, z3.Z3_OP_IDIV, z3.Z3_OP_MOD, z3.Z3_OP_REM, z3.Z3_OP_IS_INT, z3.Z3_OP_TO_REAL):
                return True
            if z3.is_int(e) and not z3.is_int_value(e):
                return True
            stack.extend(e.children())
        elif z3.is_quantifier(e):
            return True
    return False


def _has_uf_or_int(goal):
    seen = set()
    stack = list(goal)
    while stack:
        e = stack.pop()
        if e.get_id() in seen:
            continue
        seen.add(e.get_id())
        if z3.is_app(e):
            d = e.decl()
            k = d.kind()
            if k == z3.Z3_OP_UNINTERPRETED and e.num_args() > 0:
                return True
            if k in (z3.Z3_OP_TO_INT, z3.Z3_OP_IDIV, z3.Z3_OP_MOD, z3.Z3_OP_REM, z3.Z3_OP_IS_INT):
                return True
            if z3.is_int(e) and not z3.is_int_value(e):
                return True
            stack.extend(e.children())
        elif z3.is_quantifier(e):
            return True
    return False


def _model_dict(m):
    out = {}
    for d in m.decls():
        if d.arity() == 0:
            v = m[d]
            out[d.name()] = _val(v)
        else:
            try:
                out[d.name()] = str(m[d])
            except Exception:
                pass
    return out


def _val(v):
    if z3.is_int_value(v):
        return v.as_long()
    if z3.is_rational_value(v):
        return [v.numerator_as_long(), v.denominator_as_long()]
    if z3.is_algebraic_value(v):
        a = v.approx(20)
        return [a.numerator_as_long(), a.denominator_as_long()]
    if z3.is_true(v):
        return True
    if z3.is_false(v):
        return False
    return str(v)
