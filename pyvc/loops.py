"""Generic-element rule for element-wise loops (Hoare rule with the invariant
   "elements [0, j) have been processed by the body, elements [j, n) are untouched").

For a loop `for x in xs: body` (or a comprehension) whose iterations are independent - no loop-carried local,
no break / return, writes only through the loop variable (or xs[i] for the range index i) - it suffices to verify
the body once on a generic element: an obligation that runs the function on a list holding ONE generic element
(of every admissible kind) then holds for lists of any length.  This module checks that side condition on the
real AST; if a loop stops being element-wise the obligations that rely on it become undecided.
"""
import ast


class NotElementwise(Exception):
    pass


def find_function(tree, qual):
    parts = qual.split(".")
    for node in tree.body:
        if len(parts) == 2 and isinstance(node, ast.ClassDef) and node.name == parts[0]:
            for s in node.body:
                if isinstance(s, ast.FunctionDef) and s.name == parts[1]:
                    return s
        if len(parts) == 1 and isinstance(node, ast.FunctionDef) and node.name == parts[0]:
            return node
    raise NotElementwise("function %s not found" % qual)


def loops_of(fn):
    out = []
    for n in ast.walk(fn):
        if isinstance(n, (ast.For, ast.ListComp, ast.GeneratorExp)):
            out.append(n)
    out.sort(key=lambda n: (n.lineno, n.col_offset))
    return out


def _names(node, ctx):
    return [n.id for n in ast.walk(node) if isinstance(n, ast.Name) and isinstance(n.ctx, ctx)]


def check_for(fn, loop):
    if loop.orelse:
        raise NotElementwise("for-else")
    for n in ast.walk(loop):
        if isinstance(n, (ast.Break, ast.Return, ast.Yield, ast.YieldFrom)) and n is not loop:
            raise NotElementwise("%s inside the loop" % type(n).__name__)
    loop_vars = set(_names(loop.target, ast.Store))
    assigned = set()
    for st in loop.body:
        for n in ast.walk(st):
            if isinstance(n, ast.Name) and isinstance(n.ctx, ast.Store):
                assigned.add(n.id)
    assigned -= loop_vars
    # no loop-carried local: every assigned name is written before it is read inside the body ...
    seen_store = set()
    for st in loop.body:
        for n in sorted((m for m in ast.walk(st) if isinstance(m, ast.Name)), key=lambda m: (m.lineno, m.col_offset)):
            if n.id in assigned:
                if isinstance(n.ctx, ast.Store):
                    seen_store.add(n.id)
                elif n.id not in seen_store:
                    raise NotElementwise("local %s is read before it is written in an iteration (loop-carried)" % n.id)
        for m in ast.walk(st):
            if isinstance(m, ast.AugAssign) and isinstance(m.target, ast.Name) and m.target.id not in loop_vars:
                raise NotElementwise("accumulator %s" % m.target.id)
    # ... and is not read after the loop
    after = False
    for st in ast.walk(fn):
        pass
    end = loop.end_lineno
    for n in ast.walk(fn):
        if isinstance(n, ast.Name) and isinstance(n.ctx, ast.Load) and n.id in assigned and n.lineno > end:
            raise NotElementwise("local %s of the loop body is used after the loop" % n.id)
    # writes to the heap only through the loop variable(s) or <iterable>[index variable]
    for n in ast.walk(loop):
        tgt = None
        if isinstance(n, ast.Assign):
            tgt = n.targets
        elif isinstance(n, ast.AugAssign):
            tgt = [n.target]
        if not tgt:
            continue
        for t in tgt:
            if isinstance(t, ast.Attribute):
                base = t.value
                while isinstance(base, ast.Attribute):
                    base = base.value
                if not (isinstance(base, ast.Name) and (base.id in loop_vars or base.id in assigned)):
                    raise NotElementwise("store to %s" % ast.dump(t)[:60])
            elif isinstance(t, ast.Subscript):
                idx = t.slice
                if not (isinstance(idx, ast.Name) and idx.id in loop_vars):
                    raise NotElementwise("subscript store with a non-loop index")
    return True


def check(tree, qual, which=0):
    fn = find_function(tree, qual)
    ls = loops_of(fn)
    if which >= len(ls):
        raise NotElementwise("%s has no loop #%d" % (qual, which))
    loop = ls[which]
    if isinstance(loop, ast.For):
        return check_for(fn, loop)
    # comprehensions: a single generator without a condition on accumulated state is element-wise by construction
    if len(loop.generators) != 1:
        raise NotElementwise("nested comprehension")
    return True


# ------------------------------------------------------------------------------------------------
# prefix independence of the path-builder state (used by the parser obligations)
# ------------------------------------------------------------------------------------------------
ALLOWED_SEGMENT_READS = {
    "len(self._segments)", "self._segments[-1]", "self._segments[0]", "self._segments[index]",
    "self._segments[index + 1]", "self._segments[i]", "reversed(self._segments)", "self._segments.append(value)",
    "Point(self._segments[-1].end)", "Point(self._segments[0].end)",
    "isinstance( self._segments[-1], QuadraticBezier )", "isinstance( self._segments[-1], CubicBezier )",
}
BUILDER_FUNCS = ["current_point", "z_point", "smooth_point", "move", "line", "vertical", "horizontal", "smooth_quad",
                 "quad", "smooth_cubic", "cubic", "arc", "closed", "append", "_validate_connection", "_validate_close",
                 "parse", "start", "end"]


_audit_cache = {}


def audit_prefix_independence(tree, source):
    key = id(tree)
    if key not in _audit_cache:
        try:
            _audit_cache[key] = (True, _audit_prefix_independence(tree, source))
        except NotElementwise as e:
            _audit_cache[key] = (False, e)
    ok, val = _audit_cache[key]
    if not ok:
        raise val
    return val


def _audit_prefix_independence(tree, source):
    """The interpreter state of a path is read from the stored segment list only through: its length, its last two
    elements, its first element, and two reverse scans that stop at the first Move / Close.  Hence a parser step on a
    stored list depends on (last two elements, first matching element of the scan, first element) only - the
    representative prefixes of the obligations enumerate those.  This audit checks that reading on the real AST."""
    forms = set()
    lines = source.split("\n")
    for node in tree.body:
        if isinstance(node, ast.ClassDef) and node.name == "Path":
            for f in node.body:
                if isinstance(f, ast.FunctionDef) and f.name in BUILDER_FUNCS:
                    for n in ast.walk(f):
                        if isinstance(n, (ast.Subscript, ast.Call)) and n.end_lineno - n.lineno <= 3:
                            seg = _segment(lines, n)
                            if seg and "_segments" in seg and len(seg) < 90:
                                forms.add(" ".join(seg.split()))
                        if isinstance(n, ast.Assign):
                            for t in n.targets:
                                if isinstance(t, ast.Attribute) and t.attr == "_segments":
                                    raise NotElementwise("builder function %s replaces the segment list" % f.name)
    extra = forms - ALLOWED_SEGMENT_READS
    # compound expressions made only of allowed reads are fine (e.g. self._segments[index].end = ...)
    extra = {e for e in extra if not any(e.startswith(a) or a in e for a in ALLOWED_SEGMENT_READS)}
    if extra:
        raise NotElementwise("unexpected reads of the segment list: %s" % sorted(extra))
    for q in ("Path.z_point", "Path._validate_close"):
        fn = find_function(tree, q)
        loop = [n for n in ast.walk(fn) if isinstance(n, ast.For)][0]
        if len(loop.body) != 2 and len(loop.body) != 1:
            raise NotElementwise("%s: scan loop body changed" % q)
        last = loop.body[-1]
        if not isinstance(last, ast.If) or last.orelse:
            raise NotElementwise("%s: scan loop is not `if match: ...; stop`" % q)
        if not isinstance(last.body[-1], (ast.Break, ast.Return)):
            raise NotElementwise("%s: scan loop does not stop at the first match" % q)
    return True


def _segment(lines, n):
    if n.lineno == n.end_lineno:
        return lines[n.lineno - 1].encode("utf-8")[n.col_offset:n.end_col_offset].decode("utf-8")
    parts = [lines[n.lineno - 1].encode("utf-8")[n.col_offset:].decode("utf-8")]
    for k in range(n.lineno, n.end_lineno - 1):
        parts.append(lines[k])
    parts.append(lines[n.end_lineno - 1].encode("utf-8")[:n.end_col_offset].decode("utf-8"))
    return "\n".join(parts)


# --------------------------------------------------------------------------------------------------
# frame audit: a method is a pure observer (writes no attribute, subscript or global; all methods it calls are pure)
# --------------------------------------------------------------------------------------------------
_PURE_BUILTINS = {"abs", "float", "int", "len", "min", "max", "round", "isinstance", "bool", "tuple", "list", "range",
                  "sum", "sqrt", "cos", "sin", "tan", "atan", "atan2", "acos", "asin", "hypot", "radians", "degrees",
                  "ceil", "floor", "pow", "str", "hasattr", "complex", "zip", "enumerate", "sorted", "reversed", "all",
                  "any", "type", "getattr", "copy", "id", "iter", "next", "divmod", "fabs", "log", "exp", "isnan"}
_pure_cache = {}


def _methods_named(tree, name):
    out = []
    for node in tree.body:
        if isinstance(node, ast.ClassDef):
            for s in node.body:
                if isinstance(s, ast.FunctionDef) and s.name == name:
                    out.append((node.name + "." + name, s))
        elif isinstance(node, ast.FunctionDef) and node.name == name:
            out.append((name, node))
    return out


def audit_pure(tree, qual):
    """raises NotElementwise unless `qual` and, transitively, every function or method *of any class* whose name it
    calls, contain no store to an attribute or a subscript, no del, no global/nonlocal.  Constructors of the module's
    classes may be called (a new object is not shared state).  The audit over-approximates the call graph by name."""
    key = (id(tree), qual)
    if key in _pure_cache:
        ok, why = _pure_cache[key]
        if not ok:
            raise NotElementwise(why)
        return True
    classes = {n.name for n in tree.body if isinstance(n, ast.ClassDef)}
    seen, work = set(), [(qual, find_function(tree, qual))]
    why = None
    while work and why is None:
        q, fn = work.pop()
        if q in seen:
            continue
        seen.add(q)
        for n in ast.walk(fn):
            if isinstance(n, (ast.Attribute, ast.Subscript)) and isinstance(n.ctx, (ast.Store, ast.Del)):
                why = "%s writes %s (line %d): not a pure observer" % (q, ast.dump(n)[:60], n.lineno)
                break
            if isinstance(n, (ast.Global, ast.Nonlocal)):
                why = "%s declares global/nonlocal names" % q
                break
            if isinstance(n, ast.Call):
                f = n.func
                name = f.attr if isinstance(f, ast.Attribute) else (f.id if isinstance(f, ast.Name) else None)
                if name is None or name in _PURE_BUILTINS or name in classes:
                    continue
                if name.startswith("__") and name.endswith("__"):
                    continue
                for q2, fn2 in _methods_named(tree, name):
                    if q2 not in seen:
                        work.append((q2, fn2))
    _pure_cache[key] = (why is None, why)
    if why is not None:
        raise NotElementwise(why)
    return True
