"""Builtins, runtime-library models (assumption A5) and math (A3) for the interpreter."""
import math
import re
from fractions import Fraction

import z3

from .values import (SV, Obj, PList, PDict, PyFloat, F, FmtStr, Num, NOTIMPL, lift, to_real, to_int, to_bool,
                     sv_not, sv_and, sv_or, sv_ite, is_sym)
from .engine import Undecided
from .interp import (PyRaise, ExcVal, EXC, ClassVal, BuiltinType, BT, is_number, is_float_val, is_int_val, RegexVal,
                     PyFunc, BoundMethod, Builtin, ExcClass, ModuleVal, Prop, StaticM, ClassM)


PLACEHOLDER_RE = re.compile(r"9\d{4}7")


def native(fn):
    fn._pyvc_native = True
    return fn


class BuiltinsMixin(object):
    def install_builtins(self, env):
        g = env.vars
        for name, c in EXC.items():
            g[name] = c
        for name, t in BT.items():
            g[name] = t
        g["NotImplemented"] = NOTIMPL
        g["True"], g["False"], g["None"] = True, False, None

        def reg(name, fn=None):
            g[name] = Builtin(name, fn or getattr(self, "bi_" + name))

        for n in ("len", "isinstance", "abs", "min", "max", "round", "sum", "range", "enumerate", "zip", "map",
                  "reversed", "iter", "next", "hasattr", "getattr", "setattr", "sorted", "repr", "hash", "print",
                  "pow", "any", "all", "callable", "id", "issubclass", "divmod", "filter", "hex", "chr", "ord"):
            reg(n)

    # ------------------------------------------------------------------ imports
    def import_module(self, name, asname, env):
        if name == "re":
            env.vars[asname] = ModuleVal("re", {
                "compile": Builtin("re.compile", lambda p, flags=0: RegexVal(p, flags)),
                "MULTILINE": re.MULTILINE,
                "sub": Builtin("re.sub", self.re_sub),
                "findall": Builtin("re.findall", self.re_findall),
            })
            return
        if name in ("numpy", "scipy", "PIL"):
            self.raise_("ModuleNotFoundError", "No module named '%s'" % name)
        if name == "sys":
            import sys as _sys

            fi = ModuleVal("float_info", {"min": self.concrete_float(_sys.float_info.min),
                                           "max": self.concrete_float(_sys.float_info.max),
                                           "epsilon": self.concrete_float(_sys.float_info.epsilon)})
            env.vars[asname] = ModuleVal("sys", {"float_info": fi, "maxsize": _sys.maxsize})
            return
        if name == "math":
            env.vars[asname] = ModuleVal("math", {n: Builtin(n, getattr(self, "m_" + n)) for n in (
                "sqrt", "cos", "sin", "tan", "hypot", "radians", "degrees", "acos", "atan", "atan2", "log", "ceil")})
            env.vars[asname].ns["tau"] = self.math_const("tau")
            env.vars[asname].ns["pi"] = self.math_const("pi")
            env.vars[asname].ns["inf"] = float("inf") if self.float_mode else None
            return
        if name == "gzip":
            raise Undecided("gzip")
        raise Undecided("import %s" % name)

    def import_from(self, module, names, env):
        if module in ("collections.abc", "collections"):
            for n, a in names:
                env.vars[a] = BT.get(n, BT["object"])
            return
        if module == "copy":
            for n, a in names:
                env.vars[a] = Builtin("copy", self.bi_copy)
            return
        if module == "math":
            for n, a in names:
                if n == "tau":
                    env.vars[a] = self.math_const("tau")
                elif n == "pi":
                    env.vars[a] = self.math_const("pi")
                else:
                    env.vars[a] = Builtin(n, getattr(self, "m_" + n, None) or self.math_generic(n))
            return
        if module == "xml.etree.ElementTree":
            for n, a in names:
                env.vars[a] = Builtin(n, self.unsupported("xml.etree.%s" % n))
            return
        if module and module.split(".")[0] in ("numpy", "scipy", "PIL"):
            self.raise_("ModuleNotFoundError", "No module named '%s'" % module)
        if module in ("base64", "io"):
            for n, a in names:
                env.vars[a] = Builtin(n, self.unsupported(n))
            return
        raise Undecided("from %s import" % module)

    def math_generic(self, name):
        """a math function without a symbolic model: evaluated natively on concrete numbers (float mode, constants),
        undecided on symbolic ones"""
        fn = getattr(math, name)

        def f(*args):
            xs = [self.num_arg(a) for a in args]
            if any(isinstance(x, SV) for x in xs):
                raise Undecided("math.%s of a symbolic number" % name)
            r = fn(*[float(x) if not isinstance(x, int) else x for x in xs])
            if isinstance(r, tuple):
                return tuple(self.concrete_float(v) if isinstance(v, float) else v for v in r)
            return self.concrete_float(r) if isinstance(r, float) else r

        return f

    def unsupported(self, what):
        def f(*a, **k):
            raise Undecided("call of unmodelled %s" % what)

        return f

    # ------------------------------------------------------------------ math (A3)
    def math_const(self, name):
        if self.float_mode:
            return math.tau if name == "tau" else math.pi
        return self.E.tau if name == "tau" else self.E.pi

    def num_arg(self, x, fname="math"):
        x = self.unwrap_num(x)
        if isinstance(x, Obj):
            m, _ = x.cls.lookup("__float__")
            if m is not None:
                x = self.call_method(x, "__float__")
        if not is_number(x):
            self.raise_("TypeError", "must be real number, not %s" % type(x).__name__)
        return x

    def m_sqrt(self, x):
        x = self.num_arg(x)
        if self.float_mode and not isinstance(x, SV):
            if x < 0:
                self.raise_("ValueError", "math domain error")
            return math.sqrt(x)
        return self.E.sqrt(x)

    def _trig(self, name, x):
        x = self.num_arg(x)
        if self.float_mode and not isinstance(x, SV):
            return getattr(math, name)(x)
        if not isinstance(x, SV) and x == 0:
            return F(1) if name == "cos" else F(0)
        return self.E.trig(name, x)

    def m_cos(self, x):
        return self._trig("cos", x)

    def m_sin(self, x):
        return self._trig("sin", x)

    def m_tan(self, x):
        x = self.num_arg(x)
        if self.float_mode and not isinstance(x, SV):
            return math.tan(x)
        if not isinstance(x, SV) and x == 0:
            return F(0)
        c, s = self.E.trig("cos", x), self.E.trig("sin", x)
        # math.tan never raises for finite arguments.  Over the reals tan is undefined at the poles; there the
        # result is left unconstrained (an arbitrary real), everywhere else tan(x)*cos(x) == sin(x).
        t = self.E.uf("tan", x)
        self.E.axiom(z3.Implies(c.t != 0, t.t * c.t == s.t))
        return t

    def m_hypot(self, x, y):
        x, y = self.num_arg(x), self.num_arg(y)
        if self.float_mode and not isinstance(x, SV) and not isinstance(y, SV):
            return math.hypot(x, y)
        return self.m_sqrt(self.binop("+", self.binop("*", x, x), self.binop("*", y, y)))

    def m_radians(self, x):
        x = self.num_arg(x)
        if self.float_mode and not isinstance(x, SV):
            return math.radians(x)
        return self.binop("/", self.binop("*", x, self.E.pi), 180)

    def m_degrees(self, x):
        x = self.num_arg(x)
        if self.float_mode and not isinstance(x, SV):
            return math.degrees(x)
        return SV(to_real(x).t * 180 / self.E.pi.t, "real")

    def m_acos(self, x):
        x = self.num_arg(x)
        if self.float_mode and not isinstance(x, SV):
            if x < -1 or x > 1:
                self.raise_("ValueError", "math domain error")
            return math.acos(x)
        x = to_real(x)
        if self.E.implicit_raise(sv_or(x < -1, x > 1), "ValueError(acos)"):
            self.raise_("ValueError", "math domain error")
        r = self.E.uf("acos", x)
        self.E.axiom(z3.And(r.t >= 0, r.t <= self.E.pi.t))
        c = self.E.trig("cos", r)
        self.E.axiom(c.t == x.t)
        s = self.E.trig("sin", r)
        self.E.axiom(s.t >= 0)
        self.E.axiom(z3.Implies(x.t == 1, r.t == 0))
        self.E.axiom(z3.Implies(x.t == -1, r.t == self.E.pi.t))
        self.E.axiom(z3.Implies(x.t == 0, r.t == self.E.pi.t / 2))
        self.E.axiom(z3.Implies(x.t > 0, r.t < self.E.pi.t / 2))
        self.E.axiom(z3.Implies(x.t < 0, r.t > self.E.pi.t / 2))
        return r

    def m_atan(self, x):
        x = self.num_arg(x)
        if self.float_mode and not isinstance(x, SV):
            return math.atan(x)
        x = to_real(x)
        r = self.E.uf("atan", x)
        self.E.axiom(z3.And(r.t > -self.E.pi.t / 2, r.t < self.E.pi.t / 2))
        c, s = self.E.trig("cos", r), self.E.trig("sin", r)
        self.E.axiom(z3.And(c.t > 0, s.t == x.t * c.t))
        return r

    def m_atan2(self, y, x):
        y, x = self.num_arg(y), self.num_arg(x)
        if self.float_mode and not isinstance(x, SV) and not isinstance(y, SV):
            return math.atan2(y, x)
        y, x = to_real(y), to_real(x)
        r = self.E.uf("atan2", y, x)
        pi = self.E.pi.t
        self.E.axiom(z3.And(r.t > -pi, r.t <= pi))
        c, s = self.E.trig("cos", r), self.E.trig("sin", r)
        # (x, y) = rho * (cos r, sin r) with rho >= 0
        rho = self.E.fresh_real("rho")
        self.E.axiom(z3.And(rho.t >= 0, rho.t * rho.t == x.t * x.t + y.t * y.t, x.t == rho.t * c.t,
                            y.t == rho.t * s.t))
        self.E.axiom(z3.Implies(z3.And(x.t == 0, y.t == 0), r.t == 0))
        self.E.axiom(z3.Implies(z3.And(y.t == 0, x.t > 0), r.t == 0))
        self.E.axiom(z3.Implies(z3.And(y.t == 0, x.t < 0), r.t == pi))
        self.E.axiom(z3.Implies(z3.And(x.t == 0, y.t > 0), r.t == pi / 2))
        self.E.axiom(z3.Implies(z3.And(x.t == 0, y.t < 0), r.t == -pi / 2))
        self.E.axiom(z3.Implies(y.t > 0, z3.And(r.t > 0, r.t < pi)))
        self.E.axiom(z3.Implies(y.t < 0, r.t < 0))
        return r

    def m_log(self, x, base=None):
        x = self.num_arg(x)
        if base is not None:
            base = self.num_arg(base)
            if isinstance(x, SV) or isinstance(base, SV):
                raise Undecided("math.log with a base on symbolic numbers")
            if x <= 0:
                self.raise_("ValueError", "math domain error")
            return self.concrete_float(math.log(float(x), float(base)))
        if self.float_mode and not isinstance(x, SV):
            if x <= 0:
                self.raise_("ValueError", "math domain error")
            return math.log(x)
        x = to_real(x)
        if self.E.decide(x <= 0):
            self.raise_("ValueError", "math domain error")
        return self.E.uf("log", x)

    def m_ceil(self, x):
        x = self.num_arg(x)
        if not isinstance(x, SV):
            return math.ceil(x)
        if x.kind != "real":
            return x
        return SV(-z3.ToInt(-x.t), "int")

    # ------------------------------------------------------------------ conversions
    def to_float(self, x):
        x = self.unwrap_num(x)
        if isinstance(x, Obj):
            m, _ = x.cls.lookup("__float__")
            if m is not None:
                r = self.call_method(x, "__float__")
                if r is None:
                    self.raise_("TypeError", "__float__ returned non-float (type NoneType)")
                return self.to_float(r)
            self.raise_("TypeError", "float() argument must be a string or a real number, not '%s'" % x.cls.name)
        if isinstance(x, SV):
            return to_real(x) if x.kind != "real" else x
        if isinstance(x, bool):
            return self.concrete_float(int(x))
        if isinstance(x, (int, Fraction, float)):
            return self.concrete_float(x)
        if isinstance(x, str):
            return self.str_to_float(x)
        if isinstance(x, FmtStr):
            ns = x.nums()
            if len(x.parts) == 1 and len(ns) == 1:
                return self.numeral_value(ns[0])
            if len(ns) == 1 and all(isinstance(p, str) and p.strip() == "" for p in x.parts if isinstance(p, str)):
                return self.numeral_value(ns[0])
            if len(ns) >= 1 and any(isinstance(p, str) and p.strip() != "" for p in x.parts):
                txt = "".join(p for p in x.parts if isinstance(p, str)).strip()
                if not any(c.isdigit() or c in "eE.+-_" for c in txt):
                    self.raise_("ValueError", "could not convert string to float")
            raise Undecided("float() of formatted string")
        self.raise_("TypeError", "float() argument must be a string or a real number, not '%s'" % type(x).__name__)

    def numeral_value(self, n):
        # A5: float(text printed with %.12f / %s / %.12G of v) == v  (precision loss not modelled)
        return self.to_float(n.value)

    def str_to_float(self, s):
        t = s.strip()
        try:
            v = float(t)
        except ValueError:
            self.raise_("ValueError", "could not convert string to float: %r" % s)
        if self.float_mode:
            return v
        if v != v or v in (float("inf"), float("-inf")):
            raise Undecided("non-finite float literal")
        tl = t.lower().replace("_", "")
        try:
            return F(Fraction(tl))
        except (ValueError, ZeroDivisionError):
            return F(v)

    def to_int(self, x, base=None):
        x = self.unwrap_num(x)
        if base is not None:
            if not isinstance(x, str):
                self.raise_("TypeError", "int() can't convert non-string with explicit base")
            try:
                return int(x, base)
            except ValueError:
                self.raise_("ValueError", "invalid literal for int() with base %d: %r" % (base, x))
        if isinstance(x, Obj):
            m, _ = x.cls.lookup("__int__")
            if m is not None:
                return self.call_method(x, "__int__")
            self.raise_("TypeError", "int() argument must be a string or a number")
        if isinstance(x, SV):
            if x.kind == "int":
                return x
            if x.kind == "bool":
                return 1 if self.E.decide(x) else 0     # int(bool): decided per path, so flags stay concrete
            # truncation toward zero, as a fresh integer with linear bounds (no ToInt term)
            t = self.E.fresh_int("trunc")
            tr = z3.ToReal(t.t)
            self.E.axiom(z3.And(z3.Implies(x.t >= 0, z3.And(tr <= x.t, x.t < tr + 1)),
                                z3.Implies(x.t < 0, z3.And(tr - 1 < x.t, x.t <= tr))))
            return t
        if isinstance(x, bool):
            return int(x)
        if isinstance(x, int):
            return x
        if isinstance(x, (Fraction, float)):
            return int(x)
        if isinstance(x, str):
            try:
                return int(x)
            except ValueError:
                self.raise_("ValueError", "invalid literal for int() with base 10: %r" % x)
        if isinstance(x, FmtStr):
            ns = x.nums()
            if len(ns) == 1 and all(isinstance(p, str) and p.strip() == "" for p in x.parts if isinstance(p, str)):
                v = ns[0].value
                if isinstance(v, SV) and v.kind == "int" or isinstance(v, int):
                    return v  # A5: int(numeral of an integer n) == n
                # the numeral of a non-integer value has a fractional part or exponent: int() rejects it
                raise Undecided("int() of a real-valued numeral")
            raise Undecided("int() of formatted string")
        self.raise_("TypeError", "int() argument must be a string or a number, not '%s'" % type(x).__name__)

    def to_str(self, x):
        if isinstance(x, (str, FmtStr)):
            return x
        if x is None or isinstance(x, bool):
            return str(x)
        if isinstance(x, int):
            return str(x)
        if isinstance(x, float):
            return repr(x)
        if isinstance(x, PyFloat):
            fl = float(x)
            if Fraction(repr(fl)) == Fraction(x) or Fraction(fl) == Fraction(x):
                return repr(fl)
            return FmtStr([Num(x, "repr")])
        if isinstance(x, SV):
            if x.kind == "real":
                return FmtStr([Num(x, "repr")])
            if x.kind == "int":
                return FmtStr([Num(x, "d")])
            raise Undecided("str of symbolic bool")
        if isinstance(x, Obj):
            if x.num is not None:
                m, _ = x.cls.lookup("__str__")
                if m is None:
                    m2, _ = x.cls.lookup("__repr__")
                    if m2 is not None:
                        return self.call_method(x, "__repr__")
                    return self.to_str(x.num)
            m, _ = x.cls.lookup("__str__")
            if m is not None:
                return self.call_method(x, "__str__")
            m, _ = x.cls.lookup("__repr__")
            if m is not None:
                return self.call_method(x, "__repr__")
            return "<%s object>" % x.cls.name
        if isinstance(x, tuple):
            return "(" + ", ".join(self._plain(self.to_repr(e)) for e in x) + ("," if len(x) == 1 else "") + ")"
        if isinstance(x, PList):
            return "[" + ", ".join(self._plain(self.to_repr(e)) for e in x.v) + "]"
        if isinstance(x, ExcVal):
            return ", ".join(str(a) for a in x.args)
        raise Undecided("str(%s)" % type(x).__name__)

    def _plain(self, s):
        if isinstance(s, str):
            return s
        raise Undecided("container repr with symbolic numerals")

    def to_repr(self, x):
        if isinstance(x, str):
            return repr(x)
        if isinstance(x, Obj):
            m, _ = x.cls.lookup("__repr__")
            if m is not None:
                return self.call_method(x, "__repr__")
        return self.to_str(x)

    def call_builtin_type(self, t, args, kwargs):
        n = t.name
        if n == "float":
            if not args:
                return self.concrete_float(0)
            return self.to_float(args[0])
        if n == "int":
            if not args:
                return 0
            return self.to_int(args[0], args[1] if len(args) > 1 else kwargs.get("base"))
        if n == "bool":
            if not args:
                return False
            v = args[0]
            if isinstance(v, SV):
                return to_bool(v)
            return self.truth(v)
        if n == "str":
            if not args:
                return ""
            return self.to_str(args[0])
        if n == "list":
            if not args:
                return PList()
            return PList(self.iterate(args[0]))
        if n == "tuple":
            if not args:
                return ()
            return tuple(self.iterate(args[0]))
        if n == "dict":
            d = PDict()
            if args:
                a = args[0]
                if isinstance(a, PDict):
                    d.v.update(a.v)
                else:
                    for kv in self.iterate(a):
                        k, v = self.iterate(kv)
                        d.v[k] = v
            d.v.update(kwargs)
            return d
        if n == "set":
            vals = self.iterate(args[0]) if args else []
            if any(isinstance(x, (SV,)) for x in vals):
                raise Undecided("set of symbolic values")
            return frozenset(vals)
        if n == "complex":
            vals = [self.unwrap_num(a) for a in args]
            if len(vals) == 1 and isinstance(vals[0], Obj):
                m, _ = vals[0].cls.lookup("__complex__")
                if m is not None:
                    raise Undecided("complex(Point)")
            if any(isinstance(v, SV) for v in vals):
                raise Undecided("symbolic complex")
            if self.float_mode:
                return complex(*vals)
            raise Undecided("complex numbers")
        if n == "object":
            return Obj(ClassVal("object", [], {}))
        if n == "slice":
            return self.mk_slice(*(list(args) + [None] * (3 - len(args)))) if len(args) > 1 else self.mk_slice(
                None, args[0], None)
        if n == "type":
            if len(args) == 1:
                return self.type_of(args[0])
        raise Undecided("call of type %s" % n)

    def type_of(self, x):
        if isinstance(x, Obj):
            return x.cls
        if isinstance(x, bool) or (isinstance(x, SV) and x.kind == "bool"):
            return BT["bool"]
        if is_int_val(x):
            return BT["int"]
        if is_float_val(x):
            return BT["float"]
        if isinstance(x, (str, FmtStr)):
            return BT["str"]
        if isinstance(x, PList):
            return BT["list"]
        if isinstance(x, tuple):
            return BT["tuple"]
        if isinstance(x, PDict):
            return BT["dict"]
        raise Undecided("type()")

    def builtin_type_attr(self, t, name):
        if t.name == "list":
            if name == "__init__":
                return Builtin("list.__init__", lambda o, *a: self._list_init(o, *a))
            if name in ("append", "extend", "insert", "pop", "remove", "index", "count", "reverse", "clear", "copy",
                        "__len__", "__getitem__", "__iter__", "__contains__"):
                return Builtin("list." + name, lambda o, *a: self.call(self.list_method(
                    o.items if isinstance(o, Obj) else o, name, o if isinstance(o, Obj) else None), list(a), {}))
        if t.name == "dict" and name == "fromkeys":
            raise Undecided("dict.fromkeys")
        if t.name == "float" and name in ("__new__",):
            raise Undecided("float.__new__")
        if t.name == "str" and name == "lower":
            return Builtin("str.lower", lambda s: s.lower())
        if t.name == "object" and name == "__init__":
            return Builtin("object.__init__", lambda *a, **k: None)
        return None

    def _list_init(self, o, *a):
        if isinstance(o, Obj):
            if o.items is None:
                object.__setattr__(o, "items", PList())
            o.items.v[:] = self.iterate(a[0]) if a else []
        return None

    # ------------------------------------------------------------------ builtin functions
    def call_builtin_len(self, x):
        return self.bi_len(x)

    def bi_len(self, x):
        if isinstance(x, (str, tuple, list)):
            return len(x)
        if isinstance(x, PList):
            return len(x.v)
        if isinstance(x, PDict):
            return len(x.v)
        if isinstance(x, Obj):
            m, _ = x.cls.lookup("__len__")
            if m is not None:
                return self.call_method(x, "__len__")
            if x.items is not None:
                return len(x.items.v)
        if isinstance(x, (frozenset, set, range)):
            return len(x)
        if isinstance(x, FmtStr):
            return len(x.placeholder()[0])  # length of the representative spelling (consistent with regex positions)
        from .core import LazySeq

        if isinstance(x, LazySeq):
            self.raise_("TypeError", "object of type 'generator' has no len()")
        self.raise_("TypeError", "object of type '%s' has no len()" % type(x).__name__)

    def isinstance1(self, x, c):
        if isinstance(c, tuple):
            return any(self.isinstance1(x, k) for k in c)
        if isinstance(c, ClassVal):
            return isinstance(x, Obj) and c in x.cls.mro()
        if isinstance(c, ExcClass):
            return isinstance(x, ExcVal) and c in x.cls.mro()
        if isinstance(c, BuiltinType):
            n = c.name
            if isinstance(x, Obj):
                return c in x.cls.mro() or n == "object"
            if n == "object":
                return True
            if n == "int":
                return is_int_val(x)
            if n == "bool":
                return isinstance(x, bool) or (isinstance(x, SV) and x.kind == "bool")
            if n == "float":
                return is_float_val(x)
            if n == "str":
                return isinstance(x, (str, FmtStr))
            if n == "list":
                return isinstance(x, PList)
            if n == "tuple":
                return isinstance(x, tuple)
            if n == "dict":
                return isinstance(x, PDict)
            if n == "complex":
                return isinstance(x, complex)
            if n == "slice":
                return isinstance(x, slice)
            if n == "set":
                return isinstance(x, (set, frozenset))
            if n == "MutableSequence":
                return isinstance(x, PList)
            return False
        self.raise_("TypeError", "isinstance() arg 2 must be a type or tuple of types")

    def bi_isinstance(self, x, c):
        return self.isinstance1(x, c)

    def bi_issubclass(self, a, c):
        if isinstance(c, tuple):
            return any(self.bi_issubclass(a, k) for k in c)
        if isinstance(a, ClassVal):
            return c in a.mro()
        return a is c

    def bi_callable(self, x):
        return isinstance(x, (PyFunc, BoundMethod, Builtin, ClassVal, BuiltinType, ExcClass))

    def bi_id(self, x):
        return id(x)

    def bi_abs(self, x):
        if isinstance(x, Obj) and x.num is None:
            m, _ = x.cls.lookup("__abs__")
            if m is None:
                self.raise_("TypeError", "bad operand type for abs(): '%s'" % x.cls.name)
            return self.call_method(x, "__abs__")
        x = self.unwrap_num(x)
        if isinstance(x, SV):
            x = to_int(x) if x.kind == "bool" else x
            return SV(z3.If(x.t >= 0, x.t, -x.t))
        if not is_number(x):
            self.raise_("TypeError", "bad operand type for abs(): '%s'" % type(x).__name__)
        r = abs(x)
        return F(r) if isinstance(x, PyFloat) else r

    def _minmax(self, name, args, kwargs):
        if "key" in kwargs:
            raise Undecided("min/max with key")
        if len(args) == 1:
            vals = self.iterate(args[0])
            if not vals:
                if "default" in kwargs:
                    return kwargs["default"]
                self.raise_("ValueError", "%s() arg is an empty sequence" % name)
        else:
            vals = list(args)
        best = vals[0]
        for v in vals[1:]:
            # python: min keeps the first of equal elements; max too (uses > / <)
            c = self.compare("<" if name == "min" else ">", v, best)
            if isinstance(c, SV) and is_number(self.unwrap_num(v)) and is_number(self.unwrap_num(best)):
                vv, bb = self.unwrap_num(v), self.unwrap_num(best)
                if is_float_val(vv) == is_float_val(bb):
                    best = sv_ite(c, vv, bb)
                    continue
            if self.truth(c):
                best = v
        return best

    def bi_min(self, *args, **kwargs):
        return self._minmax("min", args, kwargs)

    def bi_max(self, *args, **kwargs):
        return self._minmax("max", args, kwargs)

    def bi_round(self, x, nd=None):
        x = self.unwrap_num(x)
        if nd is not None:
            raise Undecided("round with digits")
        if isinstance(x, Obj):
            raise Undecided("round of object")
        if isinstance(x, SV):
            if x.kind != "real":
                return to_int(x)
            # round half to even over the reals, relationally: r is the integer with |x - r| <= 1/2, even on ties
            r = self.E.fresh_int("round")
            k = self.E.fresh_int("half")
            self.E.axiom(z3.And(2 * (x.t - z3.ToReal(r.t)) <= 1, 2 * (z3.ToReal(r.t) - x.t) <= 1,
                                z3.Implies(z3.Or(2 * (x.t - z3.ToReal(r.t)) == 1, 2 * (z3.ToReal(r.t) - x.t) == 1),
                                           r.t == 2 * k.t)))
            return r
        if isinstance(x, (int,)):
            return x
        if isinstance(x, (Fraction, float)):
            return round(x)
        self.raise_("TypeError", "type %s doesn't define __round__ method" % type(x).__name__)

    def bi_sum(self, it, start=0):
        acc = start
        for v in self.iterate(it):
            acc = self.binop("+", acc, v)
        return acc

    def bi_pow(self, a, b, m=None):
        if m is not None:
            raise Undecided("3-arg pow")
        return self.binop("**", a, b)

    def bi_divmod(self, a, b):
        return (self.binop("//", a, b), self.binop("%", a, b))

    def bi_range(self, *args):
        vals = []
        for a in args:
            a = self.unwrap_num(a)
            if isinstance(a, SV):
                raise Undecided("symbolic range bound")
            if not isinstance(a, int):
                self.raise_("TypeError", "'%s' object cannot be interpreted as an integer" % type(a).__name__)
            vals.append(a)
        return range(*vals)

    def bi_enumerate(self, it, start=0):
        return PList([(i + start, v) for i, v in enumerate(self.iterate(it))])

    def bi_zip(self, *its):
        from .core import LazySeq

        # element-wise pulling, so that the idiom zip(*[iter(x)] * 2) (one shared iterator) pairs consecutive items
        sources = []
        for it in its:
            if isinstance(it, LazySeq):
                sources.append(it)
            else:
                sources.append(LazySeq(self.iterate(it)))
        out = []
        while True:
            row = []
            for src in sources:
                if src.pos >= len(src.vals):
                    return PList(out)
                row.append(src.vals[src.pos])
                src.pos += 1
            if not sources:
                return PList(out)
            out.append(tuple(row))

    def bi_map(self, f, *its):
        seqs = [self.iterate(i) for i in its]
        from .core import LazySeq

        return LazySeq([self.call(f, list(t), {}) for t in zip(*seqs)])

    def bi_filter(self, f, it):
        from .core import LazySeq

        return LazySeq([x for x in self.iterate(it) if self.truth(self.call(f, [x], {}) if f is not None else x)])

    def bi_reversed(self, x):
        if isinstance(x, Obj):
            m, _ = x.cls.lookup("__reversed__")
            if m is not None:
                return self.call_method(x, "__reversed__")
        return PList(list(reversed(self.iterate(x))))

    def bi_iter(self, x):
        from .core import LazySeq

        return LazySeq(self.iterate(x))

    def bi_next(self, it, *default):
        from .core import LazySeq

        if isinstance(it, LazySeq):
            if it.pos < len(it.vals):
                v = it.vals[it.pos]
                it.pos += 1
                return v
            if default:
                return default[0]
            self.raise_("StopIteration")
        if isinstance(it, Obj):
            return self.call_method(it, "__next__")
        self.raise_("TypeError", "object is not an iterator")

    def bi_hasattr(self, o, name):
        return self.hasattr(o, name)

    def bi_getattr(self, o, name, *default):
        try:
            return self.getattr(o, name)
        except PyRaise as e:
            if default and EXC["AttributeError"] in e.exc.cls.mro():
                return default[0]
            raise

    def bi_setattr(self, o, name, v):
        self.setattr(o, name, v)

    def bi_sorted(self, it, key=None, reverse=False):
        vals = self.iterate(it)
        keys = [self.call(key, [v], {}) if key is not None else v for v in vals]
        if any(isinstance(k, SV) for k in keys):
            raise Undecided("sorting symbolic values")
        order = sorted(range(len(vals)), key=lambda i: keys[i], reverse=bool(reverse))
        return PList([vals[i] for i in order])

    def bi_repr(self, x):
        return self.to_repr(x)

    def bi_hash(self, x):
        raise Undecided("hash()")

    def bi_print(self, *a, **k):
        return None

    def bi_any(self, it):
        for v in self.iterate(it):
            if self.truth(v):
                return True
        return False

    def bi_all(self, it):
        for v in self.iterate(it):
            if not self.truth(v):
                return False
        return True

    def bi_hex(self, x):
        if isinstance(x, SV):
            raise Undecided("hex of symbolic")
        return hex(x)

    def bi_chr(self, x):
        return chr(x)

    def bi_ord(self, x):
        return ord(x)

    def bi_copy(self, x):
        if isinstance(x, Obj):
            m, _ = x.cls.lookup("__copy__")
            if m is not None:
                return self.call_method(x, "__copy__")
            if x.num is not None:
                return x
            raise Undecided("copy() of %s without __copy__" % x.cls.name)
        if isinstance(x, PList):
            return PList(x.v)
        if isinstance(x, PDict):
            return PDict(x.v)
        return x

    # ------------------------------------------------------------------ str / list / dict methods
    def str_method(self, s, name):
        if isinstance(s, FmtStr):
            return self.fmt_method(s, name)

        def wrap(*args, **kwargs):
            for a in args:
                if isinstance(a, (SV, FmtStr, Obj)):
                    if name == "join":
                        break
                    raise Undecided("str.%s with symbolic argument" % name)
            if name == "join":
                parts = [self.to_join_part(p) for p in self.iterate(args[0])]
                if all(isinstance(p, str) for p in parts):
                    return s.join(parts)
                out = []
                for i, p in enumerate(parts):
                    if i:
                        out.append(s)
                    out.append(p)
                return FmtStr(out)
            if name == "format":
                if any(isinstance(a, (SV, FmtStr)) for a in args):
                    raise Undecided("str.format with symbolic argument")
                return s.format(*[self._plain(self.to_str(a)) if not isinstance(a, (int, str)) else a for a in args])
            if name in ("split", "rsplit", "splitlines"):
                return PList(getattr(s, name)(*args, **kwargs))
            if name == "partition":
                return tuple(s.partition(*args))
            try:
                r = getattr(s, name)(*args, **kwargs)
            except AttributeError:
                self.raise_("AttributeError", "'str' object has no attribute '%s'" % name)
            except (TypeError, ValueError) as e:
                self.raise_(type(e).__name__, str(e))
            return r

        if not hasattr("", name):
            self.raise_("AttributeError", "'str' object has no attribute '%s'" % name)
        return Builtin("str." + name, wrap)

    def to_join_part(self, p):
        if isinstance(p, (str, FmtStr)):
            return p
        self.raise_("TypeError", "sequence item: expected str instance, %s found" % type(p).__name__)

    def fmt_method(self, s, name):
        def rstrip(chars=None):
            if not s.parts:
                return s
            last = s.parts[-1]
            if isinstance(last, str):
                stripped = last.rstrip(chars)
                if stripped:
                    return FmtStr(s.parts[:-1] + [stripped])
                if len(s.parts) == 1:
                    return ""
                raise Undecided("rstrip through a numeral")
            if chars in ("0", ".") and "f" in last.fmt:
                # A5: stripping trailing zeros / the dot of a %.Nf numeral does not change its value
                return FmtStr(s.parts[:-1] + [Num(last.value, last.fmt, True)])
            if chars in ("0", ".") and last.fmt.endswith("G"):
                return FmtStr(s.parts[:-1] + [Num(last.value, last.fmt, True)])
            raise Undecided("rstrip(%r) of numeral" % (chars,))

        def lower():
            return FmtStr([p.lower() if isinstance(p, str) else p for p in s.parts])

        def strip(chars=None):
            parts = list(s.parts)
            if parts and isinstance(parts[0], str):
                parts[0] = parts[0].lstrip(chars)
            if parts and isinstance(parts[-1], str):
                parts[-1] = parts[-1].rstrip(chars)
            return FmtStr(parts)

        def endswith(suf):
            last = s.parts[-1]
            if isinstance(last, str) and len(last) >= len(suf):
                return last.endswith(suf)
            if isinstance(last, str) and len(s.parts) >= 2 and not isinstance(s.parts[-2], str):
                if not suf.endswith(last):
                    return False
                need = suf[-(len(last) + 1)]
                if not (need.isdigit() or need == "."):
                    return False  # a numeral ends in a digit or a dot (A5; inf/nan excluded by A1)
            if not isinstance(last, str) and suf.isalpha() and suf.lower() not in ("e", "inf", "nan"):
                return False
            if not isinstance(last, str) and suf in ("%", ";"):
                return False
            raise Undecided("endswith on formatted string")

        def startswith(pre):
            first = s.parts[0]
            if isinstance(first, str) and len(first) >= len(pre):
                return first.startswith(pre)
            raise Undecided("startswith on formatted string")

        table = {"rstrip": rstrip, "lower": lower, "strip": strip, "endswith": endswith, "startswith": startswith}
        if name in table:
            return Builtin("fmtstr." + name, table[name])
        raise Undecided("method %s of a formatted string" % name)

    def str_format(self, fmt, arg):
        """fmt % arg"""
        if isinstance(fmt, FmtStr):
            raise Undecided("% on formatted string")
        args = list(arg) if isinstance(arg, tuple) else [arg]
        # tokenize format
        out = []
        i = 0
        k = 0
        for m in re.finditer(r"%(?:\(\w+\))?([-#0 +]*)(\d+|\*)?(?:\.(\d+))?([sdfGgxXre%i])", fmt):
            out.append(fmt[i:m.start()])
            i = m.end()
            conv = m.group(4)
            if conv == "%":
                out.append("%")
                continue
            if k >= len(args):
                self.raise_("TypeError", "not enough arguments for format string")
            a = args[k]
            k += 1
            spec = m.group(0)
            out.append(self.format_one(spec, conv, a))
        out.append(fmt[i:])
        if k < len(args):
            self.raise_("TypeError", "not all arguments converted during string formatting")
        if all(isinstance(p, str) for p in out):
            return "".join(out)
        return FmtStr(out)

    def format_one(self, spec, conv, a):
        if conv in ("s", "r"):
            s = self.to_str(a) if conv == "s" else self.to_repr(a)
            if spec in ("%s", "%r"):
                return s
            if isinstance(s, str):
                return spec.replace("r", "s") % s
            raise Undecided("padded %s of symbolic")
        a = self.unwrap_num(a)
        if isinstance(a, Obj):
            if conv in ("f", "G", "g", "e"):
                m, _ = a.cls.lookup("__float__")
                if m is not None:
                    a = self.call_method(a, "__float__")
                else:
                    self.raise_("TypeError", "must be real number, not %s" % a.cls.name)
            else:
                self.raise_("TypeError", "%%%s format: a number is required, not %s" % (conv, a.cls.name))
        if a is None or isinstance(a, (str, FmtStr, PList, PDict, tuple)):
            self.raise_("TypeError", "%%%s format: a real number is required, not %s" % (conv, type(a).__name__))
        if isinstance(a, SV):
            if conv in ("d", "i") and a.kind == "real":
                a = self.to_int(a)
            return Num(a, spec[1:])
        if conv in ("d", "i", "x", "X"):
            if isinstance(a, (Fraction, float)):
                a = int(a)
            return spec % a
        if isinstance(a, PyFloat):
            fl = float(a)
            if Fraction(fl) == Fraction(a) or Fraction(repr(fl)) == Fraction(a):
                return spec % fl
            return Num(a, spec[1:])
        return spec % a

    def list_method(self, l, name, owner=None):
        def append(x):
            l.v.append(x)
            self.log_write(l, None)

        def extend(it):
            l.v.extend(self.iterate(it))
            self.log_write(l, None)

        def insert(i, x):
            i = self.unwrap_num(i)
            if isinstance(i, SV):
                raise Undecided("symbolic insert index")
            l.v.insert(i, x)
            self.log_write(l, None)

        def pop(i=-1):
            if not l.v:
                self.raise_("IndexError", "pop from empty list")
            r = l.v.pop(self.norm_index(i, len(l.v)))
            self.log_write(l, None)
            return r

        def remove(x):
            for k, e in enumerate(l.v):
                if e is x or self.truth(self.py_eq(e, x)):
                    del l.v[k]
                    self.log_write(l, None)
                    return
            self.raise_("ValueError", "list.remove(x): x not in list")

        def index(x):
            for k, e in enumerate(l.v):
                if e is x or self.truth(self.py_eq(e, x)):
                    return k
            self.raise_("ValueError", "x not in list")

        def count(x):
            return sum(1 for e in l.v if e is x or self.truth(self.py_eq(e, x)))

        def reverse():
            l.v.reverse()
            self.log_write(l, None)

        def clear():
            del l.v[:]
            self.log_write(l, None)

        def copy():
            return PList(l.v)

        def sort(key=None, reverse=False):
            r = self.bi_sorted(l, key, reverse)
            l.v[:] = r.v
            self.log_write(l, None)

        table = dict(append=append, extend=extend, insert=insert, pop=pop, remove=remove, index=index, count=count,
                     reverse=reverse, clear=clear, copy=copy, sort=sort)
        table["__len__"] = lambda: len(l.v)
        table["__getitem__"] = lambda i: self.subscript(l, i)
        table["__iter__"] = lambda: PList(l.v)
        table["__contains__"] = lambda x: self.contains(l, x)
        if name in table:
            return Builtin("list." + name, table[name])
        self.raise_("AttributeError", "'list' object has no attribute '%s'" % name)

    def tuple_method(self, t, name):
        if name == "index":
            def index(x):
                for k, e in enumerate(t):
                    if e is x or self.truth(self.py_eq(e, x)):
                        return k
                self.raise_("ValueError", "tuple.index(x): x not in tuple")

            return Builtin("tuple.index", index)
        if name == "count":
            return Builtin("tuple.count", lambda x: sum(1 for e in t if e is x or self.truth(self.py_eq(e, x))))
        self.raise_("AttributeError", "'tuple' object has no attribute '%s'" % name)

    def dict_method(self, d, name):
        def chk(k):
            if isinstance(k, SV):
                raise Undecided("symbolic dict key")
            return k

        def get(k, default=None):
            return d.v.get(chk(k), default)

        def update(other=None, **kw):
            if other is not None:
                if isinstance(other, PDict):
                    d.v.update(other.v)
                else:
                    for kv in self.iterate(other):
                        k, v = self.iterate(kv)
                        d.v[k] = v
            d.v.update(kw)
            self.log_write(d, None)

        def items():
            return PList([(k, v) for k, v in d.v.items()])

        def keys():
            return PList(list(d.v.keys()))

        def values():
            return PList(list(d.v.values()))

        def pop(k, *default):
            if chk(k) in d.v:
                self.log_write(d, k)
                return d.v.pop(k)
            if default:
                return default[0]
            self.raise_("KeyError", k)

        def setdefault(k, default=None):
            if chk(k) not in d.v:
                d.v[k] = default
                self.log_write(d, k)
            return d.v[k]

        def copy():
            return PDict(d.v)

        table = dict(get=get, update=update, items=items, keys=keys, values=values, pop=pop, setdefault=setdefault,
                     copy=copy)
        if name in table:
            return Builtin("dict." + name, table[name])
        self.raise_("AttributeError", "'dict' object has no attribute '%s'" % name)

    # ------------------------------------------------------------------ regular expressions (A5)
    # Concrete subject strings are matched with the real `re` engine on the pattern text extracted
    # from the source.  Symbolic subjects are not supported here (see contracts/runtime.py).
    def regex_method(self, r, name):
        rx = re.compile(r.pattern, r.flags)

        holder = {}

        def need_str(s):
            if isinstance(s, str):
                return s
            if isinstance(s, FmtStr):
                # A5 (numeral-spelling independence): every opaque numeral is replaced by a distinct concrete
                # placeholder numeral, the real regex runs on that text, and placeholders found in the
                # result are mapped back to the opaque numerals.
                for part in s.parts:
                    if isinstance(part, str) and PLACEHOLDER_RE.search(part):
                        raise Undecided("text collides with numeral placeholders")
                text, hd = s.placeholder()
                holder.update(hd)
                return text
            if s is None or is_number(s) or isinstance(s, (Obj, PList, PDict, tuple)):
                self.raise_("TypeError", "expected string or bytes-like object, got '%s'" % type(s).__name__)
            raise Undecided("regex on symbolic text (%s)" % r.pattern[:30])

        def back(x):
            if isinstance(x, tuple):
                return tuple(back(e) for e in x)
            if not isinstance(x, str) or not holder:
                return x
            pieces = PLACEHOLDER_RE.split(x)
            if len(pieces) == 1:
                for k in holder:
                    for j in range(3, 6):
                        if x.endswith(k[:j]) or x.startswith(k[-j:]):
                            raise Undecided("regex split a numeral placeholder")
                return x
            keys = PLACEHOLDER_RE.findall(x)
            parts = []
            for i, piece in enumerate(pieces):
                if piece:
                    if (piece[-1:].isdigit() and i < len(keys)) or (piece[:1].isdigit() and i > 0):
                        raise Undecided("digits adjacent to a numeral placeholder: %r of %r" % (piece, x))
                    parts.append(piece)
                if i < len(keys):
                    if keys[i] not in holder:
                        raise Undecided("unknown placeholder")
                    parts.append(holder[keys[i]])
            return FmtStr(parts)

        def findall(s, *a):
            res = rx.findall(need_str(s), *a)
            return PList([back(tuple(x)) if isinstance(x, tuple) else back(x) for x in res])

        def match(s, *a):
            m = rx.match(need_str(s), *a)
            return NativeMatch(self, m, back) if m is not None else None

        def search(s, *a):
            m = rx.search(need_str(s), *a)
            return NativeMatch(self, m, back) if m is not None else None

        def sub(repl, s, *a):
            if not isinstance(repl, str):
                raise Undecided("re.sub callable")
            return rx.sub(repl, need_str(s), *a)

        def fullmatch(s, *a):
            m = rx.fullmatch(need_str(s), *a)
            return NativeMatch(self, m) if m is not None else None

        table = dict(findall=findall, match=match, search=search, sub=sub, fullmatch=fullmatch)
        if name in table:
            return Builtin("regex." + name, table[name])
        if name == "pattern":
            return r.pattern
        raise Undecided("regex method %s" % name)

    def re_sub(self, pat, repl, s, *a):
        return self.call(self.regex_method(pat if isinstance(pat, RegexVal) else RegexVal(pat), "sub"),
                         [repl, s] + list(a), {})

    def re_findall(self, pat, s, *a):
        return self.call(self.regex_method(pat if isinstance(pat, RegexVal) else RegexVal(pat), "findall"),
                         [s] + list(a), {})


class NativeMatch(Obj):
    """wraps a real re.Match so that interpreted code can call .group() / .end() / .lastgroup"""

    __slots__ = ("m", "ip")

    def __init__(self, ip, m, back=lambda x: x):
        cls = ClassVal("Match", [BT["object"]], {})
        Obj.__init__(self, cls)
        object.__setattr__(self, "m", m)
        object.__setattr__(self, "ip", ip)
        m_ = m
        self.fd["lastgroup"] = m_.lastgroup
        self.fd["group"] = Builtin("match.group", lambda *a: back(m_.group(*a)))
        self.fd["groups"] = Builtin("match.groups", lambda *a: back(tuple(m_.groups(*a))))
        self.fd["end"] = Builtin("match.end", lambda *a: m_.end(*a))
        self.fd["start"] = Builtin("match.start", lambda *a: m_.start(*a))
        self.fd["span"] = Builtin("match.span", lambda *a: m_.span(*a))
