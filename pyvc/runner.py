"""Runs obligations: symbolic exploration, discharge, covers, differential self-check, replay."""
import hashlib
import json
import os
import subprocess
import sys
import time
import traceback

VERIF = os.path.dirname(os.path.dirname(os.path.abspath(__file__)))


def repo_dir():
    return os.environ.get("VERIF_REPO", "/repo")


def source_path():
    return os.path.join(repo_dir(), "svgelements", "svgelements.py")


_interp_cache = {}


def get_source():
    with open(source_path(), encoding="latin-1") as f:
        return f.read()


def new_interp(float_mode=False):
    from .core import Interp

    key = ("src",)
    if key not in _interp_cache:
        _interp_cache[key] = get_source()
    return Interp(_interp_cache[key], float_mode=float_mode)


# ------------------------------------------------------------------------------------------------
# concrete side process
# ------------------------------------------------------------------------------------------------
FRAME_CLAUSE = "module_level_state_is_not_written"

class ConcProc(object):
    def __init__(self):
        env = dict(os.environ)
        env["VERIF_REPO"] = repo_dir()
        env["PYTHONPATH"] = VERIF
        env.pop("PYTHONHOME", None)
        self.p = subprocess.Popen(["/venv/bin/python", "-m", "pyvc.conc_runner"], cwd=VERIF, env=env,
                                  stdin=subprocess.PIPE, stdout=subprocess.PIPE, stderr=subprocess.PIPE, text=True)

    def ask(self, req):
        try:
            self.p.stdin.write(json.dumps(req) + "\n")
            self.p.stdin.flush()
            line = self.p.stdout.readline()
            if not line:
                err = self.p.stderr.read()[-2000:]
                return {"ok": False, "error": "concrete runner died: " + err}
            return json.loads(line)
        except Exception as e:  # noqa
            return {"ok": False, "error": "%s: %s" % (type(e).__name__, e)}

    def close(self):
        try:
            self.p.stdin.close()
            self.p.wait(timeout=5)
        except Exception:
            self.p.kill()


_conc = None


def conc():
    global _conc
    if _conc is None or _conc.p.poll() is not None:
        _conc = ConcProc()
    return _conc


# ------------------------------------------------------------------------------------------------
# one obligation
# ------------------------------------------------------------------------------------------------
def func_hashes(interp, funcs):
    """qualified name -> (first line, last line, sha256 of the source text) of functions under contract"""
    import ast

    out = {}
    index = {}
    for node in interp.tree.body:
        if isinstance(node, ast.ClassDef):
            for s in node.body:
                if isinstance(s, ast.FunctionDef):
                    index.setdefault("%s.%s" % (node.name, s.name), []).append(s)
        elif isinstance(node, ast.FunctionDef):
            index.setdefault(node.name, []).append(node)
    lines = interp.lines
    for q in funcs:
        nodes = index.get(q)
        if not nodes:
            out[q] = None
            continue
        h = hashlib.sha256()
        lo, hi = 10 ** 9, 0
        for n in nodes:
            start = min([n.lineno] + [d.lineno for d in n.decorator_list])
            lo, hi = min(lo, start), max(hi, n.end_lineno)
            h.update("\n".join(lines[start - 1:n.end_lineno]).encode("utf-8"))
        out[q] = [lo, hi, h.hexdigest()[:16]]
    return out


def run_obligation(name, tier="quick", seed=0, do_diff=True):
    """returns a JSON-able record"""
    from . import registry, engine as eng
    from .api import SymE
    from .interp import PyRaise
    from .engine import Engine, Undecided, PathBudget, solve_vc

    registry.load_all()
    ob = registry.OBLIGATIONS[name]
    t0 = time.time()
    rec = {"name": name, "props": ob.props, "kind": ob.kind, "funcs": ob.funcs, "status": None, "clauses": {},
           "paths": 0, "vcs": 0, "covers": 0, "solver_s": 0.0, "backends": {}, "notes": [], "diff": None,
           "failures": [], "uses": list(ob.uses)}
    timeout_ms = ob.timeout_ms or (30000 if tier == "quick" else 120000)
    try:
        ip = new_interp()
        E = Engine(ip, max_paths=ob.max_paths)
        ip.attach(E)
        rec["func_hashes"] = func_hashes(ip, ob.funcs)
        missing = [q for q, v in rec["func_hashes"].items() if v is None]
        if missing:
            rec["status"] = "undecided"
            rec["notes"].append("functions under contract not found in source: %s" % missing)
            rec["wall_s"] = time.time() - t0
            return rec
        called = []
        ip.trace_calls = called
        ip.contracts_used = set()

        frame_paths = {"ok": 0, "bad": 0}

        def thunk(core):
            se = SymE(core, ip)
            try:
                ob.fn(se)
            except PyRaise as pr:
                core.ensure("no-unexpected-exception", False,
                            note="escaped: %s%r" % (pr.exc.cls.name, pr.exc.args))
            finally:
                # frame condition of every function under contract: objects that exist before any call (created by
                # the module body: class attributes, module constants) are never written.  Also what keeps the
                # exploration itself sound, since the module body is executed once per interpreter.
                mark = getattr(ip, "module_mark", None)
                bad = [(sn, fld) for sn, fld in ip.writes if mark is not None and isinstance(sn, int) and sn < mark]
                if bad:
                    frame_paths["bad"] += 1
                    core.ensure(FRAME_CLAUSE, False, note="written: %s" % sorted(set(map(str, bad)))[:4])
                else:
                    frame_paths["ok"] += 1

        tph = time.time()
        try:
            vcs = E.explore(thunk)
        except Undecided as u:
            rec["status"] = "undecided"
            rec["notes"].append("unsupported: %s" % u)
            rec["paths"] = E.paths
            rec["wall_s"] = time.time() - t0
            return rec
        except PathBudget as u:
            rec["status"] = "undecided"
            rec["notes"].append("path budget: %s" % u)
            rec["wall_s"] = time.time() - t0
            return rec
        rec["phase_s"] = {"explore": round(time.time() - tph, 2)}
        tph = time.time()
        rec["paths"] = E.paths
        rec["vcs"] = len(vcs)
        rec["called"] = sorted(set(called))
        rec["contracts_used"] = sorted(ip.contracts_used)
        if not vcs:
            rec["status"] = "fault"
            rec["notes"].append("no verification condition generated (vacuous obligation)")
            rec["wall_s"] = time.time() - t0
            return rec
        # covers: the path condition of at least one path per clause must be satisfiable
        import z3

        cover_ok = {}
        path_sat = {}
        for vc in vcs:
            if cover_ok.get(vc.clause) is True:
                continue
            if vc.path_id not in path_sat:
                path_sat[vc.path_id] = eng._z3_attempt(list(vc.pc), lambda: z3.Solver(), 2000, False)[0]
            r_ = path_sat[vc.path_id]
            if r_ == "sat":
                cover_ok[vc.clause] = True
            elif r_ == "unsat":
                cover_ok.setdefault(vc.clause, False)
            else:
                if not cover_ok.get(vc.clause):
                    cover_ok[vc.clause] = "unknown"
        rec["covers"] = sum(1 for v in cover_ok.values() if v)
        # the generated clause `no-unexpected-exception` exists only on paths that raise; when every such path turns
        # out to be infeasible (kept only because the feasibility check at exploration time gave up) that is the
        # desired outcome, not a vacuous contract
        vacuous = [c for c, v in cover_ok.items() if v is False and c not in ("no-unexpected-exception", FRAME_CLAUSE)]
        rec["phase_s"]["covers"] = round(time.time() - tph, 2)
        tph = time.time()
        # discharge
        status = "proved"
        for vc in vcs:
            st, backend, secs, model, attempts = solve_vc(vc, timeout_ms)
            rec["solver_s"] += secs
            rec["backends"][backend] = rec["backends"].get(backend, 0) + 1
            cl = rec["clauses"].setdefault(vc.clause, {"vcs": 0, "unsat": 0, "sat": 0, "unknown": 0})
            cl["vcs"] += 1
            cl[st] += 1
            if st == "sat":
                status = "refuted"
                if len(rec["failures"]) < 6:
                    rec["failures"].append({"clause": vc.clause, "path": vc.path_id, "model": model, "note": vc.note,
                                            "choices": vc.choices, "backend": backend})
            elif st == "unknown" and status == "proved":
                status = "undecided"
                rec["notes"].append("unknown: clause %s path %d %s" % (vc.clause, vc.path_id, attempts))
        if frame_paths["ok"] and ob.kind != "L" and FRAME_CLAUSE not in rec["clauses"]:
            # decided on every explored path by the executor's heap write log (no solver query needed)
            rec["clauses"][FRAME_CLAUSE] = {"vcs": 0, "unsat": frame_paths["ok"], "sat": 0, "unknown": 0}
        if vacuous and status == "proved":
            status = "fault"
            rec["notes"].append("vacuous clauses (path condition unsatisfiable on every path): %s" % vacuous)
        rec["phase_s"]["solve"] = round(time.time() - tph, 2)
        rec["status"] = status
        rec["solver_s"] = round(rec["solver_s"] + E.solver_time, 3)
        # replay of counter-models on the real code
        for fl in rec["failures"]:
            ans = conc().ask({"op": "replay", "ob": name, "values": fl["model"] or {}, "choices": fl["choices"]})
            fl["replay"] = summarize_replay(ans, fl["clause"])
        # differential self-check of the executor against CPython
        if do_diff and ob.kind != "L" and ob.samples:
            rec["diff"] = differential(ob, name, seed, 8 if tier != "quick" else 1)
            # a clause the solver could not decide but which is false on the real code for a sampled input is
            # refuted by that witness (bounded refutation on the real code; never used to *prove* anything)
            for c, vals, ch in rec["diff"].get("clause_false", []):
                cl = rec["clauses"].get(c)
                if cl and cl["sat"] == 0 and cl["unknown"] > 0:
                    cl["sat"] += 1
                    cl["unknown"] = 0
                    rec["failures"].append({"clause": c, "path": None, "model": vals, "note": "random witness",
                                            "choices": ch, "backend": "sampling",
                                            "replay": {"reproduced": True, "values": vals, "choices": ch,
                                                       "status": "ok", "results": [[c, False]]}})
            if any(cl["sat"] for cl in rec["clauses"].values()):
                status = rec["status"] = "refuted"
            elif status == "undecided" and not any(cl["unknown"] for cl in rec["clauses"].values()):
                status = rec["status"] = "proved"
            if rec["diff"]["mismatch"]:
                rec["status"] = "fault"
                rec["notes"].append("executor disagrees with CPython: %s" % rec["diff"]["mismatch"][:2])
            if status == "proved" and rec["diff"].get("clause_false"):
                # the real code violates a clause the prover accepted: encoding is unsound somewhere
                rec["status"] = "fault"
                rec["notes"].append("proved clause is false on the real code: %s" % rec["diff"]["clause_false"][:2])
    except Exception as e:  # engine exception = checker fault
        rec["status"] = "fault"
        rec["notes"].append("engine exception %s: %s" % (type(e).__name__, e))
        rec["notes"].append(traceback.format_exc()[-1500:])
    rec["wall_s"] = round(time.time() - t0, 3)
    return rec


def summarize_replay(ans, clause):
    if not ans.get("ok"):
        return {"reproduced": False, "error": ans.get("error")}
    r = ans["runs"][0]
    out = {"status": r["status"], "detail": r["detail"], "values": r["values"], "choices": r["choices"],
           "results": r["results"]}
    false_clauses = [c for c, v in r["results"] if not v]
    if clause == "no-unexpected-exception":
        out["reproduced"] = r["status"] == "escaped"
    elif clause == FRAME_CLAUSE:
        out["reproduced"] = clause in false_clauses
    else:
        out["reproduced"] = clause in false_clauses or r["status"] == "escaped"
    if r["status"] == "rejected":
        out["reproduced"] = False
    out["auto_tail"] = r["auto"][-2:] if r.get("auto") else []
    return out


def differential(ob, name, seed, mult=1):
    from .floatengine import FloatEngine, compare, flatten
    from .interp import PyRaise

    ans = conc().ask({"op": "sample", "ob": name, "n": ob.samples * mult, "seed": seed})
    res = {"samples": 0, "mismatch": [], "clause_false": [], "escaped": [], "tries": ans.get("tries")}
    if not ans.get("ok"):
        res["mismatch"].append("concrete runner error: %s" % ans.get("error"))
        return res
    ipf = new_interp(float_mode=True)
    for run in ans["runs"]:
        res["samples"] += 1
        fe = FloatEngine(ipf, run["values"], run["choices"])
        ipf.attach(fe)
        st = "ok"
        detail = ""
        try:
            st = fe.run(ob.fn)
        except PyRaise as pr:
            st = "escaped"
            detail = pr.exc.cls.name
        except Exception as e:  # noqa
            res["mismatch"].append("executor failed on sample %r: %s: %s" % (run["values"], type(e).__name__, e))
            continue
        if run["status"] == "escaped":
            res["escaped"].append(run["detail"])
        if (st == "escaped") != (run["status"] == "escaped"):
            res["mismatch"].append("exception behaviour differs on %r: executor %s %s / CPython %s %s" % (
                run["values"], st, detail, run["status"], run["detail"]))
            continue
        if st == "escaped" and detail and not run["detail"].startswith(detail):
            res["mismatch"].append("exception class differs on %r: %s vs %s" % (run["values"], detail, run["detail"]))
            continue
        d = compare(fe.auto, run["auto"])
        if d:
            res["mismatch"].append("values differ on %r: %s" % (run["values"], d))
        for c, v in run["results"]:
            if not v:
                # a clause such as dot(P, Q) == 0 is evaluated on floats with a tolerance that cannot know the scale of
                # the operands (1e-9 absolute against an exact zero): before the sample counts as a counterexample it
                # is replayed with 1e-6 absolute / relative; what survives is not rounding noise
                again = conc().ask({"op": "replay", "ob": name, "values": run["values"], "choices": run["choices"],
                                    "tol": [1e-6, 1e-6]})
                still = True
                if again.get("ok"):
                    still = any(c2 == c and not v2 for c2, v2 in again["runs"][0]["results"])
                if still:
                    res["clause_false"].append([c, run["values"], run["choices"]])
                else:
                    res.setdefault("float_noise", []).append(c)
    return res


class _Budget(BaseException):
    """raised by SIGALRM when one obligation exceeds its wall-clock budget (passes through `except Exception`)"""


def _worker(args):
    name, tier, seed, do_diff = args
    import signal

    budget = int(os.environ.get("VERIF_OB_BUDGET_S", "420" if tier == "quick" else "2400"))

    def on_alarm(signum, frame):
        raise _Budget()

    try:
        signal.signal(signal.SIGALRM, on_alarm)
        signal.alarm(budget)
    except ValueError:
        pass
    blank = {"clauses": {}, "failures": [], "props": [], "funcs": [], "paths": 0, "vcs": 0, "covers": 0, "solver_s": 0,
             "backends": {}, "kind": "P"}
    try:
        return run_obligation(name, tier, seed, do_diff)
    except _Budget:
        return dict(blank, name=name, status="undecided", wall_s=budget,
                    notes=["wall-clock budget of %d s for one obligation exceeded" % budget])
    except Exception as e:  # noqa
        return dict(blank, name=name, status="fault", wall_s=0,
                    notes=["worker exception %s: %s" % (type(e).__name__, e), traceback.format_exc()[-1500:]])
    finally:
        try:
            signal.alarm(0)
        except ValueError:
            pass


def run_many(names, tier="quick", seed=0, jobs=None, do_diff=True):
    import multiprocessing as mp

    jobs = jobs or min(16, os.cpu_count() or 4)
    if len(names) <= 1 or jobs == 1:
        return [_worker((n, tier, seed, do_diff)) for n in names]
    ctx = mp.get_context("fork")
    with ctx.Pool(jobs, maxtasksperchild=40) as pool:
        return pool.map(_worker, [(n, tier, seed, do_diff) for n in names], chunksize=1)
