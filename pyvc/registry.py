"""Registry of obligations (contracts are registered by importing /verif/contracts/*.py)."""
import importlib
import os
import pkgutil

OBLIGATIONS = {}
ORDER = []


class Ob(object):
    def __init__(self, name, fn, props, funcs, kind, timeout_ms, samples, max_paths, note, lemma_for, uses=()):
        self.uses = list(uses)
        self.name = name
        self.fn = fn
        self.props = props
        self.funcs = funcs
        self.kind = kind  # 'P' proved obligation on code, 'L' lemma (no code), 'S' shape-bounded
        self.timeout_ms = timeout_ms
        self.samples = samples
        self.max_paths = max_paths
        self.note = note
        self.lemma_for = lemma_for


def ob(name, funcs=(), props=None, kind="P", timeout_ms=None, samples=8, max_paths=4000, note="", lemma_for=None,
       uses=()):
    """decorator: register an obligation thunk `fn(E)`.

    name   Cxx/<Class.method>/<clause>[/<case>]; the property is the first path component unless `props`
    funcs  qualified names of the repository functions this obligation executes under contract
    """

    def deco(fn):
        p = props or [name.split("/")[0]]
        if name in OBLIGATIONS:
            raise RuntimeError("duplicate obligation %s" % name)
        OBLIGATIONS[name] = Ob(name, fn, list(p), list(funcs), kind, timeout_ms, samples, max_paths, note, lemma_for,
                               uses)
        ORDER.append(name)
        return fn

    return deco


def family(prefix, cases, **kw):
    """register one obligation per case: fn(E, case) ; case is a tuple/str used in the name"""

    def deco(fn):
        for case in cases:
            label = case if isinstance(case, str) else (",".join(str(c) for c in case) if isinstance(case, (tuple, list)) else str(case))
            ob("%s/%s" % (prefix, label), **kw)(lambda E, _c=case: fn(E, _c))
        return fn

    return deco


_loaded = False


def load_all():
    global _loaded
    if _loaded:
        return
    _loaded = True
    import contracts

    for m in sorted(pkgutil.iter_modules(contracts.__path__), key=lambda m: m.name):
        if m.name.startswith("_"):
            continue
        importlib.import_module("contracts." + m.name)


def for_property(pid):
    load_all()
    return [OBLIGATIONS[n] for n in ORDER if pid in OBLIGATIONS[n].props]
