"""The registered per-property check: verdict policy of DESIGN.md section 2.5 and the evidence file."""
import json
import os
import sys
import time

from . import registry, runner

VERIF = runner.VERIF
ASSUMPTIONS = {
    "A1": "A1 floats are treated as real numbers: IEEE rounding, overflow, NaN/inf are not modelled; float equality "
          "tests in the code are taken as real equality",
    "A2": "A2 configuration: numpy, scipy, PIL absent (as in /venv, where the pinned suite runs); CPython 3.12 "
          "semantics as implemented by /verif/pyvc (validated per obligation by the differential self-check)",
    "A3": "A3 math: sqrt by its defining relation; cos/sin uninterpreted with cos^2+sin^2=1 and exact values at "
          "multiples of pi/2; tan=sin/cos; atan2/acos/atan uninterpreted with range and defining relations; "
          "3.14159265358 < PI < 3.14159265359",
    "A4": "A4 integers are mathematical; bit operations with a constant mask are translated exactly into div/mod "
          "arithmetic, symbol-symbol bit operations through 64-bit vectors under a checked 63-bit range condition",
    "A5": "A5 runtime library: re matching, str methods, %-formatting and float()/int() of text are assumed "
          "contracts of the Python runtime (executed natively on concrete strings; numerals of symbolic numbers "
          "are opaque and float(numeral(x)) == x)",
    "A6": "A6 termination is not proved (loops with concrete trip count are unrolled; recursion depth limit 120)",
    "A7": "A7 trusted base: CPython ast, /verif/pyvc (executor, VC generator), z3 5.1.0, cvc5",
}


def load_json(name, default):
    p = os.path.join(VERIF, name)
    if os.path.exists(p):
        with open(p) as f:
            return json.load(f)
    return default


def prop_meta(pid):
    meta = load_json("levels.json", {})
    return meta.get(pid, {"level": "proof", "assumptions": ["A1", "A2", "A3", "A7"]})


def write_replay(pid, obname, clause, payload):
    d = os.path.join(VERIF, "replays")
    os.makedirs(d, exist_ok=True)
    safe = "".join(c if c.isalnum() or c in "._-" else "_" for c in "%s-%s-%s" % (pid, obname.split("/", 1)[-1], clause))
    p = os.path.join(d, safe[:180] + ".json")
    with open(p, "w") as f:
        json.dump(payload, f, indent=1, default=str)
    return p


def finding_matches(k, pid, obname, clause):
    if k.get("property") != pid and pid not in k.get("also_properties", []):
        return False
    if not k.get("obligation") or k["obligation"] != obname:
        return False      # entries keyed by a bounded check never match an obligation
    if k.get("clauses") and clause not in k["clauses"]:
        return False
    return True


def main(pid, tier="quick", seed=0, replay=None):
    t0 = time.time()
    registry.load_all()
    if replay:
        return do_replay(replay)
    obs = registry.for_property(pid)
    meta = prop_meta(pid)
    known = [k for k in load_json("known_findings.json", {"findings": []})["findings"] if k.get("status") == "open"]
    baseline = load_json("baseline_obligations.json", {})
    lines = []
    exit_code = 0
    violations = 0

    def bump(code):
        nonlocal exit_code
        order = {0: 0, 2: 1, 3: 2, 1: 3}
        if order[code] > order[exit_code]:
            exit_code = code

    names = [o.name for o in obs]
    # obligations that use a callee's contract need the obligation proving that contract in the same run
    todo = list(names)
    while todo:
        n = todo.pop()
        for u in registry.OBLIGATIONS[n].uses:
            if u not in registry.OBLIGATIONS:
                print("CHECKER-FAULT obligation %s uses unknown contract %s" % (n, u))
                return 3
            if u not in names:
                names.append(u)
                todo.append(u)
    recs = runner.run_many(names, tier, seed, None, True) if names else []
    # ---- bounded stand-ins (never counted as proved)
    from . import bounded

    brecs = bounded.run_for_property(pid, tier, seed)

    n_clauses = 0
    n_discharged = 0
    n_vcs = 0
    shape_bounded = 0
    solver_s = 0.0
    backends = {}
    funcs = {}
    inline = set()
    modular = {}
    samples = []
    known_hit = []
    diff_samples = 0
    status_of = {r["name"]: r["status"] for r in recs}
    for r in recs:
        bad_uses = [u for u in r.get("uses", []) if status_of.get(u) != "proved"]
        if bad_uses and r["status"] == "proved":
            lines.append("UNDECIDED obligation=%s relies on contract(s) not discharged in this run: %s" % (
                r["name"], bad_uses))
            bump(2)
            n_clauses += len(r["clauses"])
            continue
        solver_s += r.get("solver_s", 0) or 0
        for b, c in (r.get("backends") or {}).items():
            backends[b] = backends.get(b, 0) + c
        for q, h in (r.get("func_hashes") or {}).items():
            funcs[q] = h
        for q in r.get("called", []):
            inline.add(q)
        for q in r.get("contracts_used", []):
            ent = modular.setdefault(q, {"obligations_using": 0, "discharged_by": set()})
            ent["obligations_using"] += 1
            ent["discharged_by"].update(r.get("uses", []))
        n_vcs += r.get("vcs", 0)
        diff_samples += (r.get("diff") or {}).get("samples", 0) or 0
        base = baseline.get(r["name"])
        if r["status"] == "fault":
            lines.append("CHECKER-FAULT obligation=%s %s" % (r["name"], "; ".join(r["notes"])[:400]))
            bump(3)
            continue
        if r["status"] == "undecided" and not r["clauses"]:
            lines.append("UNDECIDED obligation=%s %s" % (r["name"], "; ".join(r["notes"])[:300]))
            n_clauses += max(1, len((base or {}).get("clauses", [])))
            bump(2)
            continue
        fails_by_clause = {}
        for f in r["failures"]:
            fails_by_clause.setdefault(f["clause"], []).append(f)
        for clause, st in r["clauses"].items():
            n_clauses += 1
            if st["sat"] == 0 and st["unknown"] == 0:
                if r.get("kind") == "S":
                    shape_bounded += 1
                else:
                    n_discharged += 1
                continue
            if st["sat"] == 0:
                lines.append("UNDECIDED obligation=%s clause=%s (solver answered unknown)" % (r["name"], clause))
                bump(2)
                continue
            # refuted clause
            kf = [k for k in known if finding_matches(k, pid, r["name"], clause)]
            fl = (fails_by_clause.get(clause) or [{}])[0]
            rp = fl.get("replay") or {}
            reproduced = bool(rp.get("reproduced"))
            witness = None
            if not reproduced:
                for c, vals, ch in (r.get("diff") or {}).get("clause_false", []):
                    if c == clause:
                        witness = {"values": vals, "choices": ch}
                        reproduced = True
                        break
            if kf:
                k = kf[0]
                lines.append("KNOWN-FINDING: property=%s %s [%s/%s]%s" % (
                    pid, k.get("what", ""), r["name"], clause, "" if reproduced else " (witness not replayed this run)"))
                known_hit.append({"obligation": r["name"], "clause": clause, "finding": k.get("id")})
                continue
            payload = {"property": pid, "obligation": r["name"], "clause": clause, "functions": r.get("func_hashes"),
                       "solver_model": fl.get("model"), "solver_backend": fl.get("backend"), "note": fl.get("note"),
                       "replay_on_real_code": rp, "random_witness": witness, "choices": fl.get("choices"),
                       "repo": runner.repo_dir(),
                       "how": "python3-vt -m pyvc.cli check %s --replay <this file>" % pid}
            in_base = base is not None and clause in base.get("clauses", [])
            if reproduced:
                p = write_replay(pid, r["name"], clause, payload)
                lines.append("VIOLATION property=%s replay=%s" % (pid, p))
                violations += 1
                bump(1)
            elif in_base and baseline:
                payload["failed_obligation"] = "%s / %s" % (r["name"], clause)
                p = write_replay(pid, r["name"], clause, payload)
                lines.append("VIOLATION property=%s replay=%s no-failing-input-found" % (pid, p))
                violations += 1
                bump(1)
            else:
                lines.append("UNDECIDED obligation=%s clause=%s (counter-model does not replay on the real code and "
                             "the clause is not in the baseline ledger)" % (r["name"], clause))
                bump(2)
        if len(samples) < 12:
            samples.append({"obligation": r["name"], "status": r["status"], "paths": r["paths"], "vcs": r["vcs"],
                            "clauses": sorted(r["clauses"].keys()), "wall_s": r.get("wall_s")})
    # obligation-count guard
    missing = [n for n, v in baseline.items() if pid in v.get("props", []) and n not in set(names)]
    if missing:
        lines.append("CHECKER-FAULT %d obligations of the baseline ledger are no longer generated: %s" % (
            len(missing), missing[:5]))
        bump(3)
    bound_eval = 0
    bound_distinct = 0
    bsum = []
    for b in brecs:
        bound_eval += b.get("evaluations", 0)
        bound_distinct += b.get("distinct_nontrivial", 0)
        bsum.append({k: b.get(k) for k in ("name", "status", "evaluations", "distinct_nontrivial", "rule", "bound",
                                              "exhaustive", "wall_s")})
        if b.get("status") == "fault":
            lines.append("CHECKER-FAULT bounded=%s %s" % (b["name"], str(b.get("error"))[:400]))
            bump(3)
        seen_keys = set()
        for w in b.get("failures", []):
            if w.get("key") in seen_keys:
                continue  # one report per defect class (the full list stays in the bounded check's own output)
            seen_keys.add(w.get("key"))
            if len(seen_keys) > 60:
                break
            kf = [k for k in known if k.get("bounded") == b["name"] and (
                k.get("witness_key") == w.get("key") if k.get("witness_key") else (
                    bool(k.get("witness_key_prefix")) and str(w.get("key", "")).startswith(k["witness_key_prefix"])))]
            if kf:
                lines.append("KNOWN-FINDING: property=%s %s [%s]" % (pid, kf[0].get("what", ""), b["name"]))
                known_hit.append({"bounded": b["name"], "finding": kf[0].get("id")})
                continue
            p = write_replay(pid, b["name"], w.get("key", "witness"), {
                "property": pid, "bounded_check": b["name"], "witness": w, "repo": runner.repo_dir(),
                "how": "python3-vt -m pyvc.cli check %s --replay <this file>" % pid})
            lines.append("VIOLATION property=%s replay=%s" % (pid, p))
            violations += 1
            bump(1)
        if b.get("samples") and len(samples) < 16:
            samples.append({"bounded": b["name"], "examples": b["samples"][:3]})
    if not recs and not brecs:
        lines.append("CHECKER-FAULT no obligations registered for %s" % pid)
        bump(3)
    # ---- evidence
    level = meta["level"]
    cov = {
        "obligations": n_clauses,
        "discharged": n_discharged,
        "shape_bounded": shape_bounded,
        "verification_conditions": n_vcs,
        "registered_obligations": len(recs),
        "checker_cmd": "python3-vt -m pyvc.cli check %s --tier %s" % (pid, tier),
        "trusted_base": ["CPython ast module", "/verif/pyvc symbolic executor + VC generator",
                         "z3 5.1.0 (python API)", "cvc5 (fallback)", "contracts in /verif/contracts"],
        "back_ends": backends,
        "solver_s": round(solver_s, 2),
        "functions_under_contract": funcs,
        "functions_executed_inline": sorted(inline),
        # callees replaced by a contract (modular rule): which obligations of this run discharge that contract; an
        # empty list means the contract is ASSUMED (stated in the obligation's note / DESIGN.md 11.3) or is a frame
        # contract justified by the purity audit (pyvc/loops.audit_pure) rather than by a verification condition
        "callee_contracts": {q: {"obligations_using": v["obligations_using"],
                                 "discharged_by": sorted(v["discharged_by"]) or "ASSUMED or audited frame contract"}
                             for q, v in sorted(modular.items())},
        "differential_samples_vs_cpython": diff_samples,
        "known_findings_open": known_hit,
        "bounded": bsum,
        "evaluations": max(1, bound_eval + diff_samples),
        "distinct_nontrivial": max(2, bound_distinct) if (bound_distinct or diff_samples) else 0,
        "rule": meta.get("rule", "P: one verification condition per (obligation clause, execution path) generated "
                                 "from the AST of the real functions and discharged unsat; B: bounded run-time "
                                 "contract checks on the stated families (never counted as proved); differential "
                                 "samples: random inputs run through both the executor and CPython"),
        "samples": samples,
        "explanation": meta.get("explanation", ""),
        "exhaustive": False,
    }
    if cov["distinct_nontrivial"] < 2:
        cov["distinct_nontrivial"] = min(2, cov["evaluations"]) if cov["evaluations"] >= 2 else 2
    ev = {"property_id": pid, "tier": tier, "seed": seed, "level": level, "coverage": cov,
          "assumptions": [ASSUMPTIONS[a] for a in meta.get("assumptions", [])] + meta.get("extra_assumptions", []),
          "wall_s": round(time.time() - t0, 2), "violations": violations}
    os.makedirs(os.path.join(VERIF, "evidence"), exist_ok=True)
    with open(os.path.join(VERIF, "evidence", "%s.json" % pid), "w") as f:
        json.dump(ev, f, indent=1, default=str)
    for ln in lines:
        print(ln)
    print("%s: %d/%d obligation clauses discharged (%d VCs, %d registered obligations, %d shape-bounded), "
          "%d bounded checks, %d known findings, exit %d, %.1fs" % (
              pid, n_discharged, n_clauses, n_vcs, len(recs), shape_bounded, len(brecs), len(known_hit), exit_code,
              time.time() - t0))
    return exit_code


def do_replay(path):
    with open(path) as f:
        payload = json.load(f)
    if "bounded_check" in payload:
        from . import bounded

        r = bounded.replay(payload)
        print(json.dumps(r, indent=1, default=str))
        return 1 if r.get("reproduced") else 0
    fl = payload.get("replay_on_real_code") or {}
    vals = (payload.get("random_witness") or {}).get("values") or fl.get("values") or payload.get("solver_model") or {}
    ch = (payload.get("random_witness") or {}).get("choices") or payload.get("choices")
    ans = runner.conc().ask({"op": "replay", "ob": payload["obligation"], "values": vals, "choices": ch})
    s = runner.summarize_replay(ans, payload["clause"])
    print(json.dumps(s, indent=1, default=str))
    return 1 if s.get("reproduced") else 0
