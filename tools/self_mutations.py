#!/usr/bin/env python3
"""Self-test of the checks against a catalogue of small semantic edits (DESIGN.md section 7).

usage: self_mutations.py [--suite] [--only id,id] [--out file]

Every entry names a function (qualified name), a fragment of its present text and the replacement.  For each entry a
scratch git worktree of /repo HEAD is made under /tmp, the edit is applied inside that function only, the file is
byte-compiled, optionally the pinned suite is run (--suite: reports whether the edit would be noticed by the tests), the
property's check is run with VERIF_REPO=<worktree>, and the worktree is removed.  Nothing is applied to /repo.
Unlike /verif/seeded (changes written by independent sessions, all confirmed to pass the suite) these edits are mine and
serve as a regression test of the machinery: every entry must end in exit 1 with a VIOLATION line, except the entries
marked expect=no-alarm (harmless refactorings: renamed local, reordered independent statements, hoisted constant,
removed redundant copy), which must end in exit 0.
"""
import ast, json, os, py_compile, shutil, subprocess, sys, tempfile, time

VERIF = os.path.dirname(os.path.dirname(os.path.abspath(__file__)))

def function_span(tree, qual):
    parts = qual.split(".")
    for node in tree.body:
        if len(parts) == 2 and isinstance(node, ast.ClassDef) and node.name == parts[0]:
            for s in node.body:
                if isinstance(s, ast.FunctionDef) and s.name == parts[1]:
                    return s.lineno, s.end_lineno
        if len(parts) == 1 and isinstance(node, ast.FunctionDef) and node.name == parts[0]:
            return node.lineno, node.end_lineno
    raise KeyError(qual)


def run(cmd, **kw):
    return subprocess.run(cmd, capture_output=True, text=True, **kw)


def main():
    args = sys.argv[1:]
    suite = "--suite" in args
    only = None
    out = os.path.join(VERIF, "seeded", "self_mutations.json")
    for i, a in enumerate(args):
        if a == "--only":
            only = set(args[i + 1].split(","))
        if a == "--out":
            out = args[i + 1]
    cat = json.load(open(os.path.join(VERIF, "tools", "self_mutations.json")))
    results = []
    for ent in cat:
        if only and ent["id"] not in only:
            continue
        wt = tempfile.mkdtemp(prefix="selfmut_", dir="/tmp")
        os.rmdir(wt)
        rec = {"id": ent["id"], "property": ent["property"], "function": ent["function"], "edit": ent["note"]}
        try:
            run(["git", "-C", "/repo", "worktree", "add", "-q", "--detach", wt, "HEAD"])
            path = os.path.join(wt, "svgelements", "svgelements.py")
            src = open(path).read()
            lo, hi = function_span(ast.parse(src), ent["function"])
            lines = src.split("\n")
            body = "\n".join(lines[lo - 1:hi])
            if body.count(ent["old"]) < 1:
                rec["status"] = "edit does not apply (function text changed)"
                results.append(rec)
                continue
            body = body.replace(ent["old"], ent["new"]) if ent.get("all") else body.replace(ent["old"], ent["new"], 1)
            open(path, "w").write("\n".join(lines[:lo - 1] + body.split("\n") + lines[hi:]))
            py_compile.compile(path, doraise=True)
            if suite:
                b = run(["/venv/bin/python", os.path.join(VERIF, "tools", "baseline_check.py"), wt], timeout=1800)
                rec["suite_passes"] = b.returncode == 0
            t0 = time.time()
            c = run([os.path.join(VERIF, "check"), ent["property"]], env=dict(os.environ, VERIF_REPO=wt), cwd=VERIF,
                    timeout=3600)
            lines_ = c.stdout.strip().splitlines()
            rec["check_exit"] = c.returncode
            rec["wall_s"] = round(time.time() - t0, 1)
            fired = []
            for l in lines_:
                if l.startswith("VIOLATION"):
                    p = l.split("replay=")[1].split()[0]
                    try:
                        d = json.load(open(p))
                        fired.append(str(d.get("obligation", d.get("bounded_check"))) + " :: " + str(
                            d.get("clause", (d.get("witness") or {}).get("key"))))
                    except Exception:  # noqa
                        fired.append(p)
            rec["fired"] = fired[:6]
            rec["detected"] = c.returncode == 1 and bool(fired)
            rec["expect"] = ent.get("expect", "violation")
            rec["as_expected"] = (rec["detected"] if rec["expect"] == "violation" else c.returncode == 0)
            rec["summary"] = lines_[-1] if lines_ else ""
        finally:
            run(["git", "-C", "/repo", "worktree", "remove", "--force", wt])
            shutil.rmtree(wt, ignore_errors=True)
        results.append(rec)
        print(rec["id"], rec["property"], "detected=%s" % rec.get("detected"), "exit=%s" % rec.get("check_exit"),
              rec.get("fired", [rec.get("status")])[:2], "expected=%s" % rec.get("as_expected"), rec.get("suite_passes"), flush=True)
    if not only:
        json.dump({"what": "tools/self_mutations.py: own catalogue of edits, each applied in a scratch worktree and "
                           "checked with VERIF_REPO; not part of the independently seeded changes",
                   "results": results}, open(out, "w"), indent=1)


if __name__ == "__main__":
    main()
