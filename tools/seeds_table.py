#!/usr/bin/env python3
"""prints a markdown table of the seeded changes under /verif/seeded and which checks caught them"""
import json, glob, os
rows = []
HERE = os.path.dirname(os.path.abspath(__file__))
HIST = json.load(open(os.path.join(HERE, "..", "seeded", "history.json")))
for d in sorted(glob.glob(os.path.join(HERE, "..", "seeded", "*"))):
    if not os.path.isdir(d):
        continue
    m = json.load(open(os.path.join(d, "meta.json")))
    cr = m.get("check_result", {})
    fired = sorted(set(f.split(" :: ")[0] for f in cr.get("fired", [])))
    h = HIST.get(m.get("id"), {})
    rows.append((m.get("id"), (m.get("summary") or "")[:150].replace("|", "/"), h.get("first_evaluation", "?"),
                 "yes" if cr.get("detected") else ("NO (exit %s)" % cr.get("check_exit")), ", ".join(fired[:2]),
                 h.get("note", "")))
print("| seed | change (first 150 characters of the author's summary) | first evaluation | now | caught by | what was added |")
print("|---|---|---|---|---|---|")
for r in rows:
    print("| %s | %s | %s | %s | %s | %s |" % r)
