#!/usr/bin/env python3
"""prints a markdown table of the seeded changes under /verif/seeded and which checks caught them"""
import json, glob, os
rows = []
for d in sorted(glob.glob(os.path.join(os.path.dirname(os.path.abspath(__file__)), "..", "seeded", "*"))):
    m = json.load(open(os.path.join(d, "meta.json")))
    cr = m.get("check_result", {})
    fired = sorted(set(f.split(" :: ")[0] for f in cr.get("fired", [])))
    rows.append((m.get("id"), m.get("breaks_property"), (m.get("summary") or "")[:110].replace("|", "/"),
                 "yes" if cr.get("detected") else ("NO (exit %s)" % cr.get("check_exit")), ", ".join(fired[:3])))
print("| seed | property | change | detected | by (obligation / bounded check) |")
print("|---|---|---|---|---|")
for r in rows:
    print("| %s | %s | %s | %s | %s |" % r)
