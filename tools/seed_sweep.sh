#!/bin/bash
# runs every bounded check on the current /repo for several seeds and lists the failure keys that are not open
# findings (seed-dependent alarms on the unchanged tree).  usage: tools/seed_sweep.sh [tier] [seeds...]
cd "$(dirname "$0")/.."
tier=${1:-quick}; shift
seeds=${@:-1 2 3 4 5}
names=$(PYTHONPATH=. /venv/bin/python -c "
from pyvc import bounded; bounded.load_all(); print(' '.join(bounded.ORDER))")
for n in $names; do for s in $seeds; do echo "$n $s"; done; done | xargs -P 8 -L 1 bash -c '
n=$0; s=$1
VERIF_REPO=${VERIF_REPO:-/repo} PYTHONPATH=. /venv/bin/python -m pyvc.bounded run $n '"$tier"' $s 2>/dev/null | python3 -c "
import json,sys
known={k.get(\"witness_key\") for k in json.load(open(\"known_findings.json\"))[\"findings\"] if k.get(\"status\")==\"open\" and k.get(\"bounded\")==\"$n\"}
try:
    d=json.loads(sys.stdin.read().strip().splitlines()[-1])
except Exception as e:
    print(\"$n seed $s: NO OUTPUT\", e); sys.exit()
pref=[k.get(\"witness_key_prefix\") for k in json.load(open(\"known_findings.json\"))[\"findings\"] if k.get(\"status\")==\"open\" and k.get(\"bounded\")==\"$n\" and k.get(\"witness_key_prefix\")]
new=[f.get(\"key\") for f in d.get(\"failures\",[]) if f.get(\"key\") not in known and not any(str(f.get(\"key\")).startswith(q) for q in pref)]
print(\"$n seed $s:\", d.get(\"status\"), d.get(\"evaluations\"), \"NEW:\" if new else \"ok\", new[:5])"'
