#!/bin/bash
# runs every registered quick check on the current /repo and validates the evidence files
cd "$(dirname "$0")/.."
mkdir -p /tmp/me
fail=0
for p in $(python3 -c "import json;print(' '.join(c['property_id'] for c in json.load(open('MANIFEST.json'))['checks']))"); do
  /usr/bin/time -f "$p wall %es" ./check $p > /tmp/me/check_$p.out 2>&1; rc=$?
  echo "$p exit=$rc $(grep -c '^KNOWN-FINDING' /tmp/me/check_$p.out) known; $(tail -2 /tmp/me/check_$p.out | head -1 | cut -c1-160)"
  grep -E "^(VIOLATION|UNDECIDED|CHECKER-FAULT)" /tmp/me/check_$p.out | head -5
  [ $rc -ne 0 ] && fail=1
done
python3-vt - <<'PY'
import json, jsonschema, glob
sch = json.load(open('/root/.vp/EVIDENCE.schema.json'))
for f in sorted(glob.glob('evidence/*.json')):
    try:
        jsonschema.validate(json.load(open(f)), sch)
    except Exception as e:
        print('EVIDENCE INVALID', f, str(e)[:200])
print('evidence validated')
PY
exit $fail
