#!/usr/bin/env python3
"""Runs the pinned suite of a repository tree and compares with /root/.vp/BASELINE.json stable_pass.
usage: baseline_check.py [repo_dir]   (exit 0 when every stable-pass test passes)"""
import json, subprocess, sys, tempfile, os
import xml.etree.ElementTree as ET
repo = sys.argv[1] if len(sys.argv) > 1 else "/repo"
base = json.load(open("/root/.vp/BASELINE.json"))
want = set(base["stable_pass"])
with tempfile.TemporaryDirectory() as d:
    x = os.path.join(d, "r.xml")
    subprocess.run(["/venv/bin/python", "-m", "pytest", "-q", "-p", "no:cacheprovider", "--timeout=900",
                    "--continue-on-collection-errors", "--junitxml=" + x], cwd=repo, capture_output=True, text=True)
    passed = set()
    for tc in ET.parse(x).getroot().iter("testcase"):
        if not any(c.tag in ("failure", "error", "skipped") for c in tc):
            passed.add("%s::%s" % (tc.get("classname"), tc.get("name")))
missing = sorted(want - passed)
print("stable_pass=%d passed_now=%d missing=%d" % (len(want), len(passed), len(missing)))
for m in missing[:40]:
    print("  NOT PASSING:", m)
sys.exit(1 if missing else 0)
