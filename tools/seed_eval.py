#!/usr/bin/env python3
"""Confirm a seeded change and run the property's check against it.

usage: seed_eval.py <seed_dir with patch.diff, demo.py, meta.json> <property id> <seed id> [--in-repo]

1. scratch worktree of /repo HEAD (under /tmp), apply the patch: the pinned suite must still pass (baseline_check),
   the demo must exit 1; on the clean worktree the demo must exit 0.
2. run `./check <property>`: default against the scratch worktree (VERIF_REPO), with --in-repo by applying the
   patch to /repo itself and undoing it straight afterwards (git -C /repo checkout -- .).
3. copy patch, demo and an extended meta.json to /verif/seeded/<seed id>/ when step 1 succeeded.
"""
import json, os, shutil, subprocess, sys, tempfile, time

seed_dir, pid, sid = os.path.abspath(sys.argv[1]), sys.argv[2], sys.argv[3]
in_repo = "--in-repo" in sys.argv
recheck = "--recheck" in sys.argv      # the change was confirmed before: only apply it and run the check again
VERIF = os.path.dirname(os.path.dirname(os.path.abspath(__file__)))
patch = os.path.join(seed_dir, "patch.diff")
demo = os.path.join(seed_dir, "demo.py")
meta = json.load(open(os.path.join(seed_dir, "meta.json"))) if os.path.exists(os.path.join(seed_dir, "meta.json")) else {}
wt = tempfile.mkdtemp(prefix="seedwt_", dir="/tmp")
os.rmdir(wt)
res = {"seed": sid, "property": pid}


def run(cmd, **kw):
    return subprocess.run(cmd, capture_output=True, text=True, **kw)


try:
    run(["git", "-C", "/repo", "worktree", "add", "-q", "--detach", wt, "HEAD"])
    env = dict(os.environ, PYTHONPATH=wt)
    r0 = run(["/venv/bin/python", demo, wt], env=env, timeout=600)
    res["demo_clean_exit"] = r0.returncode
    ap = run(["git", "-C", wt, "apply", patch])
    res["applies"] = ap.returncode == 0
    if not res["applies"]:
        # the tree moved on (fix: commits) since the change was written: re-port it with fuzz, keep the re-ported diff
        pp = run(["patch", "-p1", "--fuzz=3", "--no-backup-if-mismatch", "-i", patch], cwd=wt)
        if pp.returncode == 0:
            d = run(["git", "-C", wt, "diff"])
            patch = os.path.join(tempfile.mkdtemp(prefix="seedpatch_", dir="/tmp"), "patch.diff")
            open(patch, "w").write(d.stdout)
            res["applies"] = True
            res["reported"] = "re-ported onto the current tree with patch --fuzz=3"
            meta["reported"] = res["reported"]
        else:
            run(["git", "-C", wt, "checkout", "--", "."])
    if not res["applies"]:
        res["error"] = ap.stderr[-500:]
    else:
        if recheck:
            old = meta.get("confirmed", {})
            res["suite_passes"] = True
            res["suite_line"] = old.get("suite_line", "(confirmed at the first evaluation)")
            r1 = run(["/venv/bin/python", demo, wt], env=env, timeout=600)
            res["demo_patched_exit"] = r1.returncode
        else:
            b = run(["/venv/bin/python", os.path.join(VERIF, "tools", "baseline_check.py"), wt], timeout=1800)
            res["suite_passes"] = b.returncode == 0
            res["suite_line"] = b.stdout.strip().splitlines()[0] if b.stdout.strip() else b.stderr[-200:]
            r1 = run(["/venv/bin/python", demo, wt], env=env, timeout=600)
            res["demo_patched_exit"] = r1.returncode
            res["demo_patched_tail"] = (r1.stdout + r1.stderr)[-400:]
    res["confirmed"] = bool(res.get("applies") and res.get("suite_passes") and res.get("demo_patched_exit") == 1
                            and res.get("demo_clean_exit") == 0)
    if res["confirmed"]:
        t0 = time.time()
        env2 = dict(os.environ)
        if in_repo:
            a2 = run(["git", "-C", "/repo", "apply", patch])
            assert a2.returncode == 0, a2.stderr
        else:
            env2["VERIF_REPO"] = wt
        try:
            c = run([os.path.join(VERIF, "check"), pid], env=env2, cwd=VERIF, timeout=3600)
        finally:
            if in_repo:
                run(["git", "-C", "/repo", "checkout", "--", "."])
        res["check_exit"] = c.returncode
        lines = c.stdout.strip().splitlines()
        res["violation_lines"] = [l for l in lines if l.startswith("VIOLATION")][:8]
        res["other_lines"] = [l for l in lines if l.startswith(("UNDECIDED", "CHECKER-FAULT"))][:6]
        res["summary_line"] = lines[-1] if lines else ""
        res["check_wall_s"] = round(time.time() - t0, 1)
        res["how"] = "in /repo (git apply, check, git checkout -- .)" if in_repo else "VERIF_REPO=<scratch worktree>"
        res["detected"] = c.returncode == 1 and bool(res["violation_lines"])
        # which obligations / bounded checks fired
        fired = []
        for l in res["violation_lines"]:
            p = l.split("replay=")[1].split()[0]
            try:
                d = json.load(open(p))
                fired.append(d.get("obligation", d.get("bounded_check")) + " :: " + str(d.get("clause", d.get("witness", {}).get("key"))))
            except Exception as e:  # noqa
                fired.append(p)
        res["fired"] = fired
finally:
    run(["git", "-C", "/repo", "worktree", "remove", "--force", wt])
    shutil.rmtree(wt, ignore_errors=True)
if res.get("confirmed"):
    out = os.path.join(VERIF, "seeded", sid)
    os.makedirs(out, exist_ok=True)
    for src, name in ((patch, "patch.diff"), (demo, "demo.py")):
        dst = os.path.join(out, name)
        if os.path.abspath(src) != os.path.abspath(dst):
            shutil.copy(src, dst)
    meta.update({"id": sid, "breaks_property": pid, "confirmed": {k: res.get(k) for k in (
        "suite_line", "demo_clean_exit", "demo_patched_exit")}, "check_result": {k: res.get(k) for k in (
            "check_exit", "detected", "fired", "other_lines", "summary_line", "check_wall_s", "how")},
        "what_was_run": "tools/seed_eval.py: scratch worktree + baseline_check.py + demo.py on patched/clean tree; ./check %s" % pid})
    json.dump(meta, open(os.path.join(out, "meta.json"), "w"), indent=1)
print(json.dumps(res, indent=1))
