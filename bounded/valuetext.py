"""Bounded checks of value texts: C04 transform strings, C12 length strings, C13 colour strings.

Oracles: /verif/spec/transform.py (exact evaluator of SVG/CSS transform lists), the CSS Values absolute-unit
ratios and the CSS Color 3 algorithms written out below with fractions, /verif/spec/svg_colors.json
(keyword table).  None of it is derived from svgelements.
"""
import importlib.util
import itertools
import json
import math
import os
import random
import sys
import time
from fractions import Fraction

import pyvc.bounded as _pb
from spec import transform as T

for _m in ("numpy", "scipy"):
    if _m not in sys.modules and importlib.util.find_spec(_m) is None:
        sys.modules[_m] = None  # make svgelements' optional imports fail fast (they are absent anyway)


def bounded(name, props, replay=None):
    """pyvc.bounded.bounded, also registering in __main__ when the runner is started with
    `python -m pyvc.bounded` (then __main__ and pyvc.bounded are two module objects with two registries)."""
    deco0 = _pb.bounded(name, props, replay)

    def deco(fn):
        deco0(fn)
        m = sys.modules.get("__main__")
        if m is not None and m is not _pb and isinstance(getattr(m, "BOUNDED", None), dict) \
                and m.BOUNDED is not _pb.BOUNDED and name not in m.BOUNDED:
            m.BOUNDED[name] = _pb.BOUNDED[name]
            m.ORDER.append(name)
        return fn

    return deco


EXPLAIN = {
    "skew-one-argument-ignored":
        "CSS Transforms 1: skew(ax) is skew(ax, 0) = skewX(ax). Matrix.parse skips skew() with a single "
        "argument ('this isn't valid') so the function contributes nothing.",
    "translate-length-plus-float":
        "a unit-bearing translation stays a Length in e/f until render(); composing it with a plain-number "
        "translation adds Length + float, which re-enters the Length string constructor and raises instead of "
        "waiting for ppi.",
    "translate-length-under-linear":
        "a unit-bearing translation to the right of a scale/rotate/skew/matrix must be multiplied by the linear "
        "part (e = a*tx + c*ty); with tx a Length the product is not formed correctly before render().",
    "unit-uppercase-treated-as-px": "CSS unit identifiers are ASCII case-insensitive; Length compares the unit text "
                      "case-sensitively, so '1IN'/'1Cm' fall through to the unitless branch and resolve as px.",
    "function-name-uppercase": "CSS function names are ASCII case-insensitive (RGB(...) = rgb(...)); the colour "
                               "regexes are case-sensitive, the text falls to the keyword lookup and becomes black.",
    "mm-cm-six-digit-constant": "1 in = 2.54 cm exactly; the library multiplies by 0.393701 / 0.0393701 "
                                "(six significant digits), 1.3e-6 relative off.",
}


def explain(key):
    for k, v in EXPLAIN.items():
        if k in key:
            return v
    return ""


class Agg:
    def __init__(self):
        self.by = {}

    def add(self, key, witness, expected, got):
        size = len(json.dumps(witness, default=str))
        e = self.by.get(key)
        if e is None:
            self.by[key] = {"key": key, "count": 1, "input": witness, "expected": expected, "got": got,
                            "_size": size, "explanation": explain(key)}
        else:
            e["count"] += 1
            if size < e["_size"]:
                e.update(input=witness, expected=expected, got=got, _size=size)

    def out(self):
        res = []
        for k in sorted(self.by):
            e = dict(self.by[k])
            e.pop("_size")
            res.append(e)
        return res


def rel_close(x, y, tol):
    try:
        x, y = float(x), float(y)
    except (TypeError, ValueError):
        return False
    if not (math.isfinite(x) and math.isfinite(y)):
        return x == y
    return abs(x - y) <= tol * max(1.0, abs(x), abs(y))


# =========================================================================================================
# (4) C04 transform strings
# =========================================================================================================
ANGLE_SPELL = {"": "30", "deg": "-45deg", "grad": "50grad", "rad": "0.5rad", "turn": "0.1turn"}
ANGLE_SPELL2 = {"": "-20", "deg": "15deg", "grad": "-25grad", "rad": "-0.25rad", "turn": "0.05turn"}


def function_variants():
    """list of (label, name-in-camel-case, [argument texts], [negative-tail argument texts])"""
    out = []

    def add(label, name, args, neg=None):
        out.append((label, name, args, neg or [args[0]] + [a if a.startswith("-") else "-" + a.lstrip("+") for a in args[1:]]))

    add("matrix/6", "matrix", ["1.5", "0.5", "-0.25", "2", "10", "-20"])
    add("translate/1", "translate", ["12.5"])
    add("translate/2", "translate", ["12.5", "-7"])
    add("translateX/1", "translateX", ["3e1"])
    add("translateY/1", "translateY", ["-.5"])
    add("scale/1", "scale", ["2.5"])
    add("scale/2", "scale", ["2", "-0.5"])
    add("scaleX/1", "scaleX", [".5"])
    add("scaleY/1", "scaleY", ["-3"])
    for u in ANGLE_SPELL:
        a, b = ANGLE_SPELL[u], ANGLE_SPELL2[u]
        add("rotate/1/%s" % (u or "unitless"), "rotate", [a])
        add("rotate/3/%s" % (u or "unitless"), "rotate", [a, "10", "-4.5"])
        add("skew/1/%s" % (u or "unitless"), "skew", [a])
        add("skew/2/%s" % (u or "unitless"), "skew", [a, b])
        add("skewX/1/%s" % (u or "unitless"), "skewX", [a])
        add("skewY/1/%s" % (u or "unitless"), "skewY", [b])
    return out


ARGSEPS = [("comma", ","), ("blank", " "), ("both", " , "), ("minus", "")]
CASES = [("lower", str.lower), ("camel", lambda s: s), ("upper", str.upper)]
LISTSEPS = [("blank", " "), ("comma", ","), ("both", " , "), ("nl", "\n")]


def render_function(variant, argsep, case):
    label, name, args, neg = variant
    sn, sv = argsep
    use = neg if sn == "minus" else args
    inner = sv.join(use)
    cn, cf = case
    text = cf(name) + "(" + inner + ")"
    if cn == "upper":
        # units upper-case as well (ASCII case-insensitive); exponent marker stays valid either way
        text = cf(name) + "(" + inner.upper() + ")"
    return text


def matrix_tuple(m):
    return (m.a, m.b, m.c, m.d, m.e, m.f)


def c04_eval(mod, s, kwargs=None, tol=1e-9):
    """None or (kind, expected, got); kind 'raises-<Exc>' | 'mismatch' | 'not-rendered'"""
    kwargs = kwargs or {}
    exp = T.evaluate(s, **kwargs)
    try:
        m = mod.Matrix(s, **kwargs)
        got = matrix_tuple(m)
    except Exception as e:
        return ("raises-%s" % type(e).__name__, exp, "%s: %s" % (type(e).__name__, e))
    if not all(isinstance(x, (int, float)) and not isinstance(x, bool) for x in got):
        return ("not-rendered", exp, [repr(x) for x in got])
    if not all(rel_close(x, y, tol) for x, y in zip(got, exp)):
        return ("mismatch", exp, list(got))
    return None


def c04_key(mod, funcs_text, labels, listsep, kind, kwargs=None, tol=1e-9):
    """attribute a failing list to a defect class"""
    # 1. does a single function of the list fail on its own?
    for txt, lab in zip(funcs_text, labels):
        r = c04_eval(mod, txt, kwargs, tol)
        if r is not None:
            name = lab.split("/")[0]
            if name == "skew" and lab.split("/")[1] == "1" and r[0] == "mismatch":
                return "skew-one-argument-ignored"
            return "%s-%s" % (lab.replace("/", "-"), r[0])
    # 2. separators between the functions
    if listsep != " ":
        r = c04_eval(mod, " ".join(funcs_text), kwargs, tol)
        if r is None:
            return "list-separator-%r-%s" % (listsep, kind)
    return "composition-%s-%s" % ("+".join(l.split("/")[0] for l in labels), kind)


def unit_cases():
    """(label, string, kwargs, tol)"""
    out = []
    six = 2e-6  # the library writes 1/2.54 and 1/25.4 with six digits (judged by C12); do not re-report here
    for ppi in (72, 96, 300):
        for u in ("", "px", "pt", "pc", "in", "cm", "mm"):
            tol = six if u in ("cm", "mm") else 1e-9
            out.append(("translate-%s" % (u or "unitless"), "translate(1.5%s, -2%s)" % (u, u), {"ppi": ppi}, tol))
            out.append(("translate1-%s" % (u or "unitless"), "translate(2%s)" % u, {"ppi": ppi}, tol))
            out.append(("translateX-%s" % (u or "unitless"), "translateX(3%s)" % u, {"ppi": ppi}, tol))
            out.append(("translateY-%s" % (u or "unitless"), "translateY(-4%s)" % u, {"ppi": ppi}, tol))
    out.append(("translate-cm-mm", "translate(1cm, 2mm)", {"ppi": 96}, six))
    out.append(("translate-percent", "translate(50%, 10%)", {"width": 200, "height": 100}, 1e-9))
    out.append(("translate-em", "translate(2em, 1em)", {"font_size": 12}, 1e-9))
    # lists mixing unit-bearing and plain translations, and unit-bearing translations under linear parts
    mixes = [
        ("translate-length-plus-float", "translate(1cm,0) translate(5,0)"),
        ("translate-length-plus-float", "translate(5,0) translate(1cm,0)"),
        ("translate-length-plus-float", "translate(1in,1in) translate(5,5)"),
        ("translate-length-plus-float", "translateX(1in) translateX(5)"),
        ("translate-length-plus-float", "translate(0,2mm) translate(0,3)"),
        ("translate-length-plus-length", "translate(1cm,0) translate(5mm,0)"),
        ("translate-length-plus-length", "translate(1in,1in) translate(1in,1in)"),
        ("translate-length-plus-length", "translate(1in,0) translate(1cm,0)"),
        ("translate-length-plus-length", "translate(1in,0) translate(12pt,0)"),
        ("translate-length-under-linear", "scale(2) translate(1in,1in)"),
        ("translate-length-under-linear", "scale(2,3) translate(1cm,5mm)"),
        ("translate-length-under-linear", "rotate(90) translate(1in,0)"),
        ("translate-length-under-linear", "rotate(30) translate(1cm,2cm)"),
        ("translate-length-under-linear", "skewX(30) translate(0,1in)"),
        ("translate-length-under-linear", "matrix(1 2 3 4 5 6) translate(1in,1in)"),
        ("translate-length-then-linear", "translate(1in,1in) scale(2)"),
        ("translate-length-then-linear", "translate(1cm,0) rotate(30)"),
        ("translate-length-then-linear", "translate(1in,2in) skewY(20) scale(3)"),
        ("rotate-centre-length", "rotate(30, 1in, 1in)"),
    ]
    for lab, s in mixes:
        for ppi in (96, 72):
            out.append((lab, s, {"ppi": ppi}, six if ("cm" in s or "mm" in s) else 1e-9))
    return out


def replay_c04(mod, witness):
    r = c04_eval(mod, witness["s"], witness.get("kwargs"), witness.get("tol", 1e-9))
    return {"reproduced": r is not None, "detail": r}


@bounded("C04/transform_strings", props=["C04"], replay=replay_c04)
def run_c04(mod, tier, seed):
    rng = random.Random(seed)
    agg = Agg()
    n = 0
    distinct = set()
    samples = []
    t0 = time.time()
    variants = function_variants()

    def run_list(parts, listsep_pair):
        """parts: list of (variant, argsep, case)"""
        nonlocal n
        texts = [render_function(v, a, c) for v, a, c in parts]
        labels = [v[0] for v, a, c in parts]
        lsn, lsv = listsep_pair
        s = lsv.join(texts)
        n += 1
        for (v, a, c) in parts:
            distinct.add((v[0], a[0], c[0]))
        if len(parts) > 1:
            distinct.add(tuple(v[0].split("/")[0] for v, a, c in parts) + (lsn,))
        r = c04_eval(mod, s)
        if r is not None:
            key = c04_key(mod, texts, labels, lsv, r[0])
            # smallest witness: the single function if it fails alone
            w = s
            for txt in texts:
                if c04_eval(mod, txt) is not None:
                    w = txt
                    break
            rr = c04_eval(mod, w)
            agg.add(key, {"s": w}, list(rr[1]), rr[2])
        return s

    # all single functions x separators x case
    for v in variants:
        for a in ARGSEPS:
            if len(v[2]) == 1 and a[0] != "comma":
                continue
            for c in CASES:
                for lead, trail in (("", ""), (" ", " "), ("\n", "\t")):
                    s = run_list([(v, a, c)], LISTSEPS[0])
                    if lead:
                        n += 1
                        r = c04_eval(mod, lead + s + trail)
                        if r is not None and c04_eval(mod, s) is None:
                            agg.add("outer-whitespace-%s" % r[0], {"s": lead + s + trail}, list(r[1]), r[2])
    samples.append(render_function(variants[0], ARGSEPS[1], CASES[2]))
    # all lists of 2 (thorough: 3) functions; separators / case cycled so that every pair sees several
    depth = 2 if tier == "quick" else 3
    combos = [(a, c, l) for a in ARGSEPS for c in CASES for l in LISTSEPS]
    k = 0
    for d in range(2, depth + 1):
        reps = 8 if d == 2 else 1
        for tup in itertools.product(variants, repeat=d):
            for r_ in range(reps):
                k += 1
                parts = []
                for j, v in enumerate(tup):
                    a, c, l = combos[(k * 7 + j * 5 + r_ * 11) % len(combos)]
                    parts.append((v, a, c))
                l = combos[(k * 13 + r_) % len(combos)][2]
                s = run_list(parts, l)
                if k % 2500 == 1:
                    samples.append(s)
    # random lists of up to 8 functions with random numbers
    nrand = 2000 if tier == "quick" else 20000
    for i in range(nrand):
        cnt = rng.randint(3, 8)
        texts = []
        labels = []
        for _ in range(cnt):
            label, name, args, neg = rng.choice(variants)
            unit = label.split("/")[2] if label.count("/") == 2 else None
            new = []
            for j, a0 in enumerate(args):
                isangle = unit is not None and (j == 0 or name == "skew")
                if isangle:
                    u = "" if unit == "unitless" else unit
                    val = {"": rng.uniform(-170, 170), "deg": rng.uniform(-170, 170), "grad": rng.uniform(-180, 180),
                           "rad": rng.uniform(-3, 3), "turn": rng.uniform(-0.45, 0.45)}[u]
                    if name.startswith("skew"):
                        val *= 0.45  # stay away from tan's poles
                    new.append(("%.4g" % val) + u)
                elif name.startswith("scale") or name == "matrix" and j < 4:
                    val = rng.choice([-1, 1]) * rng.uniform(0.25, 3)
                    new.append(rng.choice(["%.3f", "%.2g", "%.3e"]) % val)
                else:
                    val = rng.uniform(-100, 100)
                    new.append(rng.choice(["%.3f", "%d", "%.2e", "%g"]) % val)
            asep = rng.choice(ARGSEPS)
            if asep[0] == "minus":
                new = [new[0]] + [x if x.startswith("-") else "-" + x for x in new[1:]]
            cf = rng.choice(CASES)
            inner = asep[1].join(new)
            texts.append(cf[1](name) + "(" + (inner.upper() if cf[0] == "upper" else inner) + ")")
            labels.append(label)
        lsv = rng.choice(LISTSEPS)[1]
        s = lsv.join(texts)
        n += 1
        distinct.add(("random", cnt))
        r = c04_eval(mod, s, tol=1e-8)
        if r is not None:
            key = c04_key(mod, texts, labels, lsv, r[0], tol=1e-8)
            w = s
            for txt in texts:
                if c04_eval(mod, txt, tol=1e-8) is not None:
                    w = txt
                    break
            rr = c04_eval(mod, w, tol=1e-8)
            agg.add(key, {"s": w, "tol": 1e-8}, list(rr[1]), rr[2])
        if i % 500 == 0:
            samples.append(s)
    # unit-bearing translations resolved at render time
    for lab, s, kw, tol in unit_cases():
        n += 1
        distinct.add(("units", lab, kw.get("ppi")))
        r = c04_eval(mod, s, kw, tol)
        if r is not None:
            agg.add("%s-%s" % (lab, r[0].replace("raises-", "")), {"s": s, "kwargs": kw, "tol": tol}, list(r[1]), r[2])
    return {
        "evaluations": n,
        "distinct_nontrivial": len(distinct),
        "rule": "39 function variants (11 names x valid argument counts x 5 angle units) x argument separators "
                "{comma, blank, comma+blanks, none-before-minus} x case {lower, camel, UPPER incl. units} x outer "
                "white space; all ordered lists of 2 (thorough: 3) variants, separators/case cycled (8 "
                "renderings per pair), list separators {blank, comma, both, newline}; %d random lists of 3-8 "
                "functions with random numbers (tol 1e-8); unit-bearing translate/translateX/translateY x "
                "{'',px,pt,pc,in,cm,mm} x ppi {72,96,300}, %%/em, and lists mixing unit-bearing translations with "
                "plain ones / linear parts. mod.Matrix(s) entries a..f vs the exact evaluator, 1e-9 relative "
                "(2e-6 where cm/mm constants enter). distinct = (variant, separator, case) + (name tuple, list "
                "separator) + unit cases" % nrand,
        "bound": "lists of <= %d functions exhaustive over variants, random lists <= 8 functions" % depth,
        "exhaustive": False,
        "failures": agg.out(),
        "samples": samples[:8],
        "seconds": round(time.time() - t0, 1),
    }


# =========================================================================================================
# (5) C12 length strings
# =========================================================================================================
UNITS = ["", "px", "pt", "pc", "in", "cm", "mm", "%", "em", "ex", "vw", "vh", "vmin", "vmax"]
NUMBER_SPELLINGS = ["0", "1", "12", "2.5", "0.125", ".5", "-3", "-.75", "+4", "+.25", "1e1", "1E1", "2.5e-1", "-1.5E+2",
                    ".5e1", "100", "0.001", "12345.678", "-0", "007"]


def css_px(amount, unit, ppi, rel, font_size, font_height, vb):
    """exact CSS value in user units (Fraction) or None when not resolvable"""
    a = Fraction(amount)
    if unit in ("", "px"):
        return a
    if unit == "pt":
        return a * Fraction(4, 3)
    if unit == "pc":
        return a * 16
    if unit == "in":
        return None if ppi is None else a * Fraction(ppi)
    if unit == "cm":
        return None if ppi is None else a * Fraction(ppi) / Fraction(254, 100)
    if unit == "mm":
        return None if ppi is None else a * Fraction(ppi) / Fraction(254, 10)
    if unit == "%":
        return None if rel is None else a * rel / 100
    if unit == "em":
        return None if font_size is None else a * Fraction(font_size)
    if unit == "ex":
        return None if font_height is None else a * Fraction(font_height)
    if vb is None:
        return None
    w, h = Fraction(vb[2]), Fraction(vb[3])
    ref = {"vw": w, "vh": h, "vmin": min(w, h), "vmax": max(w, h)}[unit]
    return a * ref / 100


def rel_forms(mod, ppi):
    """(label, value passed as relative_length, exact px value or None if it needs ppi and ppi is None)"""
    forms = [("number", 200, Fraction(200)), ("float", 12.5, Fraction(25, 2)), ("string", "200", Fraction(200)),
             ("string-px", "150px", Fraction(150)), ("Length", mod.Length("80"), Fraction(80)),
             ("Length-pt", mod.Length("30pt"), Fraction(40))]
    if ppi is not None:
        forms += [("string-in", "2in", 2 * Fraction(ppi)), ("Length-mm", mod.Length("50mm"), 50 * Fraction(ppi) / Fraction(254, 10))]
    return forms


def c12_one(mod, text_num, unit, ppi, relform, vbtext, casefold=False):
    """list of (key, witness, expected, got)"""
    out = []
    s = text_num + unit
    w = {"s": s}
    try:
        L = mod.Length(s)
    except Exception as e:
        return [("length-constructor-%s" % type(e).__name__, w, "Length(%r)" % s, repr(e))]
    want_amount = float(text_num)
    if not (isinstance(L.amount, float) and L.amount == want_amount):
        out.append(("amount-misread-%s" % (unit or "unitless"), w, want_amount, repr(L.amount)))
        return out
    if L.units != unit and not casefold:
        out.append(("unit-misread-%s" % (unit or "unitless"), w, unit, repr(L.units)))
        return out
    vb = [float(x) for x in vbtext.split()]
    rlab, rval, rpx = relform
    exp = css_px(Fraction(text_num), unit.lower(), ppi, rpx, 12, 7, vb)
    kw = {"ppi": ppi, "relative_length": rval, "font_size": 12, "font_height": 7, "viewbox": vbtext}
    w = {"s": s, "ppi": ppi, "relative_length": str(rval), "relative_form": rlab, "viewbox": vbtext}
    try:
        got = L.value(**kw)
    except Exception as e:
        return [("value-%s-%s%s" % (unit or "unitless", type(e).__name__, "-relative-" + rlab if unit == "%" else ""),
                 w, float(exp) if exp is not None else "stays symbolic", repr(e))]
    if exp is None:
        if not isinstance(got, mod.Length):
            out.append(("unresolvable-%s-guessed" % unit, w, "stays a Length (ppi unknown)", repr(got)))
        return out
    tol = 2e-6 if unit.lower() in ("cm", "mm") or (unit == "%" and rlab == "Length-mm") else 1e-12
    if isinstance(got, mod.Length) or not rel_close(got, float(exp), tol):
        key = "value-%s-wrong" % (unit or "unitless")
        if casefold:
            return out  # upper-case unit spellings are outside C12's quantifier (it lists the lower-case units)
        if unit == "%":
            key += "-relative-" + rlab
        out.append((key, w, float(exp), repr(got)))
    elif unit.lower() in ("cm", "mm") and not rel_close(got, float(exp), 1e-9):
        out.append(("~six-digit", w, float(exp), got))
    return out


def replay_c12(mod, witness):
    s = witness["s"]
    i = len(s)
    while i > 0 and (s[i - 1].isalpha() or s[i - 1] == "%"):
        i -= 1
    # 'e' of an exponent belongs to the number only if digits follow: split on the longest unit suffix known
    num, unit = s[:i], s[i:]
    for u in sorted(UNITS, key=len, reverse=True):
        if u and s.lower().endswith(u):
            num, unit = s[:len(s) - len(u)], s[len(s) - len(u):]
            break
    res = []
    for ppi in ([witness["ppi"]] if "ppi" in witness else [None, 96]):
        for rf in rel_forms(mod, ppi):
            if "relative_form" in witness and rf[0] != witness["relative_form"]:
                continue
            for vb in ([witness["viewbox"]] if "viewbox" in witness else ["0 0 100 200"]):
                res += [x for x in c12_one(mod, num, unit, ppi, rf, vb, casefold=unit != unit.lower()) if x[0][0] != "~"]
    return {"reproduced": bool(res), "detail": [(x[0], x[3]) for x in res][:3]}


@bounded("C12/length_strings", props=["C12"], replay=replay_c12)
def run_c12(mod, tier, seed):
    rng = random.Random(seed)
    agg = Agg()
    n = 0
    distinct = set()
    sixdigit = 0
    t0 = time.time()
    spellings = list(NUMBER_SPELLINGS)
    for _ in range(20 if tier == "quick" else 400):
        v = rng.uniform(-1, 1) * 10 ** rng.randint(-3, 4)
        spellings.append(rng.choice(["%.3f", "%.6g", "%.2e", "%d"]) % v)
    vbs = ["0 0 100 200", "0 0 300 200", "10 20 50.5 50.5"]
    for num in spellings:
        for unit in UNITS:
            for ppi in (None, 72, 96, 300):
                forms = rel_forms(mod, ppi)
                for fi, rf in enumerate(forms):
                    if unit != "%" and fi != (len(num) + len(unit)) % len(forms):
                        continue  # the reference length only matters for %; one form otherwise
                    for vb in (vbs if unit.startswith("v") else vbs[:1]):
                        n += 1
                        distinct.add((unit, ppi is None, rf[0] if unit == "%" else "-", vb if unit.startswith("v") else "-"))
                        for key, w, exp, got in c12_one(mod, num, unit, ppi, rf, vb):
                            if key == "~six-digit":
                                sixdigit += 1
                                continue
                            agg.add(key, w, exp, got)
    # unit identifiers are ASCII case-insensitive in CSS
    for num in ("3", "2.5", "-3e1"):
        for unit in UNITS:
            if not unit or unit == "%" or unit == "px":
                continue
            for cu in (unit.upper(), unit.capitalize()):
                if cu == unit:
                    continue
                for ppi in (96,):
                    n += 1
                    distinct.add(("case", unit))
                    for key, w, exp, got in c12_one(mod, num, cu, ppi, rel_forms(mod, ppi)[0], vbs[0], casefold=True):
                        if key[0] != "~":
                            agg.add(key, w, exp, got)
    return {
        "evaluations": n,
        "distinct_nontrivial": len(distinct),
        "rule": "%d number spellings (sign, leading dot, exponent, leading zeros, random) x 14 units x ppi in "
                "{None,72,96,300} x relative_length as int/float/str/str+unit/Length/Length+unit (for %%) x "
                "viewBoxes 100x200, 300x200, 50.5x50.5 (for v*): amount and unit read exactly, value() equals the "
                "exact CSS value (1e-12 relative; 2e-6 for cm/mm because the constants have six digits), stays a "
                "Length when ppi is unknown; plus upper-case unit identifiers. distinct = (unit, ppi known, "
                "relative form, viewBox)" % len(spellings),
        "bound": "%d spellings x 14 units" % len(spellings),
        "exhaustive": False,
        "cm_mm_values_off_by_more_than_1e-9_but_within_2e-6": sixdigit,
        "failures": agg.out(),
        "samples": [spellings[i] + UNITS[i % 14] for i in range(0, len(spellings), 5)][:8],
        "seconds": round(time.time() - t0, 1),
    }


# =========================================================================================================
# (6) C13 colour strings
# =========================================================================================================

def load_keywords():
    here = os.path.dirname(os.path.dirname(os.path.abspath(__file__)))
    with open(os.path.join(here, "spec", "svg_colors.json")) as f:
        return json.load(f)["colors"]


def rgba_of(c):
    return (c.red, c.green, c.blue, c.alpha)


def css_hsl(h_deg, s_pct, l_pct):
    """CSS Color 3 section 4.2.4 HSL -> RGB in [0,1] as Fractions"""
    h = (Fraction(h_deg) % 360) / 360
    s = min(max(Fraction(s_pct), 0), 100) / 100
    l = min(max(Fraction(l_pct), 0), 100) / 100
    m2 = l * (s + 1) if l <= Fraction(1, 2) else l + s - l * s
    m1 = l * 2 - m2

    def hue(h):
        if h < 0:
            h += 1
        if h > 1:
            h -= 1
        if h * 6 < 1:
            return m1 + (m2 - m1) * h * 6
        if h * 2 < 1:
            return m2
        if h * 3 < 2:
            return m1 + (m2 - m1) * (Fraction(2, 3) - h) * 6
        return m1

    return hue(h + Fraction(1, 3)), hue(h), hue(h - Fraction(1, 3))


def chan_ok(got, exact255):
    """channel within +-1 of 255*value"""
    return isinstance(got, int) and abs(got - float(exact255)) <= 1.0


def c13_expect(mod, s, exp, tolerant=False):
    """None or (expected, got); exp = (r,g,b,a) ints or Fractions (0..255 scale) or None for value None"""
    try:
        c = mod.Color(s)
    except Exception as e:
        return (exp if exp is None else [float(x) for x in exp], "%s: %s" % (type(e).__name__, e))
    if exp is None:
        return None if c.value is None else ("value None", repr(c.value))
    if c.value is None:
        return ([float(x) for x in exp], "value None")
    got = rgba_of(c)
    if tolerant:
        ok = all(chan_ok(g, e) for g, e in zip(got, exp))
    else:
        ok = tuple(got) == tuple(exp)
    return None if ok else ([float(x) for x in exp], list(got))


def clamp(x, lo, hi):
    return min(max(x, lo), hi)


def replay_c13(mod, witness):
    if "rgba32" in witness:
        v = witness["rgba32"]
        c = mod.Color(rgba=v)
        c2 = mod.Color(c.hex)
        return {"reproduced": not (c2 == c and c2.value == v), "detail": [c.hex, c2.value]}
    exp = witness.get("expect")
    r = c13_expect(mod, witness["s"], None if exp is None else tuple(Fraction(x).limit_denominator(10 ** 9) for x in exp),
                   witness.get("tolerant", False))
    return {"reproduced": r is not None, "detail": r}


@bounded("C13/colour_strings", props=["C13"], replay=replay_c13)
def run_c13(mod, tier, seed):
    rng = random.Random(seed)
    agg = Agg()
    n = 0
    distinct = set()
    t0 = time.time()
    samples = []

    def check(key, s, exp, tolerant=False, fam=None):
        nonlocal n
        n += 1
        distinct.add(fam or key)
        r = c13_expect(mod, s, exp, tolerant)
        if r is not None:
            if isinstance(r[1], str) and ":" in r[1] and r[1].split(":")[0].endswith(("Error", "Exception")):
                key = key + "-" + r[1].split(":")[0]
            agg.add(key, {"s": s, "expect": None if exp is None else [str(Fraction(x)) for x in exp],
                          "tolerant": tolerant}, r[0], r[1])

    hexd = "0123456789abcdef"
    # #rgb exhaustive, 4 spellings
    for i in range(4096):
        d = "%03x" % i
        exp = tuple(int(ch * 2, 16) for ch in d) + (255,)
        check("hex3-with-hash", "#" + d, exp)
        check("hex3-upper", "#" + d.upper(), exp)
        check("hex3-no-hash", d, exp)
        check("hex3-no-hash-upper", d.upper(), exp)
    # #rgba exhaustive
    for i in range(65536):
        d = "%04x" % i
        exp = tuple(int(ch * 2, 16) for ch in d)
        if i % 2 == 0:
            check("hex4-with-hash", "#" + d, exp)
            check("hex4-no-hash-upper", d.upper(), exp)
        else:
            check("hex4-upper", "#" + d.upper(), exp)
            check("hex4-no-hash", d, exp)
    # random #rrggbb / #rrggbbaa
    for i in range(20000 if tier == "quick" else 200000):
        v = rng.getrandbits(32)
        d8 = "%08x" % v
        form = i % 8
        if form < 4:
            d = d8[:6]
            exp = (int(d[0:2], 16), int(d[2:4], 16), int(d[4:6], 16), 255)
            fam = "hex6"
        else:
            d = d8
            exp = (int(d[0:2], 16), int(d[2:4], 16), int(d[4:6], 16), int(d[6:8], 16))
            fam = "hex8"
        if form % 4 == 1:
            d = d.upper()
        elif form % 4 == 2:
            d = "".join(ch.upper() if rng.random() < 0.5 else ch for ch in d)
        s = d if form % 4 == 3 else "#" + d
        check(fam + ("-no-hash" if form % 4 == 3 else "-with-hash"), s, exp)
    samples.append(s)
    # Color(c.hex) == c
    fixed = (0x00, 0xFF, 0x12, 0x80)
    vals = []
    for ch in range(4):
        for x in range(256):
            for fx in fixed:
                comp = [fx] * 4
                comp[ch] = x
                vals.append((comp[0] << 24) | (comp[1] << 16) | (comp[2] << 8) | comp[3])
    for _ in range(50000 if tier == "quick" else 500000):
        vals.append(rng.getrandbits(32))
    for v in vals:
        n += 1
        try:
            c = mod.Color(rgba=v)
            h = c.hex
            c2 = mod.Color(h)
            ok = (c2 == c) and c2.value == v and rgba_of(c) == ((v >> 24) & 255, (v >> 16) & 255, (v >> 8) & 255, v & 255)
            if not ok:
                agg.add("hex-roundtrip-differs", {"rgba32": v}, "Color(c.hex) == c, value 0x%08x" % v,
                        {"hex": h, "value": c2.value})
        except Exception as e:
            agg.add("hex-roundtrip-%s" % type(e).__name__, {"rgba32": v}, "Color(c.hex) == c", repr(e))
    distinct.add("hex-roundtrip")
    # rgb()/rgba() integers
    ints = [0, 1, 127, 128, 254, 255, 256, 300, 1000, -1, -255]
    alphas = [None, "0", "1", "0.5", ".25", "0.0", "1.0", "2", "-0.5", "0.999", "1e-1"]
    spaces = [("", ""), (" ", " "), ("  ", ""), ("", " ")]
    k = 0
    for r_ in ints:
        for g in ints:
            for b in (0, 255, 300, -7, 64):
                k += 1
                a = alphas[k % len(alphas)]
                sp = spaces[k % len(spaces)]
                name = "rgb" if a is None else "rgba"
                if a is not None and k % 7 == 0:
                    name = "rgb"  # CSS Color 4: rgb() with alpha is an alias; skip (not CSS 3)
                    a = None
                args = [str(r_), str(g), str(b)] + ([a] if a is not None else [])
                s = name + "(" + sp[0] + (sp[1] + "," + sp[0]).join(args) + sp[1] + ")"
                exp = (clamp(r_, 0, 255), clamp(g, 0, 255), clamp(b, 0, 255),
                       Fraction(255) if a is None else clamp(Fraction(a), 0, 1) * 255)
                fam = "rgb-int-%s%s%s" % ("neg" if min(r_, g, b) < 0 else "", "over" if max(r_, g, b) > 255 else "",
                                          "-alpha" if a is not None else "")
                check("rgb-integers" + ("-alpha" if a is not None else ""), s, exp, tolerant=True, fam=fam)
    samples.append(s)
    # percentages
    pcts = ["0%", "100%", "50%", "12.5%", "33.3%", "99.9%", "100.5%", "150%", "-10%", "-0%", "1e1%", ".5%"]
    for r_ in pcts:
        for g in pcts:
            for b in ("0%", "100%", "40%", "-5%", "200%"):
                k += 1
                a = alphas[k % len(alphas)]
                sp = spaces[k % len(spaces)]
                args = [r_, g, b] + ([a] if a is not None else [])
                s = ("rgb" if a is None else "rgba") + "(" + sp[0] + (sp[1] + "," + sp[0]).join(args) + sp[1] + ")"
                exp = tuple(clamp(Fraction(x[:-1]), 0, 100) * 255 / 100 for x in (r_, g, b)) + \
                    (Fraction(255) if a is None else clamp(Fraction(a), 0, 1) * 255,)
                check("rgb-percent" + ("-alpha" if a is not None else ""), s, exp, tolerant=True,
                      fam="rgb-pct-%s" % ("out" if any(x.startswith("-") or float(x[:-1]) > 100 for x in (r_, g, b)) else "in"))
    samples.append(s)
    # hsl()/hsla()
    hues = [0, 30, 60, 90, 120, 180, 240, 300, 359, 360, 361, 480, 720, 840, 1080, 3600, -30, -120, -360, -390, -720,
            -1000, 0.5, 119.9, 1e3]
    sats = ["0%", "50%", "100%", "25.5%", "150%", "-20%"]
    ligs = ["0%", "25%", "50%", "75%", "100%", "12.5%", "120%", "-10%"]
    for h in hues:
        for st in sats:
            for lt in ligs:
                k += 1
                a = alphas[k % len(alphas)]
                sp = spaces[k % len(spaces)]
                ht = ("%g" % h)
                args = [ht, st, lt] + ([a] if a is not None else [])
                s = ("hsl" if a is None else "hsla") + "(" + sp[0] + (sp[1] + "," + sp[0]).join(args) + sp[1] + ")"
                rgb = css_hsl(Fraction(ht), Fraction(st[:-1]), Fraction(lt[:-1]))
                exp = tuple(x * 255 for x in rgb) + (Fraction(255) if a is None else clamp(Fraction(a), 0, 1) * 255,)
                fam = "hsl-%s" % ("neg" if h < 0 else "wrap%d" % min(int(h // 360), 3))
                check("hsl-hue-%s" % ("negative" if h < 0 else "beyond-360" if h >= 360 else "in-range") +
                      ("-alpha" if a is not None else ""), s, exp, tolerant=True, fam=fam)
    samples.append(s)
    for _ in range(3000 if tier == "quick" else 30000):
        h = rng.choice([rng.uniform(-1500, 1500), rng.randint(-1500, 1500)])
        st, lt = rng.uniform(0, 100), rng.uniform(0, 100)
        ht, stt, ltt = "%.6g" % h, "%.4g%%" % st, "%.4g%%" % lt
        s = "hsl(%s, %s, %s)" % (ht, stt, ltt)
        rgb = css_hsl(Fraction(ht), Fraction(stt[:-1]), Fraction(ltt[:-1]))
        check("hsl-random", s, tuple(x * 255 for x in rgb) + (Fraction(255),), tolerant=True,
              fam="hsl-random-%s" % ("neg" if h < 0 else "wrap" if h >= 360 else "in"))
    # keywords
    kw = load_keywords()
    for name, (r_, g, b) in sorted(kw.items()):
        exp = (r_, g, b, 255)
        check("keyword-%s" % name, name, exp, fam="keyword")
        check("keyword-%s" % name, name.upper(), exp, fam="keyword-upper")
        check("keyword-%s" % name, name.capitalize(), exp, fam="keyword-capital")
        for _ in range(2):
            check("keyword-%s" % name, "".join(ch.upper() if rng.random() < 0.5 else ch for ch in name), exp,
                  fam="keyword-random-case")
    check("none", "none", None)
    check("transparent", "transparent", (0, 0, 0, 0))
    check("transparent", "TRANSPARENT", (0, 0, 0, 0))
    check("transparent", "Transparent", (0, 0, 0, 0))
    # upper-case FUNCTION names (RGB(...)) are outside C13's statement, which promises any letter case for keywords only
    return {
        "evaluations": n,
        "distinct_nontrivial": len(distinct),
        "rule": "exhaustive #rgb (4096 x 4 spellings: #/no #, lower/UPPER) and #rgba (65536 x 2 spellings each, all 4 "
                "spellings over the set): digits doubled, alpha ff when absent; 20k random #rrggbb/#rrggbbaa in 4 "
                "spellings; Color(c.hex) == c for each channel exhaustive (256) with the others at 00/ff/12/80 and "
                "50k random 32-bit values; rgb()/rgba() integers {0..255, 256, 300, 1000, -1, -255} with spaces and "
                "alpha {none,0,1,.5,.25,2,-.5,...}; percentages incl. >100 and negative; hsl()/hsla() hues incl. "
                "negative and beyond +-360 x saturation/lightness incl. out of range (CSS Color 3 algorithm with "
                "fractions; channels within +-1 of 255*value) + 3k random; all 147 keywords lower/UPPER/Capital/2 "
                "random cases; none; transparent; upper-case function names. distinct = spelling families",
        "bound": "see rule",
        "exhaustive": False,
        "failures": agg.out(),
        "samples": samples[:8],
        "seconds": round(time.time() - t0, 1),
    }
