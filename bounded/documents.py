"""Bounded checks C03/document_geometry and C20/write_parse_roundtrip.

C03: SVG.parse of generated documents against the independent evaluator spec/docgeom.py (written from the SVG
specification).  C20: write -> well-formed XML -> parse gives the same shapes, geometry, paint and ids, and the
second generation is geometrically stable.

Every disagreement is minimised (elements / containers / attributes / units / configuration removed while the
same category of disagreement persists) and keyed by what is left: a known defect class gets a short stable
name from the CLASSES table below (with an explanation); anything else keeps the automatically derived
signature as its key, so a new defect still alarms under its own key.
"""
import copy as _copy
import gzip
import io
import math
import os
import random
import re
import shutil
import sys
import tempfile
import time
import xml.etree.ElementTree as ET

from pyvc.bounded import bounded
from spec import docgen, docgeom

KIND_OF = {"Rect": "rect", "Circle": "circle", "Ellipse": "ellipse", "SimpleLine": "line", "Polyline": "polyline",
           "Polygon": "polygon", "Path": "path"}



def _bounded(name, props, replay=None):
    """@bounded, plus a workaround: `python -m pyvc.bounded` runs that file as __main__, so the registry filled
    through `from pyvc.bounded import bounded` is a different module object from the one _main() looks into."""
    def deco(fn):
        bounded(name, props=props, replay=replay)(fn)
        main = sys.modules.get("__main__")
        reg = getattr(main, "BOUNDED", None)
        if isinstance(reg, dict) and name not in reg and str(getattr(main, "__file__", "")).endswith("bounded.py"):
            reg[name] = {"name": name, "props": list(props), "fn": fn, "replay": replay}
            if isinstance(getattr(main, "ORDER", None), list):
                main.ORDER.append(name)
        return fn

    return deco


# NB: no ET.register_namespace here - it is process-global state that changes what the library's writer emits.


class _NoNumpy(object):
    """svgelements tries 'import numpy' inside every point()/npoint(); the interpreter has none.  Pinning the
    failed import in sys.modules only makes that failure fast (no path scan per call); behaviour is unchanged."""

    def __enter__(self):
        self.had = "numpy" in sys.modules
        self.old = sys.modules.get("numpy")
        if not self.had:
            sys.modules["numpy"] = None

    def __exit__(self, *a):
        if not self.had:
            sys.modules.pop("numpy", None)


class _Namespaces(object):
    """ElementTree's prefix registry is process-global and other modules of this process may have registered the
    svg / xlink namespaces.  The library's writer output depends on it, so the checks pin it: pristine (nothing
    registered for svg / xlink) or with the conventional 'xlink' prefix registered as SVG applications do."""
    URIS = ("http://www.w3.org/2000/svg", "http://www.w3.org/1999/xlink")

    def __init__(self, xlink_registered=False):
        self.xlink = xlink_registered

    def __enter__(self):
        m = ET._namespace_map
        self.saved = dict(m)
        for u in self.URIS:
            m.pop(u, None)
        if self.xlink:
            ET.register_namespace("xlink", self.URIS[1])

    def __exit__(self, *a):
        m = ET._namespace_map
        m.clear()
        m.update(self.saved)


# =============================================================================================== geometry

def _pt(p):
    return (float(p[0]), float(p[1]))


def lib_prims(mod, path):
    """Segments of a library Path -> primitives of spec.docgeom (arcs stay library objects: ('A', seg))."""
    out = []
    for seg in path:
        if isinstance(seg, mod.Move):
            out.append(("M", _pt(seg.end)))
        elif isinstance(seg, mod.Close):
            out.append(("Z", _pt(seg.start), _pt(seg.end)))
        elif isinstance(seg, mod.Line):
            out.append(("L", _pt(seg.start), _pt(seg.end)))
        elif isinstance(seg, mod.QuadraticBezier):
            out.append(("Q", _pt(seg.start), _pt(seg.control), _pt(seg.end)))
        elif isinstance(seg, mod.CubicBezier):
            out.append(("C", _pt(seg.start), _pt(seg.control1), _pt(seg.control2), _pt(seg.end)))
        elif isinstance(seg, mod.Arc):
            out.append(("A", seg))
        else:
            out.append(("?", seg))
    return out


def _clamp(t):
    return 0.0 if t < 0.0 else (1.0 if t > 1.0 else t)


def _vertex(t0, d0, t1, d1, t2, d2):
    """abscissa of the vertex of the parabola through three points (falls back to the best sample)."""
    den = (t0 - t1) * (t0 - t2) * (t1 - t2)
    if den == 0:
        return t1
    a = (t2 * (d1 - d0) + t1 * (d0 - d2) + t0 * (d2 - d1)) / den
    b = (t2 * t2 * (d0 - d1) + t1 * t1 * (d2 - d0) + t0 * t0 * (d1 - d2)) / den
    if a <= 0:
        return min(((d0, t0), (d1, t1), (d2, t2)))[1]
    return -b / (2 * a)


def _seg_dist(p, a, b):
    dx, dy = b[0] - a[0], b[1] - a[1]
    l2 = dx * dx + dy * dy
    t = 0.0 if l2 == 0 else max(0.0, min(1.0, ((p[0] - a[0]) * dx + (p[1] - a[1]) * dy) / l2))
    return math.hypot(a[0] + t * dx - p[0], a[1] + t * dy - p[1])


def _arc_distance_robust(seg, p):
    """Bracket narrowing on the (unimodal) distance from p to the arc: 12 rounds of 17 samples, the bracket
    shrinks 8x per round down to ~1e-11 of the parameter range."""
    lo, hi = 0.0, 1.0
    best = None
    for _ in range(12):
        ts = [lo + (hi - lo) * i / 16.0 for i in range(17)]
        P = seg.npoint(ts)
        d = [(q[0] - p[0]) ** 2 + (q[1] - p[1]) ** 2 for q in P]
        i = min(range(17), key=d.__getitem__)
        best = d[i] if best is None or d[i] < best else best
        lo, hi = ts[max(i - 1, 0)], ts[min(i + 1, 16)]
    return math.sqrt(best)


def arc_distances(seg, pts, tol=None, n=32):
    """Distance of each point to a library Arc, observed only through its public npoint(): dense sampling, two
    rounds of parabolic refinement of the nearest parameter, then the distance to the local 2-chord polyline
    (sagitta error ~ 3e-9 of the radius).  The fast estimate can be off on extremely flat ellipses.  So a point it
    puts farther than tol is first compared with a rigorous lower bound (distance to the sampled polyline minus
    the largest sagitta of its chords): if even that exceeds tol the point is off the arc; otherwise it is measured
    again by robust bracket narrowing before it may count as a deviation."""
    ts = [i / float(n) for i in range(n + 1)]
    P = [_pt(q) for q in seg.npoint(ts)]
    est = []
    for p in pts:
        d = [(q[0] - p[0]) ** 2 + (q[1] - p[1]) ** 2 for q in P]
        i = min(range(n + 1), key=d.__getitem__)
        i = min(max(i, 1), n - 1)
        est.append(_clamp(_vertex(ts[i - 1], d[i - 1], ts[i], d[i], ts[i + 1], d[i + 1])))
    for delta in (1.0 / n / 8, 2e-4):
        pos = []
        for t in est:
            pos += [_clamp(t - delta), t, _clamp(t + delta)]
        Q = seg.npoint(pos)
        nxt = []
        for j, p in enumerate(pts):
            tt = pos[3 * j:3 * j + 3]
            dd = [(q[0] - p[0]) ** 2 + (q[1] - p[1]) ** 2 for q in Q[3 * j:3 * j + 3]]
            if tt[0] == tt[1] or tt[1] == tt[2]:
                nxt.append(min(zip(dd, tt))[1])
            else:
                nxt.append(_clamp(_vertex(tt[0], dd[0], tt[1], dd[1], tt[2], dd[2])))
        est = nxt
    eps = 5e-5
    pos = []
    for t in est:
        pos += [_clamp(t - eps), t, _clamp(t + eps)]
    Q = seg.npoint(pos)
    out = []
    for j, p in enumerate(pts):
        a, b, c = [_pt(q) for q in Q[3 * j:3 * j + 3]]
        out.append(min(_seg_dist(p, a, b), _seg_dist(p, b, c)))
    if tol is not None and any(not (o <= tol) for o in out):
        # sagitta of the chords P[2k]..P[2k+2] measured at the sample between them bounds (generously) the
        # sagitta of every chord of the finer polyline through all samples
        sag = max(_seg_dist(P[k + 1], P[k], P[k + 2]) for k in range(0, n - 1, 2))
        for j, p in enumerate(pts):
            if not (out[j] <= tol):
                poly = min(_seg_dist(p, P[k], P[k + 1]) for k in range(n))
                if poly - sag > tol:
                    continue  # certainly farther than tol from this arc
                out[j] = min(out[j], _arc_distance_robust(seg, p))
    return out


def _d(p, q):
    return math.hypot(p[0] - q[0], p[1] - q[1])


def lprim_samples(pr, ts=(0.25, 0.5, 0.75)):
    k = pr[0]
    if k == "A":
        seg = pr[1]
        return [_pt(seg.start)] + [_pt(q) for q in seg.npoint(list(ts))] + [_pt(seg.end)]
    if k == "M":
        return [pr[1]]
    if k == "?":
        return []
    return [docgeom.prim_point(pr, t) for t in (0.0,) + tuple(ts) + (1.0,)]


def dist_to_lib(lprims, pts, tol=None):
    """min distance of each point to the library outline."""
    best = [None] * len(pts)
    multi = len(lprims) > 1
    for pr in lprims:
        if pr[0] == "?" or (pr[0] == "M" and multi):
            continue
        if pr[0] == "A":
            ds = arc_distances(pr[1], pts, tol)
        else:
            ds = [docgeom.dist_point_prim(pr, p) for p in pts]
        for i, dv in enumerate(ds):
            if best[i] is None or dv < best[i]:
                best[i] = dv
    return [float("inf") if b is None else b for b in best]


def direct_compare(oprims, lprims, tol=None):
    """Segment-by-segment comparison when both decompositions have the same structure.
    -> max error, or None when the structures do not correspond."""
    if len(oprims) != len(lprims):
        return None
    err = 0.0
    for o, l in zip(oprims, lprims):
        ko, kl = o[0], l[0]
        if ko == "E":
            if kl != "A":
                return None
            seg = l[1]
            err = max(err, _d(docgeom.prim_point(o, 0.0), _pt(seg.start)), _d(docgeom.prim_point(o, 1.0), _pt(seg.end)))
            err = max([err] + arc_distances(seg, [docgeom.prim_point(o, t) for t in (0.3, 0.7)], tol))
            for q in seg.npoint([0.5]):
                err = max(err, docgeom.closest_on_curve(lambda t: docgeom.prim_point(o, t), _pt(q), 8, 44)[0])
        else:
            if kl != ko and not (ko in "LZ" and kl in "LZ"):
                return None
            for p, q in zip(o[1:], l[1:]):
                err = max(err, _d(p, q))
    return err


def set_compare(oprims, lprims, tol=None):
    """Outline against outline as point sets (both inclusions, sampled)."""
    osamp = []
    for pr in oprims:
        if pr[0] == "M":
            osamp.append(pr[1])
        else:
            osamp += [docgeom.prim_point(pr, t) for t in (0.0, 0.25, 0.5, 0.75, 1.0)]
    err = max(dist_to_lib(lprims, osamp, tol)) if osamp else 0.0
    multi = len(oprims) > 1
    for pr in lprims:
        if pr[0] == "M" and multi:
            continue
        for q in lprim_samples(pr):
            err = max(err, docgeom.dist_point_prims(oprims, q))
    return err


def compare_outline(oprims, lprims, tol):
    e = direct_compare(oprims, lprims, tol)
    if e is not None and e <= tol:
        return e
    if any(pr[0] == "?" for pr in lprims) or not lprims:
        return float("inf")
    e2 = set_compare(oprims, lprims, tol)
    return e2


def compare_lib(lp1, lp2, tol):
    """Two library outlines against each other: pointwise when the segment lists correspond, as sets otherwise."""
    def direct():
        if len(lp1) != len(lp2):
            return None
        err = 0.0
        for a, b in zip(lp1, lp2):
            if a[0] != b[0]:
                return None
            if a[0] == "A":
                sa, sb = a[1], b[1]
                err = max(err, _d(_pt(sa.start), _pt(sb.start)), _d(_pt(sa.end), _pt(sb.end)))
                err = max([err] + arc_distances(sa, [_pt(q) for q in sb.npoint([0.3, 0.7])], tol))
            elif a[0] == "?":
                return None
            else:
                for p, q in zip(a[1:], b[1:]):
                    err = max(err, _d(p, q))
        return err

    e = direct()
    if e is not None and e <= tol:
        return e
    if not lp1 or not lp2:
        return 0.0 if (not lp1 and not lp2) else float("inf")
    err = 0.0
    for x, y in ((lp1, lp2), (lp2, lp1)):
        pts = []
        for pr in x:
            pts += lprim_samples(pr)
        if pts:
            err = max([err] + dist_to_lib(y, pts, tol))
    return err


def lib_scale(lprims):
    s = 1.0
    for pr in lprims:
        for q in lprim_samples(pr, (0.5,)):
            s = max(s, abs(q[0]), abs(q[1]))
    return s


def prims_json(lprims):
    out = []
    for pr in lprims:
        if pr[0] in ("A", "?"):
            out.append([pr[0]] + [[round(c, 9) for c in q] for q in lprim_samples(pr, (0.5,))])
        else:
            out.append([pr[0]] + [[round(c, 9) for c in p] for p in pr[1:]])
    return out


# =============================================================================================== library side

def cfg_key(cfg, reify=None):
    s = "ppi=%s,size=%s,transform=%s" % (cfg["ppi"], cfg["width"], cfg["transform"])
    return s if reify is None else "reify=%s,%s" % (reify, s)


def lib_parse(mod, text, cfg, reify):
    return mod.SVG.parse(io.StringIO(text), reify=reify, ppi=cfg["ppi"], width=cfg["width"], height=cfg["height"],
                         transform=cfg["transform"])


def lib_shapes(mod, svg):
    out = []
    if svg is None:
        return out
    if isinstance(svg, mod.Shape):
        return [svg]
    for e in (svg.elements() if hasattr(svg, "elements") else svg.select()):
        if isinstance(e, mod.Shape):
            out.append(e)
    return out


def lib_outline(mod, shape):
    return lib_prims(mod, abs(mod.Path(shape)))



# =============================================================================================== C03 core

def c03_check(mod, text, cfg, reifies=(True, False)):
    """Run one document under one (ppi, size, caller transform) with reify True and False.
    -> (failures, combos) ; failures: list of dict(cat=..., ...) ; combos: set of compared combinations."""
    fails = []
    combos = set()
    oracle = docgeom.evaluate(text, cfg["ppi"], cfg["width"], cfg["height"], cfg["transform"])
    # the stated tolerance is relative (1e-6): a physical unit honoured to 1e-6 moves a point by this much
    slack = []
    if re.search(r"\d\s*(cm|mm|in)\b", text) or isinstance(cfg["width"], str) or isinstance(cfg["height"], str):
        # each physical unit separately (the conversion constants err independently: 0.393701 for cm and mm, exact
        # for in), deviations added: a joint perturbation lets the errors of two units cancel in a meet/slice scale
        slack = [0.0] * len(oracle)
        for unit in ("in", "cm", "mm"):
            pert = docgeom.evaluate(text, cfg["ppi"], cfg["width"], cfg["height"], cfg["transform"], unit_eps={unit: 1e-6})
            if len(pert) == len(oracle):
                slack = [s_ + docgeom.max_deviation(o, p) for s_, o, p in zip(slack, oracle, pert)]
    outlines = {}
    for reify in reifies:
        try:
            svg = lib_parse(mod, text, cfg, reify)
            shapes = lib_shapes(mod, svg)
            lps = [(KIND_OF.get(type(s).__name__, type(s).__name__), s.id, lib_outline(mod, s)) for s in shapes]
        except Exception as e:  # the code under test raised: that is a failure of its own class
            fails.append({"cat": "exception-%s" % type(e).__name__, "reify": reify, "expected": "no exception",
                          "got": "%s: %s" % (type(e).__name__, e)})
            continue
        outlines[reify] = lps
        exp_ids = [(s.kind, s.id) for s in oracle]
        got_ids = [(k, i) for k, i, _ in lps]
        if exp_ids != got_ids:
            cat = "shape-list"
            if len(exp_ids) == len(got_ids) and sorted(map(str, exp_ids)) == sorted(map(str, got_ids)):
                cat = "shape-order"
            elif len(got_ids) > len(exp_ids):
                cat = "shape-extra"
            elif len(got_ids) < len(exp_ids):
                cat = "shape-missing"
            fails.append({"cat": cat, "reify": reify, "expected": exp_ids, "got": got_ids})
            continue
        for idx, (o, (k, i, lp)) in enumerate(zip(oracle, lps)):
            a, b, c, d, e, f = o.ctm
            S = max(o.coord_scale(), o.local_scale * max(abs(a) + abs(c), abs(b) + abs(d)), abs(e), abs(f), 1.0)
            tol = 1e-6 * S + (slack[idx] if idx < len(slack) else 0.0)
            err = compare_outline(o.prims, lp, tol)
            nontrivial = bool(o.flags)
            combos.add((o.kind, o.pattern(), docgeom.transform_class(o.ctm), cfg_key(cfg, reify), nontrivial))
            if not (err <= tol):
                fails.append({"cat": "geometry", "reify": reify, "shape": idx, "kind": o.kind, "id": o.id,
                              "pattern": o.pattern(), "error": err, "tolerance": tol,
                              "expected": o.as_json(), "got": prims_json(lp)})
    if True in outlines and False in outlines:
        A, B = outlines[True], outlines[False]
        if [(k, i) for k, i, _ in A] != [(k, i) for k, i, _ in B]:
            fails.append({"cat": "reify-shape-list", "expected": [(k, i) for k, i, _ in B],
                          "got": [(k, i) for k, i, _ in A]})
        else:
            for idx, ((k, i, la), (_, _, lb)) in enumerate(zip(A, B)):
                tol = 1e-6 * max(lib_scale(la), lib_scale(lb))
                if idx < len(oracle) and len(oracle) == len(A):
                    o = oracle[idx]
                    a, b, c, d, e, f = o.ctm
                    tol = max(tol, 1e-6 * max(o.local_scale * max(abs(a) + abs(c), abs(b) + abs(d)), abs(e), abs(f)))
                    tol += slack[idx] if idx < len(slack) else 0.0
                err = compare_lib(la, lb, tol)
                if not (err <= tol):
                    fails.append({"cat": "reify-geometry", "shape": idx, "kind": k, "id": i, "error": err,
                                  "tolerance": tol, "expected": prims_json(lb), "got": prims_json(la)})
    return fails, combos


# =============================================================================================== minimiser

_RE_UNIT = re.compile(r"^\s*([+-]?(?:\d+\.?\d*|\.\d+)(?:[eE][+-]?\d+)?)\s*(px|in|cm|mm|pt|pc|%)\s*$")
_NS = "{http://www.w3.org/2000/svg}"
_XL = "{http://www.w3.org/1999/xlink}href"
# attributes without which the element is not a member of the generated family any more
_REQUIRED = {"rect": ("width", "height"), "circle": ("r",), "ellipse": ("rx", "ry"), "polyline": ("points",),
             "polygon": ("points",), "path": ("d",), "use": ("href", _XL), "line": ()}


def _tag(el):
    return el.tag[len(_NS):] if el.tag.startswith(_NS) else el.tag


def _ser(root):
    """Own serialiser (ET.tostring would need process-global namespace registration for readable output)."""
    def esc(v):
        return v.replace("&", "&amp;").replace("<", "&lt;").replace('"', "&quot;")

    def rec(el, top):
        tag = _tag(el)
        a = ""
        if top:
            a += ' xmlns="http://www.w3.org/2000/svg" xmlns:xlink="http://www.w3.org/1999/xlink"'
        for k, v in el.attrib.items():
            a += ' %s="%s"' % ("xlink:href" if k == _XL else k, esc(v))
        kids = "".join(rec(c, False) for c in el)
        return "<%s%s>%s</%s>" % (tag, a, kids, tag) if kids else "<%s%s/>" % (tag, a)

    return rec(root, True)


def _parents(root):
    return {c: p for p in root.iter() for c in p}


def _split_transform(t):
    return [m.group(0).strip().rstrip(",").strip() for m in re.finditer(r"[A-Za-z]+\s*\([^)]*\)\s*,?", t)]


def minimise(text, cfg, still_fails, max_tests=300):
    """Greedy reduction of (document, configuration) while still_fails(text, cfg) holds."""
    tests = [0]

    def ok(t, c):
        if tests[0] >= max_tests:
            return False
        tests[0] += 1
        try:
            return bool(still_fails(t, c))
        except docgeom.Unsupported:
            return False
        except ET.ParseError:
            return False

    cfg = dict(cfg)
    changed = True
    rounds = 0
    while changed and rounds < 5:
        changed = False
        rounds += 1
        for k, v in (("transform", None), ("width", None), ("ppi", 96)):
            if cfg.get(k) != v:
                c2 = dict(cfg)
                c2[k] = v
                if k == "width":
                    c2["height"] = None
                if ok(text, c2):
                    cfg = c2
                    changed = True
        i = len(list(ET.fromstring(text).iter())) - 1
        while i >= 1:
            root = ET.fromstring(text)
            els = list(root.iter())
            if i >= len(els):
                i = len(els) - 1
                continue
            el = els[i]
            _parents(root)[el].remove(el)
            t2 = _ser(root)
            if ok(t2, cfg):
                text = t2
                changed = True
            i -= 1
        i = len(list(ET.fromstring(text).iter())) - 1
        while i >= 1:
            root = ET.fromstring(text)
            els = list(root.iter())
            if i >= len(els):
                i = len(els) - 1
                continue
            el = els[i]
            if len(el) and _tag(el) in ("g", "svg"):
                par = _parents(root)[el]
                pos = list(par).index(el)
                par.remove(el)
                for j, ch in enumerate(list(el)):
                    par.insert(pos + j, ch)
                t2 = _ser(root)
                if ok(t2, cfg):
                    text = t2
                    changed = True
            i -= 1
        n_el = len(list(ET.fromstring(text).iter()))
        for i in range(n_el):
            el0 = list(ET.fromstring(text).iter())[i]
            req = _REQUIRED.get(_tag(el0), ())
            # all optional attributes of the element at once, then one by one
            names = [n for n in el0.attrib if n != "id" and n not in req]
            if len(names) > 1:
                root = ET.fromstring(text)
                el = list(root.iter())[i]
                for n in names:
                    del el.attrib[n]
                t2 = _ser(root)
                if ok(t2, cfg):
                    text = t2
                    changed = True
                    names = []
            for name in list(el0.attrib):
                root = ET.fromstring(text)
                el = list(root.iter())[i]
                if name not in el.attrib or name == "id":
                    continue
                val = el.attrib[name]
                if name in names:
                    del el.attrib[name]
                    t2 = _ser(root)
                    if ok(t2, cfg):
                        text = t2
                        changed = True
                        continue
                    el.set(name, val)
                m = _RE_UNIT.match(val)
                if m and name not in ("href", _XL):
                    el.set(name, m.group(1))
                    t2 = _ser(root)
                    if ok(t2, cfg):
                        text = t2
                        changed = True
                    continue
                for key, sep in (("transform", None), ("style", ";")):
                    if name != key:
                        continue
                    parts = _split_transform(val) if sep is None else [d for d in val.split(";") if d.strip()]
                    if len(parts) > 1:
                        for k in range(len(parts)):
                            el.set(name, (" " if sep is None else sep).join(parts[:k] + parts[k + 1:]))
                            t2 = _ser(root)
                            if ok(t2, cfg):
                                text = t2
                                changed = True
                                break
    return text, cfg, tests[0]


_PAIR = {"x": "xy", "y": "xy", "width": "wh", "height": "wh", "cx": "cxy", "cy": "cxy", "rx": "rxy", "ry": "rxy",
         "x1": "x1y1x2y2", "y1": "x1y1x2y2", "x2": "x1y1x2y2", "y2": "x1y1x2y2"}


def signature(text, cfg=None):
    """Structural signature of a (minimised) witness: tags, which attribute families are present, whether they
    carry units/percentages, the class of each transform."""
    def rec(el):
        tag = _tag(el)
        names = set()
        for k, v in el.attrib.items():
            if k in ("id", "href", _XL, "version"):
                continue
            n = _PAIR.get(k, k)
            m = _RE_UNIT.match(v)
            if m:
                n += "%" if m.group(2) == "%" else "+unit"
            if k == "transform":
                try:
                    n = "transform:" + docgeom.transform_class(docgeom.parse_transform(v))
                except Exception:
                    n = "transform:?"
            if k == "preserveAspectRatio":
                n = "par"
            if k in ("display", "style"):
                n = k + ":" + v.replace(" ", "")
            names.add(n)
        s = tag + ("[" + ",".join(sorted(names)) + "]" if names else "")
        kids = [rec(c) for c in el]
        return s + ("(" + " ".join(kids) + ")" if kids else "")

    try:
        s = rec(ET.fromstring(text))
    except ET.ParseError:
        s = "unparsable"
    if cfg:
        extra = []
        if cfg.get("transform") is not None:
            extra.append("transform")
        if cfg.get("width") is not None or cfg.get("height") is not None:
            extra.append("size")
        if cfg.get("ppi", 96) != 96:
            extra.append("ppi")
        if extra:
            s += "|caller:" + ",".join(extra)
    return s


def doc_features(text):
    """Coarse syntactic features of a document (used to pick the defect class of a minimised witness and to
    group unminimised failures)."""
    F = set()
    try:
        root = ET.fromstring(text)
    except ET.ParseError:
        return frozenset(["unparsable"])
    par = _parents(root)

    def unit(v):
        m = _RE_UNIT.match(v or "")
        return None if not m else ("%" if m.group(2) == "%" else "unit")

    def zero(v):
        try:
            return v is not None and float(_RE_UNIT.match(v).group(1) if _RE_UNIT.match(v) else v) == 0.0
        except ValueError:
            return False

    seen_nested_end = False
    for el in root.iter():
        tag = _tag(el)
        a = el.attrib
        for k, v in a.items():
            u = unit(v)
            if u == "%":
                F.add("pct")
                if seen_nested_end:
                    F.add("pct-after-nested-svg")
            elif u:
                F.add("unit")
        anc = []
        p = par.get(el)
        while p is not None:
            anc.append(p)
            p = par.get(p)
        svg_anc = [q for q in anc if _tag(q) == "svg"]
        if tag == "svg":
            if el is not root:
                F.add("nested-svg")
                seen_nested_end = True  # conservative: everything after the start tag in document order
                if "x" in a or "y" in a:
                    F.add("nested-svg-xy")
                    if "viewBox" not in a:
                        F.add("nested-novb-xy")
                if ("width" not in a or "height" not in a):
                    F.add("nested-svg-auto-size")
                    if any(("width" in q.attrib or "height" in q.attrib) for q in svg_anc):
                        F.add("nested-svg-auto-size-under-sized-svg")
                if zero(a.get("width")) or zero(a.get("height")):
                    F.add("svg-zero-size")
                    F.add("svg-zero-size-viewbox" if "viewBox" in a else "svg-zero-size-noviewbox")
            else:
                if "x" in a or "y" in a:
                    F.add("root-xy")
                    if "viewBox" in a:
                        F.add("root-xy-viewbox")
        if tag in ("rect", "use", "svg") and el is not root:
            for q in svg_anc:
                if ("x" in q.attrib and "x" not in a) or ("y" in q.attrib and "y" not in a):
                    # only when no use lies between (the library drops x/y below a use)
                    F.add("implicit-xy-under-svg-xy")
        if "viewBox" in a:
            F.add("any-viewBox")
        if "transform" in a:
            F.add("transform")
            try:
                if docgeom.transform_class(docgeom.parse_transform(a["transform"])) in ("scale", "general", "general-negdet"):
                    F.add("nonuniform")
            except docgeom.Unsupported:
                pass
        if a.get("preserveAspectRatio", "").strip().startswith("none") and "viewBox" in a:
            F.add("nonuniform")
        if tag in ("circle", "ellipse", "line", "rect"):
            F.add(tag)
        if tag == "use":
            F.add("use")
            if _XL in a:
                F.add("xlink-href")
            if unit(a.get("x")) or unit(a.get("y")):
                F.add("use-len")
            if unit(a.get("x")) == "%" or unit(a.get("y")) == "%":
                F.add("use-pct")
            for q in svg_anc:
                for k in ("x", "y"):
                    if k not in a and unit(q.attrib.get(k)):
                        F.add("use-len-inherited")
        if tag == "circle" and unit(a.get("r")) == "%":
            F.add("circle-r-pct")
        if tag == "rect" and ("rx" in a or "ry" in a):
            F.add("rect-radius")
            if any(unit(a.get(k)) for k in ("width", "height", "rx", "ry")):
                F.add("rect-radius-deferred-length")
    return frozenset(F)


# ------------------------------------------------------------------------------------------------ known classes

C03_EXPLANATIONS = {
    "use-xy-length-ValueError":
        "A <use> whose x or y is a length with a unit or a percentage (allowed: x, y are <length-percentage>) makes "
        "SVG.parse raise ValueError as soon as the accumulated transform has a translation part (viewBox of the "
        "root, an ancestor or own transform with e/f != 0): Use.property_by_values appends 'translate(<Length>, "
        "<Length>)' to the transform string and Matrix multiplication then adds a unit-bearing Length to a float "
        "(Length.__iadd__ raises). Specification: the use behaves as a group with translate(x, y); the document "
        "is valid. Genuine library defect (the document-level face of the Matrix/Length defect of C04).",
    "use-xy-length-shape-dropped":
        "Same root cause as use-xy-length-ValueError (a <use> x/y with a unit or percentage becomes "
        "'translate(<Length>, <Length>)' and the matrix product with a transform that has a translation part adds a "
        "unit-bearing Length to a float, ValueError), but the ValueError is swallowed by SVG.parse: where it is "
        "raised while the referenced shape (which has its own transform) is constructed the shape is silently "
        "dropped; in trees where parse also treats a ValueError from constructing the Use itself as 'element in "
        "error, not rendered' the whole use instance disappears. Either way a valid document loses rendered shapes. "
        "Genuine library defect.",
    "svg-xy-length-inherited-by-use-shape-dropped":
        "Combination of svg-xy-inherited-by-descendant and use-xy-length-shape-dropped: a <use> without x/y inside "
        "an <svg> whose x or y carries a unit or percentage inherits that text as its own x/y, hits the Length + "
        "float ValueError, and is silently not rendered. Genuine library defect (two causes).",
    "nested-svg-xy-ignored-without-viewbox":
        "A nested <svg x= y=> without a viewBox establishes a viewport whose origin is (x, y) (SVG 2 8.2: "
        "translate(e-x, e-y) also when there is no viewBox); SVG.parse only applies a viewport transform when a "
        "viewBox is present, so the content is not translated. Genuine library defect.",
    "svg-xy-inherited-by-descendant":
        "SVG.parse copies every attribute of an ancestor into the value dictionary of its descendants. The x / y "
        "of an <svg> are therefore taken as the x / y of any descendant rect, use or nested svg that does not "
        "specify its own (their lacuna value is 0), which shifts them by the svg's x / y a second time. x and y are "
        "not inherited properties. Genuine library defect.",
    "root-svg-xy-applied":
        "x and y on the outermost svg element have no effect (SVG 1.1 5.1.2, SVG 2 5.1.2); the library feeds them into "
        "the viewBox transform of the root (translate by x, y). Genuine (minor) library deviation.",
    "svg-size-inherited-by-nested-svg":
        "A nested <svg> without width/height must use 100% of its viewport; because ancestor attributes leak into "
        "descendants the nested svg takes the *attribute text* of the enclosing svg's width/height (e.g. '51' or '50%') "
        "instead. Same leak as svg-xy-inherited-by-descendant, different victim. Genuine library defect.",
    "viewport-not-restored-after-nested-svg":
        "SVG.parse keeps the current viewport size in two local variables that are overwritten when a nested svg "
        "opens and never restored when it closes: percentages of every element rendered after a nested </svg> "
        "(including elements instantiated by a later <use> and the implicit width/height=100% of a following nested "
        "svg) are resolved against the nested viewport instead of their own nearest viewport. Genuine library defect.",
    "rect-radius-not-clamped":
        "rx/ry of a rect must be clamped to half the width/height (and an auto radius takes the other one's value) "
        "after all lengths are resolved. Rect._validate_rect runs at construction only; when width, height, rx or ry "
        "still carries a unit or percentage at that moment the clamp is skipped (ValueError swallowed) or done "
        "against an unresolved value, and render() never re-validates. Genuine library defect.",
    "circle-r-percent":
        "A percentage r of a circle refers to the normalised diagonal sqrt((w^2+h^2)/2) of the viewport (SVG 1.1 "
        "7.10 / SVG 2 8.9); the library resolves rx against the viewport width and ry against its height, turning the "
        "circle into an ellipse. Genuine library defect.",
    "use-xy-percent-mixed-axes":
        "A percentage x (y) of a <use> is kept as a percent Length inside the matrix of 'translate(x, y)'. When the "
        "use's own (or an accumulated) transform is not axis-aligned, the matrix product spreads that Length over both "
        "translation entries (e = a*x%, f = b*x%), and Matrix.render then resolves e against the viewport width but f "
        "against the viewport height although both come from x, a width percentage (and vice versa for y). Correct "
        "only for axis-aligned transforms or square viewports; e.g. <svg height=80><use x='14.17%' "
        "transform='rotate(30)'> lands at y=5.668 instead of 70.85. Genuine library defect.",
    "svg-xy-length-inherited-by-use-ValueError":
        "Combination of svg-xy-inherited-by-descendant and use-xy-length-ValueError: a <use> without x/y inside an "
        "<svg> whose x or y carries a unit or percentage inherits that text as its own x/y and then raises the "
        "ValueError of use-xy-length-ValueError. Genuine library defect (two causes).",
    "nested-svg-zero-size-aborts-parse":
        "A nested svg with viewBox and width or height 0 only disables rendering of that element; SVG.parse executes "
        "'return s', i.e. it aborts the whole parse and returns the *nested* svg object, losing every other shape "
        "of the document. Genuine library defect.",
    "nested-svg-zero-size-rendered":
        "A nested svg with width or height 0 and no viewBox must not render its content (a value of zero disables "
        "rendering of the element); the zero check is only made when a viewBox is present. Genuine library defect.",
}


# defect classes that have been repaired in the library (fix: commits, see known_findings.json): a failure that looks
# like one of them is a new violation and is reported under its own signature, never attributed to the old class
REPAIRED = {"use-xy-length-ValueError", "svg-xy-length-inherited-by-use-ValueError", "use-xy-length-shape-dropped",
            "svg-xy-length-inherited-by-use-shape-dropped", "nested-svg-zero-size-aborts-parse",
            "nested-svg-zero-size-rendered", "circle-r-percent", "rect-radius-not-clamped", "use-xy-percent-mixed-axes",
            "nested-svg-xy-ignored-without-viewbox", "svg-xy-inherited-by-descendant", "root-svg-xy-applied",
            "svg-size-inherited-by-nested-svg", "viewport-not-restored-after-nested-svg",
            "svgz-write-truncated", "xlink-prefix-registered-duplicate-xmlns", "use-written-with-own-transform",
            "nested-svg-write-drops-outer-viewport", "circle-unequal-radii-written-as-r",
            "rect-unclamped-radius-not-roundtripped", "stale-attribute-written-for-zero-value",
            "zero-size-svg-write-ZeroDivisionError"}


def c03_classify(cat, text, cfg):
    """Defect class of a minimised witness -> (key, explanation or None)."""
    F = doc_features(text)
    key = None
    if cat.startswith("exception-ValueError") and "use-len" in F:
        key = "use-xy-length-ValueError"
    elif cat.startswith("exception-ValueError") and "use-len-inherited" in F:
        key = "svg-xy-length-inherited-by-use-ValueError"
    elif cat == "shape-missing" and "use-len" in F:
        key = "use-xy-length-shape-dropped"
    elif cat == "shape-missing" and "use-len-inherited" in F:
        key = "svg-xy-length-inherited-by-use-shape-dropped"
    elif cat == "geometry":
        if "circle-r-pct" in F:
            key = "circle-r-percent"
        elif "rect-radius-deferred-length" in F:
            key = "rect-radius-not-clamped"
        elif "use-pct" in F and "transform" in F:
            key = "use-xy-percent-mixed-axes"
        elif "nested-novb-xy" in F:
            key = "nested-svg-xy-ignored-without-viewbox"
        elif "implicit-xy-under-svg-xy" in F:
            key = "svg-xy-inherited-by-descendant"
        elif "root-xy-viewbox" in F:
            key = "root-svg-xy-applied"
        elif "nested-svg-auto-size-under-sized-svg" in F:
            key = "svg-size-inherited-by-nested-svg"
        elif "nested-svg" in F and ("pct" in F or "nested-svg-auto-size" in F):
            # a percentage (or the implicit 100% size of a further nested svg) somewhere and a nested svg that was
            # opened earlier in rendering order (a use may render an earlier element after it)
            key = "viewport-not-restored-after-nested-svg"
    if key is None or key in REPAIRED:
        return "C03-%s:%s" % (cat, signature(text, cfg)), None
    return key, C03_EXPLANATIONS[key]


class Collector(object):
    """Groups raw failures into defect classes.

    * A failure whose own record already identifies a known class (direct(f) -> key, used by C20 where the state of
      the failing shape in the source tree says which writer defect applies) is counted under that key; the first
      such case is minimised to provide the witness.
    * Otherwise: minimise -> classify(minimal witness).  To stay inside the time bound only the first `per_group`
      failures of each (category, trigger feature set of the document) group are minimised (up to 3x that while
      the group's results disagree); further ones are attributed to the class found most often for their group
      (counts only, never a new key)."""

    def __init__(self, check, classify, features, per_group, minimise_fn=None, max_tests=300, direct=None):
        self.check = check          # check(input, cfg, cat, fail) -> list of raw failures
        self.classify = classify    # classify(cat, input, cfg) -> (key, explanation)
        self.features = features
        self.per_group = per_group
        self.minimise_fn = minimise_fn or minimise
        self.max_tests = max_tests
        self.direct = direct
        self.by_key = {}
        self.order = []
        self.groups = {}
        self.minimised = 0
        self.attributed = 0

    def _record(self, key, expl, cat, mt, mc, h, inp, cfg, label, ntests):
        detail = {k: v for k, v in h.items() if k not in ("expected", "got", "cat", "written")}
        if key in self.by_key:
            ent = self.by_key[key]
            ent["count"] += 1
            if _weight(mt, mc) < _weight(ent["input"]["text"], ent["input"]["config"]):
                ent["input"] = {"text": mt, "config": mc}
                ent["category"] = cat
                ent["expected"], ent["got"], ent["detail"] = h.get("expected"), h.get("got"), detail
                if "written" in h:
                    ent["written"] = h["written"]
            return
        ent = {"key": key, "count": 1, "category": cat, "input": {"text": mt, "config": mc},
               "expected": h.get("expected"), "got": h.get("got"), "detail": detail,
               "first_seen": {"label": label, "text": inp, "config": cfg}, "minimiser_tests": ntests}
        if "written" in h:
            ent["written"] = h["written"]
        if expl:
            ent["explanation"] = expl
        self.by_key[key] = ent
        self.order.append(key)

    def add(self, inp, cfg, fails, label=None):
        seen = set()
        for f in fails:
            cat = f["cat"]
            dk = self.direct(f, inp, cfg) if self.direct else None
            if (cat, dk) in seen or (dk is not None and dk in seen):
                continue
            seen.add((cat, dk))
            if dk is not None:
                seen.add(dk)
                key, expl = dk
                if key in self.by_key and self.by_key[key].get("witnesses_minimised", 0) >= self.per_group:
                    self.by_key[key]["count"] += 1
                    self.attributed += 1
                    continue

                def still_d(t, c, cat=cat, f=f, dk=dk):
                    return any(self.direct(h, t, c) == dk for h in self.check(t, c, cat, f))

                mt, mc, ntests = self.minimise_fn(inp, cfg, still_d, self.max_tests)
                self.minimised += 1
                mf = [h for h in self.check(mt, mc, cat, f) if self.direct(h, mt, mc) == dk]
                self._record(key, expl, cat, mt, mc, mf[0] if mf else f, inp, cfg, label, ntests)
                self.by_key[key]["witnesses_minimised"] = self.by_key[key].get("witnesses_minimised", 0) + 1
                continue
            grp = (cat, self.features(inp))
            g = self.groups.setdefault(grp, {})
            n = sum(g.values())
            if n >= self.per_group and (len(g) == 1 or n >= 3 * self.per_group):
                key = max(sorted(g), key=lambda k: g[k])
                self.by_key[key]["count"] += 1
                self.attributed += 1
                continue

            def still(t, c, cat=cat, f=f):
                return any(h["cat"] == cat and (self.direct is None or self.direct(h, t, c) is None)
                           for h in self.check(t, c, cat, f))

            mt, mc, ntests = self.minimise_fn(inp, cfg, still, self.max_tests)
            self.minimised += 1
            mf = [h for h in self.check(mt, mc, cat, f) if h["cat"] == cat]
            key, expl = self.classify(cat, mt, mc)
            g[key] = g.get(key, 0) + 1
            self._record(key, expl, cat, mt, mc, mf[0] if mf else f, inp, cfg, label, ntests)

    def failures(self):
        return [self.by_key[k] for k in self.order]


def json_len(x):
    return x if isinstance(x, str) else repr(x)


def _weight(text, cfg):
    """size of a witness: length of the document plus a penalty per non-default configuration entry"""
    c = cfg or {}
    pen = sum(1 for k, d in (("ppi", 96), ("width", None), ("height", None), ("transform", None)) if c.get(k, d) != d)
    return len(json_len(text)) + 25 * pen


# =============================================================================================== C03 check

def _c03_documents(tier, seed):
    """-> list of (label, text, [config pairs])"""
    pairs = docgen.config_pairs()
    rng = random.Random(seed)
    docs = []
    n = 0
    ts = [None, "scale(-1,1)", "rotate(45 10 20)", "matrix(1 0.5 -0.5 1 3 4)"]
    if tier == "quick":
        k = 0
        for kind in docgen.KINDS:
            for pattern in docgen.PATTERNS:
                for t in ts:
                    for place in ("leaf", "outer"):
                        if (t is None or pattern in ("plain", "after-svg")) and place == "outer":
                            continue
                        k += 1
                        variant = ("plain", "unit", "percent")[k % 3]
                        ri = k % len(docgen.ROOTS)
                        for lab, text in docgen.systematic([t], (variant,), (place,), [docgen.ROOTS[ri]], [pattern],
                                                           [kind]):
                            docs.append((lab, text, [pairs[(k * 7) % len(pairs)]]))
        for lab, text in docgen.special_documents():
            n += 1
            docs.append((lab, text, [pairs[0], pairs[(n * 5) % len(pairs)]]))
        for i in range(300):
            text = docgen.random_document(rng)
            docs.append(("random-%d" % i, text, [pairs[rng.randrange(len(pairs))], pairs[rng.randrange(len(pairs))]]))
    else:
        k = 0
        for lab, text in docgen.systematic():
            k += 1
            if k % 4 == seed % 4:
                docs.append((lab, text, [pairs[(k * 7) % len(pairs)]]))
        for lab, text in docgen.special_documents():
            docs.append((lab, text, pairs))
        for lab, text in docgen.one_leaf_exhaustive([None, "scale(-1,1)", "matrix(1 0.5 -0.5 1 3 4)"]):
            docs.append(("exh/" + lab, text, pairs))
        for i in range(5000):
            text = docgen.random_document(rng)
            docs.append(("random-%d" % i, text, [pairs[rng.randrange(len(pairs))], pairs[rng.randrange(len(pairs))]]))
    return docs


def _c03_checker(mod):
    def check(t, c, cat=None, f=None):
        if cat is not None and f is not None and "reify" in f and not cat.startswith("reify"):
            return c03_check(mod, t, c, reifies=(f["reify"],))[0]
        return c03_check(mod, t, c)[0]

    return check


def c03_replay(mod, witness):
    inp = witness.get("input", witness)
    text, cfg = inp["text"], inp["config"]
    with _NoNumpy():
        fails, _ = c03_check(mod, text, cfg)
    cats = sorted(set(f["cat"] for f in fails))
    keys = [c03_classify(c, text, cfg)[0] for c in cats]
    want = witness.get("key")
    rep = bool(fails) and (want is None or want in keys)
    return {"reproduced": rep, "detail": {"categories": cats, "keys": keys,
                                         "failures": [{k: v for k, v in f.items()} for f in fails[:3]]}}


@_bounded("C03/document_geometry", props=["C03"], replay=c03_replay)
def c03_run(mod, tier, seed):
    t0 = time.time()
    with _NoNumpy():
        docs = _c03_documents(tier, seed)
        col = Collector(_c03_checker(mod), c03_classify, _c03_features, 3 if tier == "quick" else 4)
        combos = set()
        evaluations = 0
        unsupported = 0
        samples = []
        for lab, text, cfgs in docs:
            for cfg in cfgs:
                try:
                    fails, cb = c03_check(mod, text, cfg)
                except docgeom.Unsupported:
                    unsupported += 1
                    continue
                evaluations += 2
                combos |= cb
                if fails:
                    col.add(text, cfg, fails, lab)
            if len(samples) < 6 and (lab.startswith("random") or len(samples) < 3):
                samples.append({"label": lab, "text": text, "config": cfgs[0]})
    nspecial = len(docgen.special_documents())
    return {
        "evaluations": evaluations,
        "distinct_nontrivial": len([c for c in combos if c[4]]),
        "distinct_total": len(combos),
        "rule": "one evaluation = one SVG.parse of one generated document under one of the 36 configurations "
                "(reify x ppi x caller size x caller transform), all rendered shapes compared with the independent "
                "evaluator spec/docgeom.py (count, order, kind, id, outline within 1e-6 of the coordinate scale) and "
                "reify=True against reify=False; distinct = distinct (shape kind, chain of ancestor elements incl. "
                "use expansion, class of the cumulative transform, configuration) compared; non-trivial = at least "
                "one transform, viewBox, unit, percentage or use x/y involved",
        "bound": "documents over svg/g/defs/use/nested svg/7 shape kinds, container depth <= 4, <= 12 elements, "
                 "13 transform strings, units cm mm in pt pc %, paths M L H V C Q Z; " +
                 ("systematic kinds x %d nesting patterns x 4 transforms x placement + %d special documents + 300 "
                  "seeded random documents x 2 configuration pairs" % (len(docgen.PATTERNS), nspecial)
                  if tier == "quick" else
                  "every fourth member of the systematic product (kinds x variants x patterns x 7 transforms x placement "
                  "x 5 roots), %d special documents x 36 configurations, exhaustive one-leaf documents with <= 2 containers "
                  "from {g, svg+viewBox, svg, use, use of group} x 3 transforms (none, reflection, general matrix) x 36 "
                  "configurations, 5000 seeded random documents x 2 configuration pairs" % nspecial),
        "exhaustive": False,
        "failures": col.failures(),
        "samples": samples,
        "documents": len(docs),
        "oracle_unsupported": unsupported,
        "failing_cases_minimised": col.minimised,
        "failing_cases_attributed_by_group": col.attributed,
        "wall_s": round(time.time() - t0, 1),
    }


# =============================================================================================== C20

BLACK = 0x000000FF


def _paint(c, default):
    """Color -> comparable value; None (never specified) means the SVG initial value."""
    if c is None:
        return default
    return c.value


def _local_scale(mod, shape):
    s = 1.0
    try:
        for seg in shape.segments(transformed=False):
            for p in (seg.start, seg.end):
                if p is not None:
                    s = max(s, abs(float(p[0])), abs(float(p[1])))
    except Exception:
        pass
    return s


def shape_records(mod, svg, render=None):
    out = []
    for s in lib_shapes(mod, svg):
        q = s
        if render is not None:
            q = _copy.copy(s)
            q.render(**render)
        kind = type(s).__name__
        if kind == "Circle":
            # a Circle object holds two radii; once they differ (reified non-uniform scale) only an ellipse element
            # can express it, so circle and ellipse count as one kind here - the outline comparison decides
            kind = "Ellipse"
        out.append({"kind": kind, "id": s.id, "outline": lib_outline(mod, q),
                    "fill": _paint(q.fill, BLACK), "stroke": _paint(q.stroke, None),
                    "stroke_width": q.implicit_stroke_width, "has_stroke": q.stroke is not None,
                    "local": _local_scale(mod, q), "det": abs(q.transform.determinant),
                    "msum": sum(abs(v) for v in (q.transform.a, q.transform.b, q.transform.c, q.transform.d))})
    return out


_GEOM_ATTRS = {"Rect": ("x", "y", "width", "height", "rx", "ry"), "Circle": ("cx", "cy"),
               "Ellipse": ("cx", "cy", "rx", "ry"), "SimpleLine": ("x1", "y1", "x2", "y2")}


def tree_shape_features(mod, root):
    """For every shape of a library tree (same order as lib_shapes): which known writer defect is triggered by
    the state of that shape and of its ancestors.  Only used to name the class of an observed disagreement."""
    out = []

    def nonident(vt):
        try:
            return bool(vt) and not mod.Matrix(vt).is_identity()
        except Exception:
            return True

    def feats(s, anc):
        F = []
        svgs = [a for a in anc if isinstance(a, mod.SVG)]
        try:
            if len(svgs) >= 2 and any(a.viewbox is not None and nonident(a.viewbox_transform) for a in svgs[:-1]):
                F.append("under-nested-svg-with-outer-viewbox")
        except Exception:
            F.append("under-nested-svg-with-outer-viewbox")
        if any(isinstance(a, mod.Use) and not a.transform.is_identity() for a in anc):
            F.append("under-use-with-transform")
        if svgs and svgs[0].viewbox is not None and not (isinstance(svgs[0].width, (int, float))
                                                         and isinstance(svgs[0].height, (int, float))):
            F.append("svg-viewbox-unresolved-size")
        try:
            if isinstance(s, mod.Circle) and abs(s.rx - s.ry) > 1e-9 * max(abs(s.rx), abs(s.ry)):
                F.append("circle-unequal-radii")
            if isinstance(s, mod.Rect) and (s.rx > s.width / 2.0 * (1 + 1e-9) or s.ry > s.height / 2.0 * (1 + 1e-9)):
                F.append("rect-unclamped-radius")
        except Exception:
            pass
        orig = s.values.get(mod.SVG_STRUCT_ATTRIB) if isinstance(s.values, dict) else None
        if isinstance(orig, dict):
            for k in _GEOM_ATTRS.get(type(s).__name__, ()):
                try:
                    if k in orig and not getattr(s, k) and float(_RE_UNIT.sub(lambda m: m.group(1), str(orig[k]))) != 0.0:
                        F.append("stale-zero-attribute")
                        break
                except (ValueError, AttributeError, TypeError):
                    pass
        return F

    def rec(node, anc):
        if isinstance(node, mod.Shape):
            out.append(feats(node, anc))
        elif isinstance(node, (mod.Group, mod.Use)):
            for c in node:
                rec(c, anc + [node])

    rec(root, [])
    return out


_DIRECT_KEYS = (("under-nested-svg-with-outer-viewbox", "nested-svg-write-drops-outer-viewport"),
                ("svg-viewbox-unresolved-size", "built-svg-viewbox-unresolved-size"),
                ("rect-unclamped-radius", "rect-unclamped-radius-not-roundtripped"))


def c20_direct(f, inp=None, cfg=None):
    """known class of one failure record, from the state of the failing shape -> (key, explanation) or None"""
    if f["cat"] not in _GEOMISH:
        return None
    sf = f.get("shape_features") or ()
    for feat, key in _DIRECT_KEYS:
        if feat in sf and key not in REPAIRED:
            return key, C20_EXPLANATIONS[key]
    return None


def _viewport_gain(mod, svg):
    """how much a rounding error of a written matrix entry is magnified by the viewport transforms on re-parse"""
    k = 1.0
    if svg is None:
        return k
    nodes = [svg] + [e for e in svg.select() if isinstance(e, mod.SVG)] if isinstance(svg, mod.Group) else []
    for n in nodes:
        if isinstance(n, mod.SVG) and n.viewbox is not None:
            try:
                m = mod.Matrix(n.viewbox_transform)
                k *= max(1.0, abs(m.a), abs(m.d))
            except Exception:
                pass
    return k


def compare_records(X, Y, gain, stage, paint=True):
    """-> raw failures (one per category at most is enough for classification, all are listed)."""
    fails = []
    kx = [(r["kind"], r["id"]) for r in X]
    ky = [(r["kind"], r["id"]) for r in Y]
    if [k for k, _ in kx] != [k for k, _ in ky]:
        cat = "shape-missing" if len(ky) < len(kx) else ("shape-extra" if len(ky) > len(kx) else "shape-kind")
        fails.append({"cat": stage + cat, "expected": kx, "got": ky})
        return fails
    for idx, (a, b) in enumerate(zip(X, Y)):
        scale = max(lib_scale(a["outline"]), lib_scale(b["outline"]))
        tol = 1e-6 * (scale + (a["local"] + 1.0) * gain)
        err = compare_lib(a["outline"], b["outline"], tol)
        if not (err <= tol):
            fails.append({"cat": stage + "geometry", "shape": idx, "kind": a["kind"], "id": a["id"], "error": err,
                          "tolerance": tol, "expected": prims_json(a["outline"]), "got": prims_json(b["outline"])})
        if not paint:
            continue
        if a["id"] != b["id"]:
            fails.append({"cat": stage + "id", "shape": idx, "kind": a["kind"], "expected": a["id"], "got": b["id"]})
        if a["fill"] != b["fill"]:
            fails.append({"cat": stage + "fill", "shape": idx, "kind": a["kind"], "id": a["id"],
                          "expected": a["fill"], "got": b["fill"]})
        if a["stroke"] != b["stroke"]:
            fails.append({"cat": stage + "stroke", "shape": idx, "kind": a["kind"], "id": a["id"],
                          "expected": a["stroke"], "got": b["stroke"]})
        if a["stroke"] is not None or a["has_stroke"]:
            sa, sb = a["stroke_width"], b["stroke_width"]
            if sa is None or sb is None:
                ok = sa == sb or (sa is None and sb is not None and a["stroke"] is None)
            else:
                # six-decimal matrices: each entry is off by <= 5e-7; relative to entries of size ~1/gain (a
                # reified shape is written with the inverse viewport matrix) that is 5e-7 * gain, twice for sqrt|det|
                rel = 1e-6 + 2e-6 * gain + 1e-6 * (a["msum"] + b["msum"]) / max(min(a["det"], b["det"]), 1e-300)
                ok = abs(sa - sb) <= rel * max(abs(sa), abs(sb)) + 1e-12
            if not ok:
                fails.append({"cat": stage + "stroke-width", "shape": idx, "kind": a["kind"], "id": a["id"],
                              "expected": sa, "got": sb})
    return fails


def c20_roundtrip(mod, x, cfg, reify, render=None, files=None):
    """x: SVG/Group/Shape tree. -> raw failures."""
    kw = {"ppi": cfg["ppi"], "width": cfg["width"], "height": cfg["height"], "reify": reify}
    try:
        X = shape_records(mod, x, render)
    except Exception as e:
        return [{"cat": "exception-%s@source-geometry" % type(e).__name__, "expected": "geometry of the source tree",
                 "got": "%s: %s" % (type(e).__name__, e)}]
    try:
        text = x.string_xml()
    except Exception as e:
        return [{"cat": "exception-%s@write" % type(e).__name__, "expected": "text", "got": "%s: %s" % (type(e).__name__, e)}]
    try:
        ET.fromstring(text)
    except ET.ParseError as e:
        return [{"cat": "not-well-formed", "expected": "well-formed XML", "got": "%s | %s" % (e, text[:300])}]
    try:
        y = mod.SVG.parse(io.StringIO(text), **kw)
        Y = shape_records(mod, y)
    except Exception as e:
        return [{"cat": "exception-%s@reparse" % type(e).__name__, "expected": "parsable", "written": text,
                 "got": "%s: %s" % (type(e).__name__, e)}]
    fails = compare_records(X, Y, _viewport_gain(mod, y), "")
    XF = tree_shape_features(mod, x)
    YF = tree_shape_features(mod, y)
    for f in fails:
        f["written"] = text
        if "shape" in f and f["shape"] < len(XF):
            f["shape_features"] = XF[f["shape"]] + [q for q in YF[f["shape"]] if q == "circle-unequal-radii"] \
                if f["shape"] < len(YF) else XF[f["shape"]]
    try:
        text2 = y.string_xml()
        ET.fromstring(text2)
        z = mod.SVG.parse(io.StringIO(text2), **kw)
        Z = shape_records(mod, z)
    except Exception as e:
        fails.append({"cat": "exception-%s@second-generation" % type(e).__name__, "expected": "parsable",
                      "got": "%s: %s" % (type(e).__name__, e)})
        return fails
    for f in compare_records(Y, Z, _viewport_gain(mod, z), "second-generation-", paint=True):
        f["written"] = text2
        if "shape" in f and f["shape"] < len(YF):
            f["shape_features"] = YF[f["shape"]]
        fails.append(f)
    if files:
        d = tempfile.mkdtemp(prefix="c20_")
        try:
            for name in files:
                p = os.path.join(d, name)
                try:
                    x.write_xml(p)
                except Exception as e:
                    fails.append({"cat": "exception-%s@write_xml-%s" % (type(e).__name__, name.split(".")[-1]),
                                  "expected": "file written", "got": "%s: %s" % (type(e).__name__, e)})
                    continue
                try:
                    if name.endswith("svgz"):
                        with gzip.open(p, "rb") as fh:
                            ftext = fh.read().decode("utf-8")
                    else:
                        with open(p, "r") as fh:
                            ftext = fh.read()
                except Exception as e:
                    fails.append({"cat": "%s-unreadable" % name.split(".")[-1], "expected": "complete file",
                                  "got": "%s: %s (file size %d)" % (type(e).__name__, e, os.path.getsize(p))})
                    continue
                try:
                    ET.fromstring(ftext)
                    w = mod.SVG.parse(io.StringIO(ftext), **kw)
                    W = shape_records(mod, w)
                except Exception as e:
                    fails.append({"cat": "exception-%s@reparse-%s" % (type(e).__name__, name.split(".")[-1]),
                                  "expected": "parsable", "got": "%s: %s" % (type(e).__name__, e)})
                    continue
                for f in compare_records(Y, W, _viewport_gain(mod, w), "write_xml-%s-vs-string_xml-" % name.split(".")[-1]):
                    fails.append(f)
        finally:
            shutil.rmtree(d, ignore_errors=True)
    return fails


# ---- programmatically built trees: JSON specs so that witnesses can be replayed -----------------------------

def build_tree(mod, spec, reify):
    def node(n):
        t = n["t"]
        if t in ("Group", "SVG"):
            g = mod.SVG(**n.get("kw", {})) if t == "SVG" else mod.Group(**n.get("kw", {}))
            for c in n.get("children", []):
                g.append(node(c))
            if n.get("mul"):
                g *= n["mul"]
            return g
        kw = dict(n.get("kw", {}))
        s = getattr(mod, t)(*n.get("args", []), **kw)
        if n.get("mul"):
            s *= n["mul"]
        if reify:
            s.reify()
        return s

    return node(spec)


B_TRANSFORMS = [None, "translate(10,5)", "scale(2)", "scale(1.5,0.5)", "scale(-1,1)", "rotate(30)", "skewX(20)",
                "matrix(1 0.5 -0.5 1 3 4)", "matrix(0 1 1 0 0 0)"]
B_PAINTS = [{}, {"fill": "red"}, {"fill": "none", "stroke": "blue", "stroke_width": 2},
            {"fill": "#12345680", "stroke": "#0000ff80", "stroke_width": 0.5}, {"stroke": "lime"}]
B_SVGS = [{}, {"viewBox": "0 0 100 100", "width": 200, "height": 100}, {"width": 300, "height": 200},
          {"viewBox": "0 0 100 50", "width": "10cm", "height": "5cm"},
          {"viewBox": "-10 5 90 140", "width": 180, "height": 280, "preserveAspectRatio": "xMinYMax slice"}]


def b_shape(kind, variant, i):
    """(type name, args, kwargs) of a shape built through the constructors. variant 0: numbers, 1: units."""
    u = variant == 1
    if kind == "Rect":
        return {"t": "Rect", "args": ["1in", "0.5cm", "30mm", "20pt"] if u else [3, 4, 30, 20],
                "kw": ({"rx": "2mm", "ry": "3pt"} if u else ({"rx": 4, "ry": 6} if i % 2 else {}))}
    if kind == "Circle":
        return {"t": "Circle", "kw": {"cx": "5mm", "cy": "0.2in", "r": "6pt"} if u else {"cx": 12, "cy": 9, "r": 7}}
    if kind == "Ellipse":
        return {"t": "Ellipse", "kw": {"cx": "5mm", "cy": "0.2in", "rx": "1pc", "ry": "2mm"} if u else
                {"cx": 12, "cy": 9, "rx": 11, "ry": 5}}
    if kind == "SimpleLine":
        return {"t": "SimpleLine", "args": ["1mm", "2pt", "1cm", "0.3in"] if u else [1, 2, 31, 17], "kw": {}}
    if kind == "Polyline":
        return {"t": "Polyline", "args": [], "kw": {"points": "1,2 30,4 20,25 5,18"}} if i % 2 else \
            {"t": "Polyline", "args": [[1, 2], [30, 4], [20, 25.5]], "kw": {}}
    if kind == "Polygon":
        return {"t": "Polygon", "args": [], "kw": {"points": "1,2 30,4 20,25 5,18"}} if i % 2 else \
            {"t": "Polygon", "args": [[1, 2], [30, 4], [20, 25.5]], "kw": {}}
    return {"t": "Path", "args": ["M3,4 L30,6 l5,12 H10 v-6 C12,2 20,30 28,9 q-4,9 -12,3 Z" if i % 2 else
                                  "M3,4 30,6 35,18 m2,2 h8 V3 z"], "kw": {}}


B_KINDS = ["Rect", "Circle", "Ellipse", "SimpleLine", "Polyline", "Polygon", "Path"]


def built_specs(tier, seed):
    """-> list of (label, spec)"""
    out = []
    i = 0
    # systematic: every kind x transform (as constructor kw / as *=) x variant, placed in svg / svg>g / svg>g>g
    for kind in B_KINDS:
        for variant in (0, 1):
            for ti, t in enumerate(B_TRANSFORMS):
                i += 1
                s = b_shape(kind, variant, i)
                s["kw"] = dict(s["kw"], **B_PAINTS[i % len(B_PAINTS)])
                s["kw"]["id"] = "b%d" % i
                how = i % 3
                if t is not None:
                    if how == 0:
                        s["kw"]["transform"] = t
                    else:
                        s["mul"] = t
                nest = (i // 3) % 3
                node = s
                if nest >= 1:
                    node = {"t": "Group", "children": [node], "mul": "translate(2,3) scale(1.25)" if i % 2 else None}
                if nest == 2:
                    node = {"t": "Group", "children": [node]}
                svgkw = B_SVGS[i % len(B_SVGS)] if tier == "quick" else None
                for sk in ([svgkw] if svgkw is not None else B_SVGS):
                    out.append(("built/%s/v%d/%s/nest%d/svg%d" % (kind, variant, t, nest, B_SVGS.index(sk)),
                                {"t": "SVG", "kw": dict(sk), "children": [node]}))
    # random mixed trees
    rng = random.Random(seed + 17)
    for j in range(60 if tier == "quick" else 1500):
        def rnode(depth):
            if depth < 2 and rng.random() < 0.3:
                return {"t": "Group", "children": [rnode(depth + 1) for _ in range(rng.randint(1, 3))],
                        "mul": rng.choice(B_TRANSFORMS)}
            k = rng.choice(B_KINDS)
            s = b_shape(k, 1 if rng.random() < 0.25 else 0, rng.randrange(4))
            s["kw"] = dict(s["kw"], **rng.choice(B_PAINTS))
            if rng.random() < 0.5:
                s["kw"]["id"] = "r%d" % rng.randrange(1000)
            t = rng.choice(B_TRANSFORMS)
            if t is not None:
                if rng.random() < 0.5:
                    s["kw"]["transform"] = t
                else:
                    s["mul"] = t
            return s

        out.append(("built-random-%d" % j, {"t": "SVG", "kw": dict(rng.choice(B_SVGS)),
                                             "children": [rnode(0) for _ in range(rng.randint(1, 5))]}))
    # trees whose root is not an SVG
    out.append(("built/group-root", {"t": "Group", "children": [b_shape("Rect", 0, 1), b_shape("Path", 0, 1)]}))
    out.append(("built/shape-root", dict(b_shape("Circle", 0, 1), mul="scale(2)")))
    return out


def spec_features(spec):
    F = set()

    def rec(n, depth):
        t = n["t"]
        F.add(t)
        kw = n.get("kw", {})
        if t == "SVG":
            if "viewBox" in kw:
                F.add("svg-viewBox")
            if any(isinstance(kw.get(k), str) and _RE_UNIT.match(kw.get(k)) for k in ("width", "height")):
                F.add("svg-unit-size")
            elif "width" in kw and "height" in kw:
                F.add("svg-full-numeric-size")
            if "preserveAspectRatio" in kw:
                F.add("svg-par")
        else:
            vals = list(n.get("args", [])) + [v for k, v in kw.items() if k not in ("fill", "stroke", "id", "points",
                                                                                  "transform")]
            if any(isinstance(v, str) and _RE_UNIT.match(v) for v in vals):
                F.add("unit")
            if n.get("mul") or kw.get("transform"):
                try:
                    F.add("transform:" + docgeom.transform_class(docgeom.parse_transform(n.get("mul") or kw.get("transform"))))
                except Exception:
                    F.add("transform")
            for k in ("fill", "stroke", "stroke_width", "id", "rx", "ry"):
                if k in kw:
                    F.add(k)
            if t in ("Polyline", "Polygon"):
                F.add("points-kw" if "points" in kw else "points-args")
        for c in n.get("children", []):
            rec(c, depth + 1)

    rec(spec, 0)
    return frozenset(F)


def minimise_spec(spec, cfg, still_fails, max_tests=200):
    tests = [0]

    def ok(s, c):
        if tests[0] >= max_tests:
            return False
        tests[0] += 1
        return bool(still_fails(s, c))

    spec = _copy.deepcopy(spec)
    cfg = dict(cfg)
    changed = True
    rounds = 0
    while changed and rounds < 5:
        changed = False
        rounds += 1
        if cfg.get("ppi") != 96:
            c2 = dict(cfg, ppi=96)
            if ok(spec, c2):
                cfg = c2
                changed = True

        def paths(n, p=()):
            yield p
            for i, c in enumerate(n.get("children", [])):
                for q in paths(c, p + (i,)):
                    yield q

        def get(n, p):
            for i in p:
                n = n["children"][i]
            return n

        for p in sorted(paths(spec), reverse=True):
            if not p:
                continue
            s2 = _copy.deepcopy(spec)
            par = get(s2, p[:-1])
            node = par["children"][p[-1]]
            # remove, or replace a group by its children
            del par["children"][p[-1]]
            if ok(s2, cfg):
                spec = s2
                changed = True
                continue
            if node.get("children"):
                s2 = _copy.deepcopy(spec)
                par = get(s2, p[:-1])
                node = par["children"][p[-1]]
                par["children"][p[-1]:p[-1] + 1] = node["children"]
                if ok(s2, cfg):
                    spec = s2
                    changed = True
        for p in sorted(paths(spec)):
            node = get(spec, p)
            for field in ("mul",):
                if node.get(field):
                    s2 = _copy.deepcopy(spec)
                    get(s2, p)[field] = None
                    if ok(s2, cfg):
                        spec = s2
                        changed = True
            for k in list(get(spec, p).get("kw", {})):
                if k in ("points", "r", "rx", "ry", "cx", "cy") and get(spec, p)["t"] in ("Polyline", "Polygon", "Circle", "Ellipse"):
                    if k in ("points", "r") or (get(spec, p)["t"] == "Ellipse" and k in ("rx", "ry")):
                        continue
                s2 = _copy.deepcopy(spec)
                del get(s2, p)["kw"][k]
                if ok(s2, cfg):
                    spec = s2
                    changed = True
                    continue
                v = get(spec, p)["kw"][k]
                m = _RE_UNIT.match(v) if isinstance(v, str) else None
                if m:
                    s2 = _copy.deepcopy(spec)
                    get(s2, p)["kw"][k] = float(m.group(1))
                    if ok(s2, cfg):
                        spec = s2
                        changed = True
            args = get(spec, p).get("args", [])
            for ai, v in enumerate(args):
                m = _RE_UNIT.match(v) if isinstance(v, str) else None
                if m:
                    s2 = _copy.deepcopy(spec)
                    get(s2, p)["args"][ai] = float(m.group(1))
                    if ok(s2, cfg):
                        spec = s2
                        changed = True
    return spec, cfg, tests[0]


def spec_signature(spec):
    def rec(n):
        kw = n.get("kw", {})
        names = sorted(k for k in kw if k != "id")
        if n.get("mul"):
            names.append("*=")
        if any(isinstance(v, str) and _RE_UNIT.match(v) for v in list(n.get("args", [])) + list(kw.values())):
            names.append("+unit")
        s = n["t"] + ("[" + ",".join(names) + "]" if names else "")
        kids = [rec(c) for c in n.get("children", [])]
        return s + ("(" + " ".join(kids) + ")" if kids else "")

    return rec(spec)


C20_EXPLANATIONS = {
    "svgz-write-truncated":
        "write()/write_xml() opens a gzip stream for names ending in 'svgz' (gzip.open(f, 'wb')), hands it to "
        "ElementTree.write and never closes it: when write_xml returns the file lacks the gzip trailer (and usually "
        "most of the data), reading it back raises EOFError 'Compressed file ended before the end-of-stream marker "
        "was reached'. The file is only completed when the cyclic garbage collector later happens to finalise the "
        "GzipFile object (observed: 157 bytes and unreadable on return, 167 bytes and readable after gc.collect()). "
        "Genuine library defect.",
    "xlink-prefix-registered-duplicate-xmlns":
        "The writer declares xmlns:xlink by setting a literal attribute on the root element. A parsed element keeps "
        "its '{http://www.w3.org/1999/xlink}href' attribute, for which ElementTree emits its own namespace "
        "declaration: with ElementTree's default registry that is 'xmlns:ns0' (well-formed, merely ugly), but as "
        "soon as the process has called ET.register_namespace('xlink', ...) - which SVG-handling applications "
        "routinely do, and which is process-global - the serialiser also emits xmlns:xlink and the root element "
        "carries the attribute twice: the text is not well-formed XML ('duplicate attribute'). Genuine library "
        "defect, conditional on that registration (checked as an explicit configuration, not by accident).",
    "use-written-with-own-transform":
        "A parsed <use> is written as a <g>. Every shape below it already carries the complete accumulated "
        "transform (including the use's transform attribute, its x/y translation and anything above it), yet "
        "_write_node also writes the Use object's own accumulated transform on that <g> (the 'not isinstance(node, "
        "Group)' guard does not cover Use). Parsing the text back applies that matrix a second time: geometry and "
        "rendered stroke width change whenever the use's accumulated transform is not the identity, and keep "
        "changing in every further generation. Genuine library defect.",
    "nested-svg-write-drops-outer-viewport":
        "_write_node expresses each shape's matrix relative to the viewport by multiplying with the inverse "
        "viewBox transform of the *nearest* SVG node only. For a shape inside a nested svg that inverse is the nested "
        "svg's (or nothing when the nested svg has no viewBox), so the outer svg's viewBox transform stays inside the "
        "written matrix/coordinates and is applied again when the text is parsed: geometry and stroke width differ "
        "after one round trip and drift further with every generation. Genuine library defect.",
    "circle-unequal-radii-written-as-r":
        "A Circle whose two radii differ after reification (non-uniform scale from a transform, from a viewBox with "
        "preserveAspectRatio='none', or from a percentage r resolved separately against width and height) is written "
        "as <circle r=rx>: ry is lost and the re-parsed shape is a different ellipse. Genuine library defect (the "
        "writer should emit an ellipse or keep the matrix).",
    "rect-unclamped-radius-not-roundtripped":
        "Consequence of C03's rect-radius-not-clamped: the source tree holds a Rect whose rx/ry exceed half its "
        "size (never clamped because a length was unresolved at construction); the writer emits those values and "
        "the parser clamps them when reading numbers, so the outline changes in the round trip. Genuine library "
        "defect (same root cause).",
    "stale-attribute-written-for-zero-value":
        "_write_node first copies the element's *original* attribute strings and then overrides them with the "
        "current values only when these are truthy ('if node.x2: ...'). When reification (or any edit) turns a "
        "coordinate into 0 the stale original value is written instead, e.g. <line x2='87'> under "
        "matrix(0 1 1 0 0 0) is reified to (0,0)-(0,87) but written as x2='87' y2='87.0'. Genuine library defect.",
    "zero-size-svg-write-ZeroDivisionError":
        "Writing an SVG node that has a viewBox and width or height 0 raises ZeroDivisionError out of string_xml "
        "(viewbox_transform divides by the size; only ValueError is caught). Reached from parsed documents because a "
        "zero-sized nested svg makes SVG.parse return that nested node (C03 nested-svg-zero-size-aborts-parse). "
        "Genuine library defect.",
    "built-svg-viewbox-unresolved-size":
        "For a tree built through the constructors, SVG(viewBox=..., width=, height=) with shapes appended, the "
        "writer compensates the viewBox transform (shape matrix times its inverse) only when width and height are "
        "both present as plain numbers; with a unit-bearing size ('10cm'), or a missing width/height, "
        "viewbox_transform cannot be evaluated, the compensation is silently skipped, and the re-parsed shapes come "
        "out scaled/translated by the viewBox transform (geometry and stroke width). The same tree with numeric "
        "sizes round-trips. Judged a genuine inconsistency of the writer (the property counts unit-bearing sizes "
        "and viewBox as in scope); the absolute geometry of a built shape is taken to be abs(Path(shape)).",
}

_GEOMISH = ("geometry", "stroke-width", "second-generation-geometry", "second-generation-stroke-width",
            "write_xml-svg-vs-string_xml-geometry", "write_xml-svgz-vs-string_xml-geometry")


def c20_classify(cat, inp, cfg):
    built = isinstance(inp, dict)
    F = spec_features(inp["spec"]) if built else doc_features(inp)
    key = None
    if cat == "not-well-formed" and (cfg or {}).get("xlink_registered") and not built and "xlink-href" in F:
        key = "xlink-prefix-registered-duplicate-xmlns"
    elif cat.startswith("exception-ZeroDivisionError@write") and "svg-zero-size" in F:
        key = "zero-size-svg-write-ZeroDivisionError"
    elif cat in _GEOMISH:
        if built:
            if "svg-viewBox" in F and "svg-full-numeric-size" not in F:
                key = "built-svg-viewbox-unresolved-size"
        else:
            if "nested-svg" in F and "any-viewBox" in F:
                key = "nested-svg-write-drops-outer-viewport"
            elif "rect-radius-deferred-length" in F:
                key = "rect-unclamped-radius-not-roundtripped"
    if key is None or key in REPAIRED:
        sig = ("built:" + spec_signature(inp["spec"])) if built else signature(inp, cfg)
        return "C20-%s:%s" % (cat, sig), None
    return key, C20_EXPLANATIONS[key]


def _c20_sources(tier, seed):
    """-> list of (label, source, [cfg]) ; source: document text, or {'spec': ...} for a built tree."""
    pairs = docgen.config_pairs()
    rng = random.Random(seed)
    out = []
    ts = [None, "scale(-1,1)", "rotate(45 10 20)", "matrix(1 0.5 -0.5 1 3 4)"]
    k = 0
    step = 3 if tier == "quick" else 1
    for kind in docgen.KINDS:
        for pattern in docgen.PATTERNS:
            for t in ts:
                for place in ("leaf", "outer"):
                    if (t is None or pattern in ("plain", "after-svg")) and place == "outer":
                        continue
                    k += 1
                    if k % step:
                        continue
                    variant = ("plain", "unit", "percent")[(k // step) % 3]
                    ri = (k // step) % len(docgen.ROOTS)
                    for lab, text in docgen.systematic([t], (variant,), (place,), [docgen.ROOTS[ri]], [pattern], [kind]):
                        out.append((lab, text, [pairs[(k * 7) % len(pairs)]]))
    for lab, text in docgen.special_documents():
        out.append((lab, text, [pairs[0]]))
    for i in range(300 if tier == "quick" else 5000):
        text = docgen.random_document(rng)
        out.append(("random-%d" % i, text, [pairs[rng.randrange(len(pairs))]]))
    # the same kind of document under the other state of ElementTree's global prefix registry
    reg = dict(pairs[0], xlink_registered=True)
    for kind in docgen.KINDS:
        for pattern in ("use", "use-group", "plain"):
            for lab, text in docgen.systematic([None], ("plain",), ("leaf",), [docgen.ROOTS[0]], [pattern], [kind]):
                out.append(("xlink-registered/" + lab, text, [reg]))
    for lab, spec in built_specs(tier, seed):
        out.append((lab, {"spec": spec}, [{"ppi": (96, 72, 254)[len(out) % 3], "width": None, "height": None,
                                           "transform": None}]))
    return out


_C20_STATS = {"source_parse_exceptions": 0}


def c20_check(mod, src, cfg, reifies=(True, False), files=None):
    """-> (failures, combos)"""
    with _Namespaces(bool(cfg.get("xlink_registered"))):
        return _c20_check(mod, src, cfg, reifies, files)


def _c20_check(mod, src, cfg, reifies, files):
    fails = []
    combos = set()
    for reify in reifies:
        render = None
        try:
            if isinstance(src, dict):
                x = build_tree(mod, src["spec"], reify)
                render = {"ppi": cfg["ppi"], "width": 1000.0, "height": 1000.0}
                feats = spec_features(src["spec"])
            else:
                x = lib_parse(mod, src, cfg, reify)
                feats = None
        except Exception:
            # parsing the source document is C03's subject (reported there under its own key), not C20's:
            # there is no tree to write.  Counted, not hidden.
            _C20_STATS["source_parse_exceptions"] += 1
            continue
        fs = c20_roundtrip(mod, x, cfg, reify, render, files)
        for f in fs:
            f["reify"] = reify
        fails += fs
        try:
            for s in lib_shapes(mod, x):
                tc = docgeom.transform_class((s.transform.a, s.transform.b, s.transform.c, s.transform.d,
                                              float(s.transform.e), float(s.transform.f)))
                if feats is None:
                    nontrivial = tc != "identity" or bool(re.search(r"viewBox|\d(cm|mm|in|pt|pc|%)", src))
                    pat = "parsed"
                else:
                    nontrivial = tc != "identity" or "unit" in feats or "svg-viewBox" in feats
                    pat = "built"
                combos.add((type(s).__name__, pat, tc, "reify=%s,ppi=%s,size=%s,svgz=%s" % (
                    reify, cfg["ppi"], cfg["width"], bool(files)), nontrivial))
        except Exception:
            pass
    return fails, combos


def _c20_checker(mod):
    def check(src, c, cat=None, f=None):
        files = None
        if cat is not None and ("svgz" in cat or "write_xml" in cat or "@reparse-" in cat):
            files = ["doc.svg", "doc.svgz"]
        rf = (f["reify"],) if f is not None and "reify" in f else (True, False)
        return c20_check(mod, src, c, rf, files)[0]

    return check


def _c20_minimise(src, cfg, still, max_tests):
    if isinstance(src, dict):
        s, c, n = minimise_spec(src["spec"], cfg, lambda sp, cc: still({"spec": sp}, cc), max_tests)
        return {"spec": s}, c, n
    return minimise(src, cfg, still, max_tests)


_C20_GROUP = ("use", "circle-r-pct", "rect-radius-deferred-length", "svg-zero-size", "transform", "nonuniform",
              "circle", "xlink-href")


def _c20_features(src):
    if isinstance(src, dict):
        F = spec_features(src["spec"])
        return frozenset(["built", "svg-viewBox" in F and "svg-full-numeric-size" not in F,
                          "Circle" in F and "transform:scale" in F])
    F = doc_features(src)
    return frozenset([f for f in F if f in _C20_GROUP] + [("nested-svg" in F and "any-viewBox" in F)])


_C03_GROUP = ("use-len", "use-pct", "use-len-inherited", "svg-zero-size-viewbox", "svg-zero-size-noviewbox", "circle-r-pct",
              "rect-radius-deferred-length", "nested-novb-xy", "implicit-xy-under-svg-xy", "root-xy-viewbox",
              "nested-svg-auto-size-under-sized-svg", "pct-after-nested-svg", "pct", "nested-svg",
              "nested-svg-auto-size")


def _c03_features(text):
    return frozenset(f for f in doc_features(text) if f in _C03_GROUP)


def c20_replay(mod, witness):
    inp = witness.get("input", witness)
    src, cfg = inp["text"], inp["config"]
    want = witness.get("key")
    wcat = str(witness.get("category", "")) + str(want)
    files = ["doc.svg", "doc.svgz"] if ("svgz" in wcat or "write_xml" in wcat or "@reparse-" in wcat) else None
    with _NoNumpy():
        fails, _ = c20_check(mod, src, cfg, files=files)
    keys = []
    for f in fails:
        d = c20_direct(f, src, cfg)
        k = d[0] if d else c20_classify(f["cat"], src, cfg)[0]
        if k not in keys:
            keys.append(k)
    cats = sorted(set(f["cat"] for f in fails))
    rep = bool(fails) and (want is None or want in keys)
    return {"reproduced": rep, "detail": {"categories": cats, "keys": keys,
                                         "failures": [{k: v for k, v in f.items() if k != "written"} for f in fails[:3]]}}


@_bounded("C20/write_parse_roundtrip", props=["C20"], replay=c20_replay)
def c20_run(mod, tier, seed):
    t0 = time.time()
    _C20_STATS["source_parse_exceptions"] = 0
    with _NoNumpy():
        sources = _c20_sources(tier, seed)
        col = Collector(_c20_checker(mod), c20_classify, _c20_features, 3 if tier == "quick" else 8,
                        minimise_fn=_c20_minimise, max_tests=200, direct=c20_direct)
        combos = set()
        evaluations = 0
        samples = []
        n = 0
        for lab, src, cfgs in sources:
            for cfg in cfgs:
                n += 1
                files = ["doc.svg", "doc.svgz"] if (n % (12 if tier == "quick" else 6) == 0) else None
                fails, cb = c20_check(mod, src, cfg, files=files)
                evaluations += 2
                combos |= cb
                if fails:
                    col.add(src, cfg, fails, lab)
            if len(samples) < 6 and (lab.startswith(("random", "built-random")) or len(samples) < 2):
                samples.append({"label": lab, "source": src, "config": cfgs[0]})
    return {
        "evaluations": evaluations,
        "distinct_nontrivial": len([c for c in combos if c[4]]),
        "distinct_total": len(combos),
        "rule": "one evaluation = one source tree (a generated document parsed with reify in {True, False} under a "
                "ppi/size/caller-transform configuration, or a tree built through the constructors, optionally reified) "
                "written with string_xml (every 12th/6th also with write_xml to .svg and .svgz in a temporary directory), "
                "checked well-formed, parsed back and compared shape by shape (kind, order, id, outline within the "
                "six-decimal precision of the written matrices, fill and stroke value incl. alpha, rendered stroke "
                "width), then written and parsed a second time; distinct = distinct (shape class, parsed/built, class of "
                "the shape's transform, configuration); non-trivial = transform, viewBox or unit involved",
        "bound": "documents of the C03 generator (depth <= 4, <= 12 elements) and constructor-built trees (SVG with 5 "
                 "size/viewBox settings, Groups nested <= 2, 7 shape kinds, 9 transforms given as constructor argument "
                 "or by *=, lengths with units, 5 paint settings); " +
                 ("quick: 1/3 of the systematic documents, special documents, 300 random documents, 126 systematic + "
                  "60 random built trees" if tier == "quick" else
                  "thorough: all systematic documents, 5000 random documents, 630 systematic + 1500 random built trees"),
        "exhaustive": False,
        "failures": col.failures(),
        "samples": samples,
        "sources": len(sources),
        "source_parse_exceptions_left_to_C03": _C20_STATS["source_parse_exceptions"],
        "failing_cases_minimised": col.minimised,
        "failing_cases_attributed_by_group": col.attributed,
        "wall_s": round(time.time() - t0, 1),
    }
