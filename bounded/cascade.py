"""C14/cascade - bounded check of fill / stroke / stroke-width against an independent SVG/CSS cascade evaluator.

Oracle: /verif/spec/cascade.py (written from CSS 2.1 section 6 and SVG 1.1 sections 5.6, 6.4, 11, 12; see its docstring for
exactly what is implemented).  Every source of a property value carries a value that names the source (colour
#LLSSPP / width 10*level+source), so the source the library picked can be decoded from the observed value and the
failure key can name the defect class ("<expected source>-loses-to-<observed source>").
"""
import io
import itertools
import math
import random
import re
import xml.etree.ElementTree as ET

import sys

from pyvc import bounded as _framework
from spec import cascade as oracle


def bounded(name, props, replay=None):
    """pyvc.bounded.bounded, plus: when the framework is executed as `python -m pyvc.bounded` its registry lives in
    the module object `__main__` while this file imports a second copy `pyvc.bounded`; register in both."""
    def deco(fn):
        _framework.bounded(name, props=props, replay=replay)(fn)
        main = sys.modules.get("__main__")
        if main is not None and main is not _framework and isinstance(getattr(main, "BOUNDED", None), dict) \
                and name not in main.BOUNDED:
            main.BOUNDED[name] = _framework.BOUNDED[name]
            main.ORDER.append(name)
        return fn

    return deco

NAME = "C14/cascade"
PROPS = ("fill", "stroke", "stroke-width")
SOURCES = ("attribute", "universal-rule", "type-rule", "class-rule", "typeclass-rule", "id-rule", "inline")
RULE_SOURCES = SOURCES[1:6]
LEVELS = ("E", "A", "B", "U", "X")  # element, nearest ancestor, outer ancestor, use element, second copy of a rule
LEVEL_NAME = {"E": "", "A": "ancestor-", "B": "outer-ancestor-", "U": "use-", "X": "other-"}
TAGS = ("rect", "circle", "ellipse", "line", "polyline", "polygon", "path")
GEOM = {
    "rect": 'x="1" y="2" width="10" height="8"',
    "circle": 'cx="5" cy="6" r="4"',
    "ellipse": 'cx="5" cy="6" rx="4" ry="3"',
    "line": 'x1="1" y1="2" x2="9" y2="7"',
    "polyline": 'points="0,0 10,0 10,8"',
    "polygon": 'points="0,0 10,0 10,8"',
    "path": 'd="M0,0 L10,0 L10,8 Z"',
}
# identity of the levels in the documents
IDENT = {"E": ("e", "c"), "A": ("a", "k"), "B": ("b", "m"), "U": ("u", "v")}


def value_of(prop, level, source):
    li, si = LEVELS.index(level), SOURCES.index(source)
    if prop == "stroke-width":
        return str(10 * li + si + 2)
    return "#%02x%02x%02x" % (0x10 * (li + 1) + 1, 0x10 * (si + 1), 0x0F if prop == "fill" else 0xF0)


DECODE_COLOR = {}
DECODE_WIDTH = {}
for _p in PROPS:
    for _l in LEVELS:
        for _s in SOURCES:
            _v = value_of(_p, _l, _s)
            if _p == "stroke-width":
                DECODE_WIDTH[float(_v)] = LEVEL_NAME[_l] + _s
            else:
                DECODE_COLOR[(_p, int(_v[1:], 16))] = LEVEL_NAME[_l] + _s


# ------------------------------------------------------------------ document builder

def selector_for(source, tag, ident):
    i, c = ident
    return {"universal-rule": "*", "type-rule": tag, "class-rule": "." + c, "typeclass-rule": "%s.%s" % (tag, c),
            "id-rule": "#" + i}[source]


def element_text(tag, level, prop, sources, extra="", geom=True, children=None, href=None):
    """serialise one element that carries `prop` through the given attribute/inline sources (rules live elsewhere)"""
    i, c = IDENT[level]
    parts = ['id="%s"' % i, 'class="%s"' % c]
    if geom and tag in GEOM:
        parts.append(GEOM[tag])
    if href:
        parts.append('href="#%s"' % href)
    if "attribute" in sources:
        parts.append('%s="%s"' % (prop, value_of(prop, level, "attribute")))
    if "inline" in sources:
        parts.append('style="%s:%s"' % (prop, value_of(prop, level, "inline")))
    if extra:
        parts.append(extra)
    head = "<%s %s" % (tag, " ".join(parts))
    if children is None:
        return head + "/>"
    return head + ">" + children + "</%s>" % tag


def rules_for(tag, level, prop, sources):
    return [(selector_for(s, tag, IDENT[level]), "%s:%s" % (prop, value_of(prop, level, s)))
            for s in sources if s in RULE_SOURCES]


def sheet_text(rules, rng=None):
    rules = list(rules)
    if rng is not None:
        rng.shuffle(rules)
    return "<style>" + " ".join("%s{%s}" % r for r in rules) + "</style>" if rules else ""


PATTERNS = ("flat", "g", "gg", "use", "g-use", "defs-in-g", "use-g", "use-use")


def build(prop, tag, pattern, el=(), anc=(), outer=(), use=(), rng=None, el_extra="", rule_order=None):
    """document for one cascade case.  pattern:
       flat      svg > E                      g     svg > g#a > E               gg  svg > g#b > g#a > E
       use       svg > defs > E, svg > use#u  g-use svg > defs > E, svg > g#a > use#u
       defs-in-g svg > g#a > defs > E, svg > use#u   (E must NOT inherit from g#a)
       use-g     svg > defs > g#a > E, svg > use#u -> g#a     use-use  svg > defs > (E, use#a -> E), svg > use#u -> use#a"""
    rules = rules_for(tag, "E", prop, el)
    if pattern in ("g", "gg", "g-use", "defs-in-g", "use-g"):
        rules += rules_for("g", "A", prop, anc)
    if pattern == "gg":
        rules += rules_for("g", "B", prop, outer)
    if pattern in ("use", "g-use", "defs-in-g", "use-g", "use-use"):
        rules += rules_for("use", "U", prop, use)
    if rule_order is not None:
        rules = [rules[i] for i in rule_order]
        style = sheet_text(rules)
    else:
        style = sheet_text(rules, rng)
    e = element_text(tag, "E", prop, el, extra=el_extra)
    if pattern == "flat":
        body = e
    elif pattern == "g":
        body = element_text("g", "A", prop, anc, children=e)
    elif pattern == "gg":
        body = element_text("g", "B", prop, outer, children=element_text("g", "A", prop, anc, children=e))
    elif pattern == "use":
        body = "<defs>" + e + "</defs>" + element_text("use", "U", prop, use, href="e")
    elif pattern == "g-use":
        body = "<defs>" + e + "</defs>" + element_text("g", "A", prop, anc,
                                                       children=element_text("use", "U", prop, use, href="e"))
    elif pattern == "defs-in-g":
        body = element_text("g", "A", prop, anc, children="<defs>" + e + "</defs>") + \
               element_text("use", "U", prop, use, href="e")
    elif pattern == "use-g":
        body = "<defs>" + element_text("g", "A", prop, anc, children=e) + "</defs>" + \
               element_text("use", "U", prop, use, href="a")
    elif pattern == "use-use":
        body = "<defs>" + e + '<use id="a" class="k" href="#e"/></defs>' + element_text("use", "U", prop, use, href="a")
    else:
        raise ValueError(pattern)
    return "<svg>" + style + body + "</svg>"


# ------------------------------------------------------------------ observation and comparison

def paint_value(c):
    if c is None or c.value is None:
        return None
    return int(c.value) & 0xFFFFFFFF


def residual_is_identity(mod, shape):
    t = shape.transform
    return all(abs(getattr(t, k) - v) < 1e-12 for k, v in zip("abcdef", (1, 0, 0, 1, 0, 0)))


def effective_width(mod, shape, reify, w_declared, non_scaling):
    """observed effective stroke width.
    reify=False: implicit_stroke_width (and stroke_width must still be the declared w).
    reify=True:  stroke_width when the shape's residual transform is the identity; a shape that keeps (part of) its
                 transform (rect/circle/ellipse under rotation, skew, reflection) is accepted when
                 stroke_width * sqrt|det residual| is the expected width, or - non-scaling stroke - when it is left
                 completely unreified (stroke_width == w and implicit_stroke_width is the expected width)."""
    if not reify:
        return shape.implicit_stroke_width
    if residual_is_identity(mod, shape):
        return shape.stroke_width
    if non_scaling:
        if abs(shape.stroke_width - w_declared) <= 1e-9 * abs(w_declared):
            return shape.implicit_stroke_width
        return shape.stroke_width
    t = shape.transform
    return shape.stroke_width * math.sqrt(abs(t.a * t.d - t.b * t.c))


def close(a, b, rel=1e-9):
    return abs(a - b) <= rel * max(abs(a), abs(b), 1e-300)


def fmt_paint(v):
    return None if v is None else "#%08x" % v


def loses_key(expected_source, observed_source, declared):
    """'<expected>-loses-to-<observed>'; when the observed value is not one of the element's own declarations (the
    winner was dropped rather than out-ranked) the other declarations present are named: '-with-<a>+<b>'"""
    bare = observed_source[6:] if observed_source.startswith("other-") else observed_source
    if bare == expected_source and bare in RULE_SOURCES:
        return "later-%s-loses-to-earlier-%s" % (bare, bare)  # two rules of one kind: equal specificity, order decides
    key = "%s-loses-to-%s" % (expected_source, observed_source)
    others = sorted(set(declared) - {expected_source})
    if bare not in declared and others and not expected_source.startswith("inherited-"):
        key += "-with-" + "+".join(others)
    return key


def check_doc(mod, doc, reify=True, color=None):
    """-> (failures, n_shapes).  failures: list of dict(key, prop, expected, got, detail)"""
    root = ET.fromstring(doc)
    exp = oracle.render_list(root, caller_color=color if color is not None else "black")
    kw = {"reify": reify}
    if color is not None:
        kw["color"] = color
    try:
        svg = mod.SVG.parse(io.StringIO(doc), **kw)
    except Exception as e:  # an escaping exception is a failure of its own class
        return [{"key": "parse-raises-%s" % type(e).__name__, "prop": None, "expected": "a document tree",
                 "got": "%s: %s" % (type(e).__name__, str(e)[:120]), "detail": ""}], 0
    shapes = [e for e in svg.elements() if isinstance(e, mod.Shape)]
    fails = []
    exp_ids = [x["id"] for x in exp]
    got_ids = [s.id for s in shapes]
    if exp_ids != got_ids:
        extra = [i for i in got_ids if i not in exp_ids]
        key = "display-none-element-rendered" if extra or len(got_ids) > len(exp_ids) else "rendered-element-missing"
        return [{"key": key, "prop": "display", "expected": exp_ids, "got": got_ids, "detail": ""}], len(shapes)
    for x, s in zip(exp, shapes):
        for prop in ("fill", "stroke"):
            want, prov = x[prop], x[prop + "_from"]
            got = paint_value(getattr(s, prop))
            ok = (want is None and got is None) or (
                want is not None and got is not None and [got >> 24 & 255, got >> 16 & 255, got >> 8 & 255] == want["rgb"]
                and abs((got & 255) - want["alpha"]) <= 0.5 + 1e-9)
            if ok:
                continue
            if want is not None and got is not None and [got >> 24 & 255, got >> 16 & 255, got >> 8 & 255] == want["rgb"]:
                key = "%s-opacity-alpha" % prop
            elif prov.startswith("currentColor>"):
                key = "currentColor-from-" + prov.split(">")[1]
            else:
                if got is None:
                    src = "default" if prop == "stroke" else "none"
                else:
                    src = DECODE_COLOR.get((prop, got >> 8), None)
                    if src is None:
                        src = "default" if (got >> 8) == 0 and prop == "fill" else "unknown-value"
                key = loses_key(prov, src, x["declared"][prop])
            fails.append({"key": key, "prop": prop, "element": x["id"], "detail": "expected source: " + prov, "prov": prov,
                          "expected": None if want is None else "#%02x%02x%02x alpha %.1f" % (tuple(want["rgb"]) + (want["alpha"],)),
                          "got": fmt_paint(got)})
        w, prov = x["stroke_width"], x["width_from"]
        want = x["implicit_width"]
        got = effective_width(mod, s, reify, w, x["non_scaling"])
        unchanged_ok = reify or got is None or close(s.stroke_width, w)
        if got is None or not close(got, want) or not unchanged_ok:
            factor = want / w if w else 1.0
            src = None
            if got is not None and factor:
                for v, name in DECODE_WIDTH.items():
                    if close(got, v * factor) and not close(v, w):
                        src = name
                if src is None and prov != "default" and close(got, 1.0 * factor):
                    src = "default"
            if src is not None:
                key = loses_key(prov, src, x["declared"]["stroke-width"])
            elif not unchanged_ok and got is not None and close(got, want):
                key = "stroke-width-changed-without-reify"
            else:
                key = "stroke-width-law-%s-%s" % ("non-scaling" if x["non_scaling"] else "scaling",
                                                  "reify" if reify else "no-reify")
            fails.append({"key": key, "prop": "stroke-width", "element": x["id"], "prov": prov,
                          "detail": "expected source: %s; w=%r det(CTM)=%r det(viewport)=%r class=%s residual=%s" % (
                              prov, w, x["ctm_det"], x["viewport_det"], type(s).__name__,
                              [round(getattr(s.transform, k), 6) for k in "abcdef"]),
                          "expected": want, "got": got if reify else {"implicit": got, "stroke_width": s.stroke_width}})
    return fails, len(shapes)


# ------------------------------------------------------------------ minimisation

def _rule_spans(text):
    spans, i = [], 0
    while True:
        j = text.find("{", i)
        k = text.find("}", j) if j >= 0 else -1
        if j < 0 or k < 0:
            return spans
        spans.append((i, k + 1))
        i = k + 1


def _variants(doc):
    """smaller documents: one element / attribute / rule / inline declaration removed"""
    try:
        root = ET.fromstring(doc)
    except ET.ParseError:
        return
    paths = []

    def walk(el, path):
        for n, c in enumerate(list(el)):
            paths.append(path + [n])
            walk(c, path + [n])

    walk(root, [])

    def at(r, path):
        for n in path:
            r = list(r)[n]
        return r

    for path in sorted(paths, key=len):
        r = ET.fromstring(doc)
        parent = at(r, path[:-1])
        child = list(parent)[path[-1]]
        parent.remove(child)
        yield ET.tostring(r, encoding="unicode")
        if len(list(child)) and child.tag in ("g", "defs"):
            r = ET.fromstring(doc)
            parent = at(r, path[:-1])
            child = list(parent)[path[-1]]
            idx = list(parent).index(child)
            parent.remove(child)
            for n, gc in enumerate(list(child)):
                parent.insert(idx + n, gc)
            yield ET.tostring(r, encoding="unicode")
    for path in [[]] + paths:
        el = at(root, path)
        for name in list(el.attrib):
            if name in GEOMETRY:
                continue
            r = ET.fromstring(doc)
            del at(r, path).attrib[name]
            yield ET.tostring(r, encoding="unicode")
        if el.get("style") and ";" in el.get("style"):
            decls = [d for d in el.get("style").split(";") if d.strip()]
            for n in range(len(decls)):
                r = ET.fromstring(doc)
                at(r, path).set("style", ";".join(decls[:n] + decls[n + 1:]))
                yield ET.tostring(r, encoding="unicode")
        if el.tag == "style" and el.text:
            spans = _rule_spans(el.text)
            for a, b in spans:
                r = ET.fromstring(doc)
                at(r, path).text = (el.text[:a] + el.text[b:]).strip()
                yield ET.tostring(r, encoding="unicode")
            for a, b in spans:  # split a selector list
                sel = el.text[a:el.text.find("{", a)]
                if "," in sel:
                    for keep in sel.split(","):
                        r = ET.fromstring(doc)
                        at(r, path).text = el.text[:a] + keep.strip() + el.text[el.text.find("{", a):]
                        yield ET.tostring(r, encoding="unicode")
            if "/*" in el.text:
                r = ET.fromstring(doc)
                at(r, path).text = re.sub(r"/\*.*?\*/", "", el.text, count=1, flags=re.S)
                yield ET.tostring(r, encoding="unicode")


GEOMETRY = {"x", "y", "width", "height", "cx", "cy", "r", "rx", "ry", "x1", "y1", "x2", "y2", "points", "d", "href"}


def same_class(f, ref):
    """a failure of the same property with the same expected source (so the minimised key can be a shorter name of
    the same defect: 'type-rule-loses-to-attribute-with-universal-rule' -> 'type-rule-loses-to-default-with-...')"""
    return f["key"] == ref["key"] or (f.get("prov") is not None and f["prop"] == ref["prop"] and f.get("prov") == ref.get("prov")
                                      and f["key"].split("-loses-to-")[0] == ref["key"].split("-loses-to-")[0]
                                      and "-loses-to-" in ref["key"])


def minimise(mod, doc, reify, color, ref, budget=400):
    cur = ET.tostring(ET.fromstring(doc), encoding="unicode")
    changed = True
    while changed and budget > 0:
        changed = False
        for v in _variants(cur):
            budget -= 1
            if budget <= 0:
                break
            if len(v) >= len(cur):
                continue
            try:
                fails, _ = check_doc(mod, v, reify, color)
            except Exception:  # the oracle does not accept the variant (e.g. geometry removed): not a candidate
                continue
            if any(same_class(f, ref) for f in fails):
                cur, changed = v, True
                break
    return cur


# ------------------------------------------------------------------ case families

def subsets(items):
    for n in range(len(items) + 1):
        for c in itertools.combinations(items, n):
            yield c


def gen_cases(tier, seed):
    """yields dict(doc, reify, color, family, combo, nontrivial)"""
    rng = random.Random(seed)
    thorough = tier == "thorough"

    def case(doc, family, combo, nontrivial, reify=True, color=None):
        return {"doc": doc, "reify": reify, "color": color, "family": family, "combo": combo, "nontrivial": nontrivial}

    # F1 full table of source subsets on the element, alone and under/through a container that sets an attribute
    n = 0
    for prop in PROPS:
        for sub in subsets(SOURCES):
            tags = TAGS if thorough else (TAGS[n % len(TAGS)],)
            n += 1
            for tag in tags:
                orders = 3 if thorough else 1
                for _ in range(orders):
                    yield case(build(prop, tag, "flat", el=sub, rng=rng), "table", (prop, sub, (), "flat"), len(sub) >= 2)
                yield case(build(prop, tag, "g", el=sub, anc=("attribute",), rng=rng), "table",
                           (prop, sub, ("A:attribute",), "g"), True)
                yield case(build(prop, tag, "use", el=sub, use=("attribute",), rng=rng), "table",
                           (prop, sub, ("U:attribute",), "use"), True)
                if thorough or tag == "rect":
                    yield case(build(prop, tag, "gg", el=sub, anc=("inline",), outer=("id-rule",), rng=rng), "table",
                               (prop, sub, ("A:inline", "B:id-rule"), "gg"), True)

    # F1b (thorough) every element subset x every single ancestor / use source
    if thorough:
        n = 0
        for prop in PROPS:
            for sub in subsets(SOURCES):
                for src in SOURCES:
                    tag = TAGS[n % len(TAGS)]
                    n += 1
                    yield case(build(prop, tag, "g", el=sub, anc=(src,), rng=rng), "table-x-ancestor",
                               (prop, sub, ("A:" + src,), "g"), True)
                    yield case(build(prop, tag, "use", el=sub, use=(src,), rng=rng), "table-x-ancestor",
                               (prop, sub, ("U:" + src,), "use"), True)

    # F2 one source on an ancestor / the use element, element sets nothing or one thing
    n = 0
    for prop in PROPS:
        for src in SOURCES:
            for elsub in [()] + [(s,) for s in SOURCES]:
                tag = TAGS[n % len(TAGS)]
                n += 1
                one = (src,)
                yield case(build(prop, tag, "g", el=elsub, anc=one, rng=rng), "ancestor", (prop, elsub, ("A:" + src,), "g"), True)
                yield case(build(prop, tag, "gg", el=elsub, outer=one, rng=rng), "ancestor", (prop, elsub, ("B:" + src,), "gg"), True)
                yield case(build(prop, tag, "use", el=elsub, use=one, rng=rng), "ancestor", (prop, elsub, ("U:" + src,), "use"), True)
                yield case(build(prop, tag, "g-use", el=elsub, anc=one, rng=rng), "ancestor", (prop, elsub, ("A:" + src,), "g-use"), True)
                yield case(build(prop, tag, "defs-in-g", el=elsub, anc=one, rng=rng), "ancestor",
                           (prop, elsub, ("A:" + src,), "defs-in-g"), True)
                yield case(build(prop, tag, "use-g", el=elsub, anc=one, rng=rng), "ancestor", (prop, elsub, ("A:" + src,), "use-g"), True)
                yield case(build(prop, tag, "use-g", el=elsub, use=one, rng=rng), "ancestor", (prop, elsub, ("U:" + src,), "use-g"), True)
                yield case(build(prop, tag, "use-use", el=elsub, use=one, rng=rng), "ancestor", (prop, elsub, ("U:" + src,), "use-use"), True)
                for src2 in (SOURCES if thorough or not elsub else ()):
                    yield case(build(prop, tag, "gg", el=elsub, anc=(src2,), outer=one, rng=rng), "ancestor",
                               (prop, elsub, ("A:" + src2, "B:" + src), "gg"), True)
                    yield case(build(prop, tag, "g-use", el=elsub, anc=one, use=(src2,), rng=rng), "ancestor",
                               (prop, elsub, ("A:" + src, "U:" + src2), "g-use"), True)

    # F3 rule order: every pair of rule kinds in both orders; the same selector twice (later wins)
    for prop in PROPS:
        for tag in (TAGS if thorough else ("rect", "path")):
            for a, b in itertools.combinations(RULE_SOURCES, 2):
                for order in ((0, 1), (1, 0)):
                    yield case(build(prop, tag, "flat", el=(a, b), rule_order=order), "order",
                               (prop, (a, b), ("order%d%d" % order,), "flat"), True)
            for a in RULE_SOURCES:
                sel = selector_for(a, tag, IDENT["E"])
                first, second = value_of(prop, "E", a), value_of(prop, "X", a)
                doc = "<svg><style>%s{%s:%s} %s{%s:%s}</style>%s</svg>" % (
                    sel, prop, first, sel, prop, second, element_text(tag, "E", prop, ()))
                yield case(doc, "order", (prop, (a, a), ("twice",), "flat"), True)
                doc = "<svg><style>%s{%s:%s;%s:%s}</style>%s</svg>" % (
                    sel, prop, first, prop, second, element_text(tag, "E", prop, ()))
                yield case(doc, "order", (prop, (a, a), ("twice-in-one-block",), "flat"), True)
                doc = "<svg><style>%s{%s:%s}</style><style>%s{%s:%s}</style>%s</svg>" % (
                    sel, prop, first, sel, prop, second, element_text(tag, "E", prop, ()))
                yield case(doc, "order", (prop, (a, a), ("two-style-elements",), "flat"), True)

    # F4 comma selector lists, F5 comments
    for prop in PROPS:
        v1, v2 = value_of(prop, "E", "class-rule"), value_of(prop, "E", "type-rule")
        e = element_text("rect", "E", prop, ())
        e_attr = element_text("rect", "E", prop, ("attribute",))
        lists = ["circle, rect", "rect,circle", ".zz, .c", "#e, .zz", "*, .zz", "rect.c, g", "rect ,\n .c", ".zz,#e,path"]
        for sl in lists:
            yield case("<svg><style>%s{%s:%s}</style>%s</svg>" % (sl, prop, v1, e_attr), "comma",
                       (prop, ("attribute", "list:" + sl), (), "flat"), True)
        yield case("<svg><style>circle, .zz{%s:%s} rect, .yy{%s:%s}</style>%s</svg>" % (prop, v2, prop, v1, e), "comma",
                   (prop, ("list-miss", "list-hit"), (), "flat"), True)
        yield case("<svg><style>.c, path{%s:%s} rect, .yy{%s:%s}</style>%s</svg>" % (prop, v1, prop, v2, e), "comma",
                   (prop, ("class-in-list", "type-in-list"), (), "flat"), True)
        com = [
            "/* .c{%s:%s} */ rect{%s:%s}" % (prop, v1, prop, v2),
            "rect{%s:%s} /* .c{%s:%s} */" % (prop, v2, prop, v1),
            "rect{/* %s:%s; */%s:%s}" % (prop, v1, prop, v2),
            "rect{%s:%s/* ; %s:%s */}" % (prop, v2, prop, v1),
            "/* a */rect/* b */{%s:%s}/* c */" % (prop, v2),
            "/* multi\n line\n .c{%s:%s}\n*/\nrect{%s:%s}" % (prop, v1, prop, v2),
            "/**/rect{%s:%s}/***/" % (prop, v2),
            "/* } */ rect{%s:%s}" % (prop, v2),
            "/* { */ rect{%s:%s}" % (prop, v2),
        ]
        for c in com:
            yield case("<svg><style>%s</style>%s</svg>" % (c, e_attr), "comments", (prop, ("attribute", "comment:" + c[:12]), (), "flat"), True)

    # F10 elements with several classes; F11 formatting of rules and inline styles
    for prop in PROPS:
        c1, c2 = value_of(prop, "E", "class-rule"), value_of(prop, "X", "class-rule")
        tc = value_of(prop, "E", "typeclass-rule")
        attr = value_of(prop, "E", "attribute")
        for cls in ("zz c", "c zz", " c ", "c  zz", "yy c zz"):
            yield case('<svg><style>.c{%s:%s}</style><rect id="e" class="%s" %s %s="%s"/></svg>' % (prop, c1, cls, GEOM["rect"], prop, attr),
                       "multiclass", (prop, ("attribute", "class-rule"), ("class=" + cls,), "flat"), True)
        for cls in ("c d", "d c"):
            for rules in (".c{%s:%s} .d{%s:%s}" % (prop, c1, prop, c2), ".d{%s:%s} .c{%s:%s}" % (prop, c2, prop, c1),
                          "rect.c{%s:%s} .d{%s:%s}" % (prop, tc, prop, c2), ".d{%s:%s} rect.c{%s:%s}" % (prop, c2, prop, tc),
                          ".c.d{%s:%s} .d{%s:%s}" % (prop, tc, prop, c2)):
                if rules.startswith(".c.d"):
                    continue  # compound class selectors are not among the named kinds
                yield case('<svg><style>%s</style><rect id="e" class="%s" %s/></svg>' % (rules, cls, GEOM["rect"]),
                           "multiclass", (prop, ("rules:" + re.sub(r"\{[^}]*\}", "", rules),), ("class=" + cls,), "flat"), True)
        u, t = value_of(prop, "E", "universal-rule"), value_of(prop, "E", "type-rule")
        fmts = ["*{%s:%s;} rect{%s:%s;}" % (prop, u, prop, t), "rect{%s:%s;} *{%s:%s;}" % (prop, t, prop, u),
                "* { %s : %s ; }\nrect { %s : %s ; }" % (prop, u, prop, t), "rect\n{\n  %s: %s;\n}\n" % (prop, t),
                "rect{%s:%s;;}" % (prop, t), "\n\n  rect  {%s:%s}  \n" % (prop, t),
                ".c{fill:%s;stroke:%s;stroke-width:%s}" % (value_of("fill", "E", "class-rule"), value_of("stroke", "E", "class-rule"),
                                                          value_of("stroke-width", "E", "class-rule")),
                "rect{stroke-linecap:round;%s:%s;stroke-linejoin:bevel}" % (prop, t)]
        for n_, f in enumerate(fmts):
            yield case('<svg><style>%s</style><rect id="e" class="c" %s %s="%s"/></svg>' % (f, GEOM["rect"], prop, attr),
                       "format", (prop, ("attribute", "format%d" % n_), (), "flat"), True)
        inl = value_of(prop, "E", "inline")
        for n_, st in enumerate(["%s:%s;" % (prop, inl), " %s : %s ; " % (prop, inl), "opacity:1;%s:%s;stroke-linecap:round" % (prop, inl),
                                 "%s:%s;%s:%s" % (prop, attr, prop, inl), ";%s:%s" % (prop, inl)]):
            yield case('<svg><style>#e{%s:%s}</style><rect id="e" class="c" %s %s="%s" style="%s"/></svg>' % (
                prop, value_of(prop, "E", "id-rule"), GEOM["rect"], prop, attr, st),
                "format", (prop, ("attribute", "id-rule", "inline-format%d" % n_), (), "flat"), True)
        for n_, wrap in enumerate(['<style type="text/css">%s</style>', '<defs><style>%s</style></defs>', '<style><![CDATA[%s]]></style>',
                                   '<style>%s</style><style>.zz{fill:red}</style>']):
            yield case('<svg>%s<rect id="e" class="c" %s %s="%s"/></svg>' % (wrap % (".c{%s:%s}" % (prop, c1)), GEOM["rect"], prop, attr),
                       "format", (prop, ("attribute", "class-rule", "style-wrap%d" % n_), (), "flat"), True)

    # F6 currentColor
    ccol = {"el": "#c1c2c3", "anc": "#a1a2a3", "outer": "#b1b2b3", "caller": "#d1d2d3", "use": "#e1e2e3"}
    for prop in ("fill", "stroke"):
        for how in ("attribute", "class-rule", "inline", "inherited"):
            cc_attr = '%s="currentColor"' % prop if how == "attribute" else ('style="%s:currentColor"' % prop if how == "inline" else "")
            style = "<style>.c{%s:currentColor}</style>" % prop if how == "class-rule" else ""
            g_cc = ' %s="currentColor"' % prop if how == "inherited" else ""
            for color_at in ("el-attribute", "el-rule", "el-inline", "anc", "outer", "anc+outer", "caller", "caller+anc",
                             "default", "use", "use+caller"):
                if how == "inherited" and color_at.startswith("el-"):
                    continue  # colour set below the element declaring currentColor: readings of the specs differ
                if how == "inline" and color_at == "el-inline":
                    el = '<rect id="e" class="c" %s style="%s:currentColor;color:%s"/>' % (GEOM["rect"], prop, ccol["el"])
                else:
                    el_col = {"el-attribute": ' color="%s"' % ccol["el"], "el-inline": ' style="color:%s"' % ccol["el"]}.get(color_at, "")
                    el = '<rect id="e" class="c" %s %s%s/>' % (GEOM["rect"], cc_attr, el_col)
                st = style
                if color_at == "el-rule":
                    st = "<style>#e{color:%s}%s</style>" % (ccol["el"], style[7:-8] if style else "")
                ga = ' color="%s"' % ccol["anc"] if color_at in ("anc", "anc+outer", "caller+anc") else ""
                gb = ' color="%s"' % ccol["outer"] if color_at in ("outer", "anc+outer") else ""
                caller = ccol["caller"] if "caller" in color_at else None
                if color_at.startswith("use"):
                    doc = '<svg>%s<defs>%s</defs><g id="a"%s><use id="u" href="#e" color="%s"/></g></svg>' % (st, el, g_cc, ccol["use"])
                    if how == "inherited":
                        continue
                else:
                    doc = '<svg>%s<g id="b"%s><g id="a"%s%s>%s</g></g></svg>' % (st, gb, ga, g_cc, el)
                yield case(doc, "currentColor", (prop, ("currentColor:" + how,), ("color:" + color_at,), "gg"), True, color=caller)

    # F7 fill-opacity / stroke-opacity
    for prop in ("fill", "stroke"):
        op = prop + "-opacity"
        col = value_of(prop, "E", "attribute")
        for o in ("0", "0.2", "0.25", "0.5", "0.75", "1", ".4", "1.5", "-0.5"):
            for where in ("attribute", "inline", "class-rule", "ancestor", "ancestor-overridden"):
                for paint_at in ("element", "ancestor", "none"):
                    pa = ' %s="%s"' % (prop, col if paint_at != "none" else "none")
                    e_op = {"attribute": ' %s="%s"' % (op, o), "inline": ' style="%s:%s"' % (op, o),
                            "ancestor-overridden": ' %s="1"' % op}.get(where, "")
                    g_op = ' %s="%s"' % (op, o) if where.startswith("ancestor") else ""
                    st = "<style>.c{%s:%s}</style>" % (op, o) if where == "class-rule" else ""
                    doc = '<svg>%s<g id="a"%s%s><rect id="e" class="c" %s%s%s/></g></svg>' % (
                        st, g_op, pa if paint_at == "ancestor" else "", GEOM["rect"], pa if paint_at != "ancestor" else "", e_op)
                    yield case(doc, "opacity", (prop, (op + ":" + where, "o=" + o), ("paint:" + paint_at,), "g"), True)

    # F8 display:none
    sib = '<circle id="s" r="3"/>'
    for src in SOURCES:
        for lvl in ("E", "A"):
            tag = "rect" if lvl == "E" else "g"
            rules = rules_for(tag, lvl, "display", (src,))
            rules = [(s, "display:none") for s, _ in rules]
            attr = ' display="none"' if src == "attribute" else (' style="display:none"' if src == "inline" else "")
            if lvl == "E":
                body = '<g id="a" class="k"><rect id="e" class="c" %s%s/></g>' % (GEOM["rect"], attr)
                if src in ("universal-rule",):
                    continue  # '*' would hide the whole document
            else:
                body = '<g id="a" class="k"%s><rect id="e" class="c" %s/><path id="p" display="inline" d="M0,0 L1,1"/></g>' % (attr, GEOM["rect"])
                if src == "universal-rule":
                    continue
            yield case("<svg>%s%s%s</svg>" % (sheet_text(rules), body, sib), "display",
                       ("display", (src,) if lvl == "E" else (), ("A:" + src,) if lvl == "A" else (), "g"), True)
    for extra in ('<rect id="e" %s display="inline"/>' % GEOM["rect"], '<rect id="e" %s display="block"/>' % GEOM["rect"],
                  '<rect id="e" %s style="display:inline"/>' % GEOM["rect"],
                  '<defs><rect id="e" %s/></defs><use id="u" href="#e" display="none"/>' % GEOM["rect"],
                  '<defs><rect id="e" %s/></defs><g id="a" style="display:none"><use id="u" href="#e"/></g>' % GEOM["rect"],
                  '<defs><rect id="e" %s/></defs><use id="u" href="#e" display="inline"/>' % GEOM["rect"],
                  '<rect id="e" %s display="none"/><rect id="f" %s/>' % (GEOM["rect"], GEOM["rect"]),
                  '<g id="a" display="none"><g id="b"><rect id="e" %s/></g></g><g id="k"><rect id="f" %s/></g>' % (GEOM["rect"], GEOM["rect"]),
                  '<style>.h{display:none}</style><g id="a"><rect id="e" class="h" %s/><rect id="f" class="c" %s/></g>' % (GEOM["rect"], GEOM["rect"])):
        yield case("<svg>%s%s</svg>" % (extra, sib), "display", ("display", ("misc:" + extra[:40],), (), "misc"), True)

    # F9 stroke-width law
    transforms = ["scale(2)", "scale(2,3)", "rotate(30)", "matrix(1,2,3,4,5,6)", "matrix(-2,0,0,3,1,1)", "scale(-1,1)",
                  "translate(5,7)", "skewX(30)", "scale(0.5) rotate(45) translate(3,4)", "matrix(0,1,1,0,0,0)"]
    roots = ["<svg>", '<svg viewBox="0 0 100 100" width="200" height="200">', '<svg viewBox="0 0 100 50" width="300" height="300">',
             '<svg viewBox="10 10 200 200" width="100" height="100">']
    if thorough:
        transforms += ["scale(1e-3)", "rotate(90)", "skewY(-20) scale(3,1)", "matrix(2,0,0,-2,0,0)", "scale(1,4) rotate(10)"]
        roots += ['<svg viewBox="0 0 100 50" width="300" height="300" preserveAspectRatio="none">']
    n = 0
    for rt in roots:
        for tr in transforms:
            for place in ("element", "ancestor", "both", "use"):
                for ve in (False, True):
                    for reify in (True, False):
                        tags = TAGS if thorough else (TAGS[n % len(TAGS)], TAGS[(n + 3) % len(TAGS)])
                        n += 1
                        for tag in tags:
                            w = "2.5"
                            vattr = ' vector-effect="non-scaling-stroke"' if ve else ""
                            e = '<%s id="e" %s stroke="#123456" stroke-width="%s"%s%s/>' % (
                                tag, GEOM[tag], w, vattr, ' transform="%s"' % tr if place in ("element", "both") else "")
                            if place == "element":
                                body = e
                            elif place == "ancestor":
                                body = '<g id="a" transform="%s">%s</g>' % (tr, e)
                            elif place == "both":
                                body = '<g id="a" transform="scale(3) translate(1,1)">%s</g>' % e
                            else:
                                body = '<defs>%s</defs><use id="u" href="#e" x="3" y="4" transform="%s"/>' % (e, tr)
                            yield case(rt + body + "</svg>", "width-law",
                                       ("stroke-width", ("law", tr, "ve" if ve else "scaling", "reify" if reify else "lazy"),
                                        (place,), rt[4:40]), True, reify=reify)
    # stroke width inherited and then scaled; units
    for reify in (True, False):
        yield case('<svg><g id="a" stroke-width="3" transform="scale(2)"><path id="e" d="M0,0 L5,5" stroke="red"/></g></svg>',
                   "width-law", ("stroke-width", (), ("A:attribute", "scale(2)"), "g"), True, reify=reify)
        yield case('<svg><g id="a" style="stroke-width:3px" transform="scale(2,8)"><line id="e" x1="0" y1="0" x2="5" y2="5" stroke="red"/></g></svg>',
                   "width-law", ("stroke-width", (), ("A:inline", "scale(2,8)"), "g"), True, reify=reify)


EXPLANATIONS = {
    r"id-rule-loses-to-(class|typeclass)-rule":
        "CSS 2.1 6.4.3: an id selector (1,0,0) is more specific than .class (0,1,0) or type.class (0,1,1) whatever the "
        "rule order.  SVG.parse concatenates the matching rule texts in the fixed order *, type, #id, .class, type.class "
        "and lets the last assignment win, so class rules override the id rule.",
    r"type-rule-loses-to-.*-with-universal-rule":
        "When a '*' rule and a type rule both match, SVG.parse appends the two declaration texts without a ';' "
        "separator ('fill:A' + 'fill:B' -> 'fill:Afill:B'), the merged declaration has two ':' and is discarded: both "
        "rules are lost (masked when every block ends with ';').",
    r"later-class-rule-loses-to-earlier-class-rule":
        "Two class rules have equal specificity, so the later rule wins (CSS 2.1 6.4.1).  SVG.parse applies class rules "
        "in the order of the names in the class attribute instead of rule order.",
    r"typeclass-rule-loses-to-other-class-rule":
        "type.class (0,1,1) is more specific than .class (0,1,0).  SVG.parse walks the class attribute and for each name "
        "applies '.name' then 'type.name', so a plain class rule of a later class name overrides type.class of an earlier one.",
}


def explain(key):
    for pat, text in EXPLANATIONS.items():
        if re.fullmatch(pat, key):
            return text
    return ""


def replay(mod, witness):
    inp = witness.get("input", witness)
    fails, _ = check_doc(mod, inp["doc"], inp.get("reify", True), inp.get("color"))
    keys = sorted({f["key"] for f in fails})
    want = witness.get("key")
    return {"reproduced": (want in keys) if want else bool(keys), "detail": {"keys": keys, "failures": fails[:4]}}


@bounded(NAME, props=["C14"], replay=replay)
def run(mod, tier, seed):
    evaluations = 0
    shapes_checked = 0
    combos = set()
    by_key = {}
    samples = []
    families = {}
    for c in gen_cases(tier, seed):
        evaluations += 1
        families[c["family"]] = families.get(c["family"], 0) + 1
        if c["nontrivial"]:
            combos.add(repr(c["combo"]))
        fails, n = check_doc(mod, c["doc"], c["reify"], c["color"])
        shapes_checked += n
        if len(samples) < 6 and evaluations % 397 == 1:
            samples.append({"doc": c["doc"], "reify": c["reify"], "color": c["color"]})
        for f in fails:
            rec = by_key.setdefault(f["key"], {"count": 0, "props": set(), "families": set(), "first": None})
            rec["count"] += 1
            rec["props"].add(f["prop"])
            rec["families"].add(c["family"])
            if rec["first"] is None or len(c["doc"]) < len(rec["first"][0]["doc"]):
                rec["first"] = (c, f)
    merged = {}
    for key in sorted(by_key):
        rec = by_key[key]
        c, f = rec["first"]
        doc = minimise(mod, c["doc"], c["reify"], c["color"], f)
        fails, _ = check_doc(mod, doc, c["reify"], c["color"])
        f2 = [x for x in fails if same_class(x, f)]
        f = f2[0] if f2 else f
        m = merged.get(f["key"])
        if m is None or len(doc) < len(m["input"]["doc"]):
            prev = m
            m = merged[f["key"]] = {"key": f["key"], "input": {"doc": doc, "reify": c["reify"], "color": c["color"]},
                                    "expected": f["expected"], "got": f["got"], "property_observed": f["prop"],
                                    "detail": f.get("detail", ""), "cases_failing": 0, "properties": set(),
                                    "families": set(), "raw_keys": [], "explanation": explain(f["key"])}
            if prev:
                for k in ("properties", "families"):
                    m[k] |= prev[k]
                m["raw_keys"] += prev["raw_keys"]
                m["cases_failing"] += prev["cases_failing"]
        m["cases_failing"] += rec["count"]
        m["properties"] |= {str(p) for p in rec["props"]}
        m["families"] |= rec["families"]
        m["raw_keys"].append(key)
    failures = []
    for key in sorted(merged):
        m = merged[key]
        m["properties"], m["families"] = sorted(m["properties"]), sorted(m["families"])
        failures.append(m)
    return {
        "evaluations": evaluations,
        "distinct_nontrivial": len(combos),
        "shapes_compared": shapes_checked,
        "cases_per_family": families,
        "rule": "documents generated from (property, subset of the 7 sources {attribute, *, type, .class, type.class, #id, "
                "inline} on the element, sources on the nearest/outer ancestor or the use element, nesting pattern in "
                "{flat, g, gg, use, g-use, defs-in-g}); every source carries a value naming it.  Families: full 2^7 table per "
                "property (alone, under g, through use, depth 3), ancestor singletons x element {none, singleton}, ancestor "
                "pairs, rule order for all pairs of rule kinds and repeated selectors, comma lists, comments, currentColor "
                "(declared by attribute/rule/inline/ancestor; colour at element/ancestors/use/caller/default), fill- and "
                "stroke-opacity (9 values x 5 places x paint at element/ancestor/none), display none by each source at "
                "element/ancestor/use, stroke-width law (10+ transforms x 4 viewports x placement x vector-effect x "
                "reify).  Each Shape of SVG.parse(...).elements() is compared, in order, with spec.cascade.render_list: "
                "fill/stroke Color.value (rgb exact, alpha within 0.5 of 255*opacity) and effective stroke width "
                "(rel 1e-9).  distinct_nontrivial = distinct (property, element source subset, ancestor sources, "
                "pattern) combinations with >= 2 competing sources or an inherited/derived value.",
        "bound": "nesting depth <= 3 (svg > g > g > shape, or use > shape); one focus element (+ <= 2 siblings); <= 7 sources "
                 "per element, <= 1 per ancestor level in the crossed families; opaque colours; stroke widths plain numbers/px; "
                 "selectors only of the five named kinds; no !important; style element precedes the content",
        "exhaustive": False,
        "failures": failures,
        "samples": samples,
    }
