"""Bounded run-time conformance checks for curve geometry of svgelements (label B).

Checks registered here (all exercise the REAL library module `mod`, oracles are independent: spec/f65.py and the
point functions in this file are written from the SVG specification / elementary geometry, never from svgelements):

  C05/endpoint_arcs      props C05, C02   endpoint-form arcs vs SVG F.6.5/F.6.6; affine maps of arcs and round shapes
  C08/bbox               props C08        bounding boxes vs dense sampling + golden-section extrema
  C15/length_and_point   props C15        length() vs Gauss-Legendre quadrature, invariances, point(t) walk
  C16/reverse            props C16        Path.reverse / Subpath.reverse vs an independent reversal of the trace
  C19/arc_to_bezier      props C19        Arc.as_cubic_curves / as_quad_curves / Path.approximate_arcs_with_*

Every failure record has: key (stable id of the defect class), prop, input (a JSON case that replay() re-runs),
expected, got, explanation, count (how many generated cases hit the same key). Witnesses are greedily minimised
(structure first, then numbers -> 0, +-1, integers, 1-2 significant digits) while the same key keeps reproducing.
"""
import math
import random
import time
import traceback

from pyvc.bounded import bounded
from spec import f65

TAU = 2.0 * math.pi


# =====================================================================================================================
# generic helpers
# =====================================================================================================================
def _xy(p):
    return (float(p[0]), float(p[1]))


def _apply(m, p):
    """SVG matrix (a,b,c,d,e,f): x' = a x + c y + e, y' = b x + d y + f."""
    return (m[0] * p[0] + m[2] * p[1] + m[4], m[1] * p[0] + m[3] * p[1] + m[5])


def _compose(m1, m2):
    """Matrix of 'first m1, then m2'."""
    a = m2[0] * m1[0] + m2[2] * m1[1]
    b = m2[1] * m1[0] + m2[3] * m1[1]
    c = m2[0] * m1[2] + m2[2] * m1[3]
    d = m2[1] * m1[2] + m2[3] * m1[3]
    e = m2[0] * m1[4] + m2[2] * m1[5] + m2[4]
    f = m2[1] * m1[4] + m2[3] * m1[5] + m2[5]
    return [a, b, c, d, e, f]


def _det(m):
    return m[0] * m[3] - m[1] * m[2]


def _cond(m):
    """2-norm condition number of the linear part."""
    a, b, c, d = m[0], m[1], m[2], m[3]
    s = a * a + b * b + c * c + d * d
    dt = abs(a * d - b * c)
    disc = max(s * s - 4 * dt * dt, 0.0)
    s1 = math.sqrt((s + math.sqrt(disc)) / 2.0)
    s2 = dt / s1 if s1 else 0.0
    return s1 / s2 if s2 else float("inf")


def _rot(deg):
    r = math.radians(deg)
    return [math.cos(r), math.sin(r), -math.sin(r), math.cos(r), 0.0, 0.0]


def _dist(p, q):
    return math.hypot(p[0] - q[0], p[1] - q[1])


def _coord(rng, lo=-3.0, hi=5.0, p_zero=0.2):
    """Coordinate that is exactly 0 or has magnitude 10**[lo,hi]."""
    if rng.random() < p_zero:
        return 0.0
    return rng.choice((-1.0, 1.0)) * 10.0 ** rng.uniform(lo, hi)


def _sig(x, n):
    if x == 0 or not math.isfinite(x):
        return x
    return float("%.*e" % (n - 1, x))


def _exc_key(where, e):
    return "%s-%s" % (where, type(e).__name__)


def _exc_fail(where, e, prop):
    return {"key": _exc_key(where, e), "prop": prop, "expected": "no exception",
            "got": "%s: %s" % (type(e).__name__, str(e)[:200]),
            "explanation": "the library raised %s in %s; trace tail: %s" % (
                type(e).__name__, where, traceback.format_exc()[-400:])}


def _with_alarm(seconds, fn):
    """Run fn() with a wall-clock limit (SIGALRM); returns (finished, value)."""
    import signal

    class _Timeout(Exception):
        pass

    def handler(signum, frame):
        raise _Timeout()

    if not hasattr(signal, "SIGALRM"):
        return True, fn()
    old = signal.signal(signal.SIGALRM, handler)
    signal.setitimer(signal.ITIMER_REAL, seconds)
    try:
        return True, fn()
    except _Timeout:
        return False, None
    finally:
        signal.setitimer(signal.ITIMER_REAL, 0)
        signal.signal(signal.SIGALRM, old)


def _zero_patterns(obj):
    """Set of sign patterns of (rx, ry, r, w, h) of all dicts carrying radii / sizes in a case."""
    out = set()
    if isinstance(obj, dict):
        if "rx" in obj or "r" in obj or "w" in obj:
            out.add(tuple((obj.get(k) > 0) - (obj.get(k) < 0) for k in ("rx", "ry", "r", "w", "h") if k in obj)
                    + tuple(sorted(k for k in ("rx", "r", "w") if k in obj)))
        for v in obj.values():
            out |= _zero_patterns(v)
    elif isinstance(obj, list):
        for v in obj:
            out |= _zero_patterns(v)
    return out


class _Collector:
    """Keeps, per failure key, the first witness and a count; minimises the witnesses at the end."""

    def __init__(self, mod, evaluate, shrink=None, normalise=None):
        self.mod = mod
        self.evaluate = evaluate
        self.shrink = shrink
        self.normalise = normalise
        self.by_key = {}
        self.evaluations = 0

    def run_case(self, case):
        self.evaluations += 1
        fails = self.evaluate(self.mod, case)
        for f in fails:
            k = f["key"]
            if k not in self.by_key:
                rec = dict(f)
                rec["input"] = case
                rec["count"] = 1
                self.by_key[k] = rec
            else:
                self.by_key[k]["count"] += 1
        return fails

    def _still(self, case, key):
        if not _zero_patterns(case) <= self._patterns:
            return None  # the candidate left the family (a radius became zero / stopped being zero)
        if self._mag0 >= 1e-3 and 0 < _case_magnitude(case) < 1e-3:
            return None  # the candidate left the quantified range of magnitudes (0 or 1e-3 .. 1e5)
        if isinstance(case, dict):
            for k in ("A", "B", "M"):
                m = case.get(k)
                if isinstance(m, list) and len(m) == 6:
                    n2 = m[0] ** 2 + m[1] ** 2 + m[2] ** 2 + m[3] ** 2
                    if abs(m[0] * m[3] - m[1] * m[2]) <= 1e-9 * n2 or n2 == 0:
                        return None  # the candidate left the family of invertible maps
        try:
            done, fails = _with_alarm(4.0, lambda: self.evaluate(self.mod, case))
            if not done:  # a candidate that makes the library run for seconds is simply not accepted
                return None
            for f in fails:
                if f["key"] == key:
                    return f
        except Exception:  # a candidate that breaks the *checker* is simply not accepted
            return None
        return None

    def minimise(self, budget_s=4.0, max_evals=400):
        for key in sorted(self.by_key):
            rec = self.by_key[key]
            case = rec["input"]
            self._patterns = _zero_patterns(case)
            self._mag0 = _case_magnitude(case)
            t0 = time.time()
            n = 0
            improved = True
            while improved and n < max_evals and time.time() - t0 < budget_s:
                improved = False
                for cand in _candidates(case, self.shrink):
                    n += 1
                    if n >= max_evals or time.time() - t0 > budget_s:
                        break
                    f = self._still(cand, key)
                    if f is not None:
                        case = cand
                        for kk in ("expected", "got", "explanation"):
                            rec[kk] = f.get(kk)
                        improved = True
                        break
            if self.normalise is not None:
                try:
                    norm = self.normalise(case)
                    if norm is not None and self._still(norm, key) is not None:
                        case = norm
                except Exception:
                    pass
            rec["input"] = case

    def failures(self):
        return [self.by_key[k] for k in sorted(self.by_key)]


def _case_magnitude(case):
    """largest absolute coordinate-like number of a case (requested errors, counts and limits excluded)"""
    m = 0.0
    for path, x in _leaves(case):
        if path and path[-1] in _PROTECTED:
            continue
        if isinstance(x, float):
            m = max(m, abs(x))
    return m


def _leaves(obj, path=()):
    if isinstance(obj, dict):
        for k in sorted(obj):
            for x in _leaves(obj[k], path + (k,)):
                yield x
    elif isinstance(obj, list):
        for i, v in enumerate(obj):
            for x in _leaves(v, path + (i,)):
                yield x
    elif isinstance(obj, float) or (isinstance(obj, int) and not isinstance(obj, bool)):
        yield path, obj


def _replace(obj, path, value):
    if not path:
        return value
    if isinstance(obj, dict):
        out = dict(obj)
        out[path[0]] = _replace(obj[path[0]], path[1:], value)
        return out
    out = list(obj)
    out[path[0]] = _replace(obj[path[0]], path[1:], value)
    return out


def _complexity(x):
    if x == 0:
        return 0
    if x in (1, -1):
        return 1
    if float(x) == int(x) and abs(x) < 1e6:
        return 2 + len(str(abs(int(x))))
    return 6 + len(repr(float(x)))


_PROTECTED = ("e", "limit_s", "n", "cap", "err")  # requested errors, limits and sample counts are never "simplified"


def _candidates(case, shrink):
    if shrink is not None:
        for c in shrink(case):
            yield c
    for path, x in _leaves(case):
        if path and (path[-1] in _PROTECTED or any(k in _PROTECTED or k == "errs" for k in path)):
            continue
        if isinstance(x, int):
            continue  # integers are flags / counts: only the structural shrinker touches them
        cands = []
        for v in (0.0, 1.0, -1.0, float(round(x)) if abs(x) < 1e15 else x, _sig(x, 1), _sig(x, 2), _sig(x, 3)):
            if v != x and _complexity(v) < _complexity(x) and v not in cands:
                cands.append(v)
        for v in cands:
            yield _replace(case, path, v)


def _finish(col, tier, rule, bound, distinct, samples, t0, extra=None):
    col.minimise(budget_s=3.0 if tier == "quick" else 10.0)
    out = {
        "evaluations": col.evaluations,
        "distinct_nontrivial": distinct,
        "rule": rule,
        "bound": bound,
        "exhaustive": False,
        "failures": col.failures(),
        "samples": samples[:6],
        "seconds": round(time.time() - t0, 2),
    }
    if extra:
        out.update(extra)
    return out


def _make_replay(evaluate):
    def replay(mod, witness):
        case = witness.get("input", witness) if isinstance(witness, dict) else witness
        key = witness.get("key") if isinstance(witness, dict) else None
        fails = evaluate(mod, case)
        keys = sorted(set(f["key"] for f in fails))
        if key is None:
            return {"reproduced": bool(fails), "detail": fails[:3]}
        hit = [f for f in fails if f["key"] == key]
        return {"reproduced": bool(hit), "detail": hit[:1] if hit else {"other_keys": keys}}

    return replay


# =====================================================================================================================
# independent geometry of segment descriptions
#   {"t":"L","p":[[x,y],[x,y]]}  {"t":"Q","p":[3 pts]}  {"t":"C","p":[4 pts]}  {"t":"Z","p":[[x,y],[x,y]]}
#   {"t":"A","c":[cx,cy],"rx":..,"ry":..,"phi":deg,"th":theta1 (rad),"dth":sweep (rad)}   centre form
#   {"t":"E","s":[x,y],"rx":..,"ry":..,"rot":deg,"fa":0/1,"fs":0/1,"e":[x,y]}              SVG endpoint form
#   {"t":"M","p":[[x,y]]}                                                                 move
# =====================================================================================================================
def _phi_exact(phi_deg):
    """cos/sin of a rotation given in degrees, exact for multiples of 90."""
    q = math.fmod(phi_deg, 360.0)
    if q < 0:
        q += 360.0
    exact = {0.0: (1.0, 0.0), 90.0: (0.0, 1.0), 180.0: (-1.0, 0.0), 270.0: (0.0, -1.0)}
    if q in exact:
        return exact[q]
    r = math.radians(q)
    return (math.cos(r), math.sin(r))


def _arc_centre_point(d, theta):
    cp, sp = _phi_exact(d["phi"])
    ct = math.cos(theta)
    st = math.sin(theta)
    return (d["c"][0] + d["rx"] * ct * cp - d["ry"] * st * sp, d["c"][1] + d["rx"] * ct * sp + d["ry"] * st * cp)


def _seg_fn(d):
    """Independent point function t -> (x, y) of a segment description."""
    t = d["t"]
    if t in ("L", "Z", "Q", "C"):
        ctrl = [_xy(p) for p in d["p"]]
        return lambda u: f65.bezier_point(ctrl, u)
    if t == "A":
        return lambda u: _arc_centre_point(d, d["th"] + u * d["dth"])
    if t == "E":
        c = f65.endpoint_to_center(d["s"][0], d["s"][1], d["rx"], d["ry"], d["rot"], d["fa"], d["fs"], d["e"][0], d["e"][1])
        return lambda u: f65.arc_point(c, u)
    if t == "M":
        p = _xy(d["p"][0])
        return lambda u: p
    raise ValueError(t)


def _seg_start(d):
    if d["t"] == "M":
        return _xy(d["p"][0])
    if d["t"] == "E":
        return _xy(d["s"])
    return _seg_fn(d)(0.0)


def _seg_end(d):
    if d["t"] == "M":
        return _xy(d["p"][0])
    if d["t"] == "E":
        return _xy(d["e"])
    return _seg_fn(d)(1.0)


def _seg_length(d):
    t = d["t"]
    if t == "M":
        return 0.0
    if t in ("L", "Z", "Q", "C"):
        return f65.bezier_length([_xy(p) for p in d["p"]])
    if t == "A":
        return f65.ellipse_arc_length(d["rx"], d["ry"], d["th"], d["dth"])
    if t == "E":
        c = f65.endpoint_to_center(d["s"][0], d["s"][1], d["rx"], d["ry"], d["rot"], d["fa"], d["fs"], d["e"][0], d["e"][1])
        if c["kind"] == "arc":
            return f65.ellipse_arc_length(c["rx"], c["ry"], c["theta1"], c["dtheta"])
        if c["kind"] == "line":
            return _dist(_xy(d["s"]), _xy(d["e"]))
        return 0.0
    raise ValueError(t)


def _seg_maxspeed(d):
    t = d["t"]
    if t in ("L", "Z", "Q", "C"):
        n = len(d["p"]) - 1
        return n * max(_dist(d["p"][i], d["p"][i + 1]) for i in range(n))
    if t == "A":
        return max(abs(d["rx"]), abs(d["ry"])) * abs(d["dth"])
    if t == "E":
        c = f65.endpoint_to_center(d["s"][0], d["s"][1], d["rx"], d["ry"], d["rot"], d["fa"], d["fs"], d["e"][0], d["e"][1])
        if c["kind"] == "arc":
            return max(c["rx"], c["ry"]) * abs(c["dtheta"])
        return _dist(_xy(d["s"]), _xy(d["e"]))
    return 0.0


def _seg_scale(d):
    """Coordinate scale of a segment description (largest |coordinate| / radius involved)."""
    t = d["t"]
    if t in ("L", "Z", "Q", "C", "M"):
        return max(max(abs(float(p[0])), abs(float(p[1]))) for p in d["p"])
    if t == "A":
        return max(abs(d["c"][0]), abs(d["c"][1])) + max(abs(d["rx"]), abs(d["ry"]))
    if t == "E":
        c = f65.endpoint_to_center(d["s"][0], d["s"][1], d["rx"], d["ry"], d["rot"], d["fa"], d["fs"], d["e"][0], d["e"][1])
        s = max(abs(d["s"][0]), abs(d["s"][1]), abs(d["e"][0]), abs(d["e"][1]))
        if c["kind"] == "arc":
            s = max(s, abs(c["cx"]) + max(c["rx"], c["ry"]), abs(c["cy"]) + max(c["rx"], c["ry"]))
        return s
    raise ValueError(t)


def _build_seg(mod, d):
    """The library object for a segment description (constructors only; no library geometry is consulted)."""
    t = d["t"]
    P = mod.Point
    if t == "M":
        return mod.Move(None, P(*_xy(d["p"][0])))
    if t == "L":
        return mod.Line(P(*_xy(d["p"][0])), P(*_xy(d["p"][1])))
    if t == "Z":
        return mod.Close(P(*_xy(d["p"][0])), P(*_xy(d["p"][1])))
    if t == "Q":
        return mod.QuadraticBezier(P(*_xy(d["p"][0])), P(*_xy(d["p"][1])), P(*_xy(d["p"][2])))
    if t == "C":
        return mod.CubicBezier(P(*_xy(d["p"][0])), P(*_xy(d["p"][1])), P(*_xy(d["p"][2])), P(*_xy(d["p"][3])))
    if t == "A":
        cp, sp = _phi_exact(d["phi"])
        c = _xy(d["c"])
        prx = (c[0] + d["rx"] * cp, c[1] + d["rx"] * sp)
        pry = (c[0] - d["ry"] * sp, c[1] + d["ry"] * cp)
        s = _arc_centre_point(d, d["th"])
        e = _arc_centre_point(d, d["th"] + d["dth"])
        return mod.Arc(P(*s), P(*e), P(*c), P(*prx), P(*pry), d["dth"])
    if t == "E":
        return mod.Arc(P(*_xy(d["s"])), d["rx"], d["ry"], d["rot"], d["fa"], d["fs"], P(*_xy(d["e"])))
    raise ValueError(t)


def _build_path(mod, segs):
    objs = [_build_seg(mod, d) for d in segs]
    if len(objs) == 1:
        return mod.Path(objs[0])
    return mod.Path(*objs)


T_GRID = (0.01, 0.1, 0.25, 1.0 / 3.0, 0.5, 0.7, 0.9, 0.99)


# =====================================================================================================================
# (1) C05/endpoint_arcs  (C05 + C02)
# =====================================================================================================================
def _matrices40():
    """40 invertible matrices: rotations, reflections, uniform/anisotropic scales, skews, products with
    translations; condition numbers up to ~400; both signs of the determinant. Deterministic."""
    ms = []
    for a in (30.0, 90.0, 180.0, -45.0):
        ms.append(_rot(a))
    ms += [[-1.0, 0.0, 0.0, 1.0, 0.0, 0.0], [1.0, 0.0, 0.0, -1.0, 0.0, 0.0], [0.0, 1.0, 1.0, 0.0, 0.0, 0.0]]
    r = math.radians(40.0)
    ms.append([math.cos(r), math.sin(r), math.sin(r), -math.cos(r), 0.0, 0.0])  # reflection across the 20 deg line
    for s in (0.5, 3.0, -2.0, 1e-3, 1e3):
        ms.append([s, 0.0, 0.0, s, 0.0, 0.0])
    for sx, sy in ((2.0, 0.5), (0.1, 10.0), (20.0, 0.05), (-3.0, 1.0), (1.0, -0.25)):
        ms.append([sx, 0.0, 0.0, sy, 0.0, 0.0])
    t = lambda d: math.tan(math.radians(d))
    ms += [[1.0, 0.0, t(30), 1.0, 0.0, 0.0], [1.0, 0.0, t(-60), 1.0, 0.0, 0.0], [1.0, t(45), 0.0, 1.0, 0.0, 0.0],
           [1.0, 0.0, t(80), 1.0, 0.0, 0.0], [1.0, t(20), t(30), 1.0, 0.0, 0.0]]
    rng = random.Random(12345)
    conds = (1.0, 2.0, 5.0, 10.0, 30.0, 100.0, 200.0, 400.0)
    i = 0
    while len(ms) < 40:
        k = conds[i % len(conds)]
        g = 10.0 ** rng.uniform(-1.0, 1.0)
        sx = g * math.sqrt(k)
        sy = g / math.sqrt(k) * (-1.0 if i % 3 == 1 else 1.0)
        m = _compose(_compose(_rot(rng.uniform(-180, 180)), [sx, 0.0, 0.0, sy, 0.0, 0.0]), _rot(rng.uniform(-180, 180)))
        m[4] = rng.choice((0.0, 7.5, -120.0, 1000.0))
        m[5] = rng.choice((0.0, -3.25, 40.0))
        ms.append(m)
        i += 1
    return ms


def _fmt(x):
    return repr(float(x))


def _endpoint_dstring(c):
    return "M %s,%s A %s %s %s %d %d %s,%s" % (_fmt(c["s"][0]), _fmt(c["s"][1]), _fmt(c["rx"]), _fmt(c["ry"]),
                                                 _fmt(c["rot"]), 1 if c["fa"] else 0, 1 if c["fs"] else 0,
                                                 _fmt(c["e"][0]), _fmt(c["e"][1]))


def _ang_diff(a, b):
    d = math.fmod(a - b, TAU)
    if d > math.pi:
        d -= TAU
    if d < -math.pi:
        d += TAU
    return abs(d)


def _c05_endpoint(mod, case):
    fails = []
    s = _xy(case["s"])
    e = _xy(case["e"])
    rx, ry, rot, fa, fs = case["rx"], case["ry"], case["rot"], case["fa"], case["fs"]
    c = f65.endpoint_to_center(s[0], s[1], rx, ry, rot, fa, fs, e[0], e[1])
    path = None
    try:
        if case.get("via") == "Path":
            path = mod.Path(_endpoint_dstring(case))
            if len(path) != 2 or not isinstance(path[1], mod.Arc):
                return [{"key": "path-arc-command-not-one-arc", "prop": "C05", "expected": "Move + one Arc",
                         "got": repr(path)[:300], "explanation": "the arc command did not produce one Arc segment"}]
            arc = path[1]
        else:
            arc = mod.Arc(mod.Point(*s), rx, ry, rot, fa, fs, mod.Point(*e))
    except Exception as ex:
        return [_exc_fail("endpoint-arc-constructor", ex, "C05")]
    try:
        pts = {t: _xy(arc.point(t)) for t in (0.0, 1.0) + T_GRID}
        if path is not None:
            ppts = {t: _xy(path.point(t)) for t in (0.0, 1.0)}
        if c["kind"] != "arc":  # (length of proper arcs is the subject of C15; the default error can recurse for minutes)
            length = float(arc.length())
            box = tuple(float(v) for v in arc.bbox())
    except Exception as ex:
        return [_exc_fail("endpoint-arc-point-length-bbox", ex, "C05")]
    coord = max(abs(s[0]), abs(s[1]), abs(e[0]), abs(e[1]))
    if c["kind"] == "arc":
        S = coord + max(c["rx"], c["ry"])
        bad = []
        if pts[0.0] != s:
            bad.append("point(0)=%r != start %r" % (pts[0.0], s))
        if pts[1.0] != e:
            bad.append("point(1)=%r != end %r" % (pts[1.0], e))
        if path is not None and (ppts[0.0] != s or ppts[1.0] != e):
            bad.append("Path.point(0/1)=%r" % (ppts,))
        if bad:
            fails.append({"key": "arc-endpoints-not-exact", "prop": "C05", "expected": "point(0)==start, point(1)==end",
                          "got": "; ".join(bad), "explanation": "an endpoint-form arc must start/end exactly at the given points"})
        worst_imp = (0.0, None)
        worst_pt = (0.0, None)
        for t in T_GRID:
            p = pts[t]
            dev = min(f65.ellipse_radial_deviation(c["cx"], c["cy"], c["rx"], c["ry"], c["phi"], p[0], p[1]),
                      f65.ellipse_normal_deviation(c["cx"], c["cy"], c["rx"], c["ry"], c["phi"], p[0], p[1]))
            if dev > worst_imp[0]:
                worst_imp = (dev, t)
            dd = _dist(p, f65.arc_point(c, t))
            if dd > worst_pt[0]:
                worst_pt = (dd, t)
        # lambda >= 1 (radii scaled up, or exactly sufficient): the centre is sqrt(radicand) with a radicand that is
        # mathematically 0, so a relative rounding error eps in it moves any float implementation's centre by
        # sqrt(eps) ~ 1e-8 of the radius; the ellipse still passes through both endpoints. Conditioning-aware tolerance:
        imp_tol = (1e-9 if c["lam"] < 1.0 - 1e-9 else 1e-7) * S
        if worst_imp[0] > imp_tol:
            fails.append({"key": "arc-point-off-F65-ellipse", "prop": "C05",
                          "expected": "every point on the F.6.5 ellipse (centre %r radii %r,%r) within 1e-9*%g" % (
                              (c["cx"], c["cy"]), c["rx"], c["ry"], S),
                          "got": "deviation %g at t=%g: %r" % (worst_imp[0], worst_imp[1], pts[worst_imp[1]]),
                          "explanation": "a point of the arc does not satisfy the implicit equation of the ellipse "
                                         "given by SVG F.6.5/F.6.6 (radii scaled up only when too small)"})
        elif worst_pt[0] > 1e-7 * S * max(1.0, max(c["rx"], c["ry"]) / (1e3 * min(c["rx"], c["ry"]))):
            # position along the ellipse: the parameter is recovered through atan2(a * tan(angle), b), which loses
            # accuracy in proportion to the axis ratio; 1e-7 of the scale up to a ratio of 1000, proportionally more beyond
            fails.append({"key": "arc-point-wrong-position-on-ellipse", "prop": "C05",
                          "expected": "point(t) == F.6.5 point at theta1 + t*dtheta (theta1=%g dtheta=%g) within 1e-7*%g (x ratio/1000 for axis ratios beyond 1000)" % (
                              c["theta1"], c["dtheta"], S),
                          "got": "distance %g at t=%g: %r vs %r" % (worst_pt[0], worst_pt[1], pts[worst_pt[1]],
                                                                     f65.arc_point(c, worst_pt[1])),
                          "explanation": "the point lies on the right ellipse but not at the same fraction of the sweep "
                                         "(wrong start angle, direction or extent)"})
        try:
            sw = float(arc.sweep)
            lrx = float(arc.rx)
            lry = float(arc.ry)
            lrot = float(arc.get_rotation())
        except Exception as ex:
            return fails + [_exc_fail("endpoint-arc-accessors", ex, "C05")]
        bad = []
        if abs(c["dtheta"]) > 1e-9 and (sw > 0) != bool(fs):
            bad.append("sweep %g has the wrong sign for sweep flag %d" % (sw, fs))
        if abs(abs(c["dtheta"]) - math.pi) > 1e-6 and (abs(sw) > math.pi) != bool(fa):
            bad.append("|sweep| %g vs half turn disagrees with large-arc flag %d" % (abs(sw), fa))
        if abs(sw - c["dtheta"]) > 1e-6:
            bad.append("sweep %r != dtheta %r" % (sw, c["dtheta"]))
        if bad:
            fails.append({"key": "arc-sweep-flags", "prop": "C05", "expected": "dtheta=%r" % c["dtheta"], "got": "; ".join(bad),
                          "explanation": "direction must follow the sweep flag and the extent the large-arc flag (F.6.5.6)"})
        if abs(lrx - c["rx"]) > 1e-9 * S or abs(lry - c["ry"]) > 1e-9 * S:
            fails.append({"key": "arc-radii", "prop": "C05", "expected": "rx=%r ry=%r" % (c["rx"], c["ry"]),
                          "got": "rx=%r ry=%r" % (lrx, lry),
                          "explanation": "radii must be |rx|,|ry| scaled up uniformly by sqrt(lambda) only when lambda>1 (F.6.6)"})
        if _ang_diff(lrot, c["phi"]) > 1e-9 * S / c["rx"] + 1e-9:
            fails.append({"key": "arc-rotation", "prop": "C05", "expected": "rotation %r deg (mod 360) = %r rad" % (rot, c["phi"]),
                          "got": "get_rotation()=%r rad" % lrot, "explanation": "x-axis-rotation must be preserved modulo 360"})
    elif c["kind"] == "line":
        S = coord if coord else 1.0
        chord = _dist(s, e)
        bad = []
        for t in (0.0, 1.0) + T_GRID:
            ex_p = (s[0] + (e[0] - s[0]) * t, s[1] + (e[1] - s[1]) * t)
            if _dist(pts[t], ex_p) > 1e-12 * S:
                bad.append("point(%g)=%r expected %r" % (t, pts[t], ex_p))
                break
        if abs(length - chord) > 1e-12 * S:
            bad.append("length()=%r expected chord %r" % (length, chord))
        ebox = (min(s[0], e[0]), min(s[1], e[1]), max(s[0], e[0]), max(s[1], e[1]))
        if max(abs(box[i] - ebox[i]) for i in range(4)) > 1e-12 * S:
            bad.append("bbox()=%r expected %r" % (box, ebox))
        if bad:
            fails.append({"key": "zero-radius-arc-not-line", "prop": "C05", "expected": "straight line start->end (SVG F.6.2)",
                          "got": "; ".join(bad),
                          "explanation": "rx==0 or ry==0 must be treated as a straight line segment joining the endpoints: "
                                         "points at parameter t, length = chord, bbox = ordered box of the endpoints"})
    else:
        S = coord if coord else 1.0
        bad = []
        if length != 0:
            bad.append("length()=%r" % length)
        for t in (0.0, 1.0) + T_GRID:
            if pts[t] != s:
                bad.append("point(%g)=%r" % (t, pts[t]))
                break
        if box != (s[0], s[1], s[0], s[1]):
            bad.append("bbox()=%r" % (box,))
        if bad:
            fails.append({"key": "coincident-endpoints-arc-draws-something", "prop": "C05", "expected": "nothing drawn: length 0, all points = start",
                          "got": "; ".join(bad), "explanation": "identical endpoints omit the arc segment entirely (SVG F.6.2)"})
    return fails


def _ellipse_frame_scale(c, m):
    """Largest |coordinate| of the image under m of the box around the oracle ellipse and of the endpoints."""
    cp = math.cos(c["phi"])
    sp = math.sin(c["phi"])
    pts = [(c["x1"], c["y1"]), (c["x2"], c["y2"])]
    for su in (-1, 1):
        for sv in (-1, 1):
            pts.append((c["cx"] + su * c["rx"] * cp - sv * c["ry"] * sp, c["cy"] + su * c["rx"] * sp + sv * c["ry"] * cp))
    best = 0.0
    for p in pts:
        q = _apply(m, p)
        best = max(best, abs(q[0]), abs(q[1]))
    return best


def _c05_affine(mod, case):
    a = case["arc"]
    A = case["A"]
    B = case.get("B")
    s = _xy(a["s"])
    e = _xy(a["e"])
    c = f65.endpoint_to_center(s[0], s[1], a["rx"], a["ry"], a["rot"], a["fa"], a["fs"], e[0], e[1])
    if c["kind"] != "arc":
        return []
    try:
        arc = mod.Arc(mod.Point(*s), a["rx"], a["ry"], a["rot"], a["fa"], a["fs"], mod.Point(*e))
        grid = (0.0,) + T_GRID + (1.0,)
        base = [_xy(arc.point(t)) for t in grid]
        arcA = arc * mod.Matrix(*A)
        ptsA = [_xy(arcA.point(t)) for t in grid]
        if B is not None:
            arcAB = arcA * mod.Matrix(*B)
            ptsAB = [_xy(arcAB.point(t)) for t in grid]
            arcP = arc * (mod.Matrix(*A) * mod.Matrix(*B))
            ptsP = [_xy(arcP.point(t)) for t in grid]
    except Exception as ex:
        return [_exc_fail("arc-times-matrix", ex, "C02")]
    fails = []
    S = max(_ellipse_frame_scale(c, A), 1e-300)
    worst = (0.0, None)
    for t, p, q in zip(grid, base, ptsA):
        d = _dist(q, _apply(A, p))
        if d > worst[0]:
            worst = (d, t, q, _apply(A, p))
    if worst[0] > 1e-7 * S:
        fails.append({"key": "arc-affine-pointwise", "prop": "C02",
                      "expected": "(arc*M).point(t) == M(arc.point(t)) within 1e-7*%g" % S,
                      "got": "distance %g at t=%g: %r vs %r (det=%g cond=%g)" % (worst[0], worst[1], worst[2], worst[3], _det(A), _cond(A)),
                      "explanation": "an affine map of an elliptical arc must be the arc of the mapped ellipse, point for point"})
    if B is not None:
        AB = _compose(A, B)
        S2 = max(_ellipse_frame_scale(c, AB), _ellipse_frame_scale(c, A) * math.sqrt(B[0] ** 2 + B[1] ** 2 + B[2] ** 2 + B[3] ** 2), 1e-300)
        worst = (0.0, None)
        for t, p, q1, q2 in zip(grid, base, ptsAB, ptsP):
            ex_p = _apply(B, _apply(A, p))
            for which, q in (("(arc*A)*B", q1), ("arc*(A*B)", q2)):
                d = _dist(q, ex_p)
                if d > worst[0]:
                    worst = (d, t, which, q, ex_p)
        # the image ellipse of the product may be extremely eccentric (two maps of condition 400 give 160 000): the
        # position along such an ellipse is recovered with an accuracy proportional to its axis ratio (as in C05)
        try:
            rr = (float(arcP.rx), float(arcP.ry))
            ecc = max(rr) / min(rr) if min(rr) > 0 else 1.0
        except Exception:
            ecc = 1.0
        if worst[0] > 1e-7 * S2 * max(1.0, ecc / 1e3):
            fails.append({"key": "arc-affine-composition", "prop": "C02",
                          "expected": "(arc*A)*B == arc*(A*B) == B(A(arc.point(t))) within 1e-7*%g" % S2,
                          "got": "%s off by %g at t=%g: %r vs %r" % (worst[2], worst[0], worst[1], worst[3], worst[4]),
                          "explanation": "transforming twice must equal transforming once by the product"})
    return fails


def _shape_desc(sh):
    """Independent decomposition of a basic shape into segment descriptions (SVG 2 sections 10.2-10.4)."""
    if sh["type"] in ("Circle", "Ellipse"):
        cx, cy = sh["cx"], sh["cy"]
        rx = sh["r"] if sh["type"] == "Circle" else sh["rx"]
        ry = sh["r"] if sh["type"] == "Circle" else sh["ry"]
        segs = [{"t": "M", "p": [[cx + rx, cy]]}]
        for i in range(4):
            segs.append({"t": "A", "c": [cx, cy], "rx": rx, "ry": ry, "phi": 0.0, "th": i * math.pi / 2, "dth": math.pi / 2})
        segs.append({"t": "Z", "p": [[cx + rx, cy], [cx + rx, cy]]})
        return segs
    x, y, w, h, rx, ry = sh["x"], sh["y"], sh["w"], sh["h"], sh["rx"], sh["ry"]
    if rx == 0 or ry == 0:
        return [{"t": "M", "p": [[x, y]]}, {"t": "L", "p": [[x, y], [x + w, y]]}, {"t": "L", "p": [[x + w, y], [x + w, y + h]]},
                {"t": "L", "p": [[x + w, y + h], [x, y + h]]}, {"t": "Z", "p": [[x, y + h], [x, y]]}]
    q = math.pi / 2

    def arc(cx, cy, th):
        return {"t": "A", "c": [cx, cy], "rx": rx, "ry": ry, "phi": 0.0, "th": th, "dth": q}

    return [{"t": "M", "p": [[x + rx, y]]},
            {"t": "L", "p": [[x + rx, y], [x + w - rx, y]]}, arc(x + w - rx, y + ry, -q),
            {"t": "L", "p": [[x + w, y + ry], [x + w, y + h - ry]]}, arc(x + w - rx, y + h - ry, 0.0),
            {"t": "L", "p": [[x + w - rx, y + h], [x + rx, y + h]]}, arc(x + rx, y + h - ry, q),
            {"t": "L", "p": [[x, y + h - ry], [x, y + ry]]}, arc(x + rx, y + ry, 2 * q),
            {"t": "Z", "p": [[x + rx, y], [x + rx, y]]}]


def _build_shape(mod, sh):
    if sh["type"] == "Circle":
        return mod.Circle(sh["cx"], sh["cy"], sh["r"])
    if sh["type"] == "Ellipse":
        return mod.Ellipse(sh["cx"], sh["cy"], sh["rx"], sh["ry"])
    if sh["type"] == "Rect":
        return mod.Rect(sh["x"], sh["y"], sh["w"], sh["h"], sh["rx"], sh["ry"])
    raise ValueError(sh["type"])


_KIND_CLASS = {"M": "Move", "L": "Line", "A": "Arc", "Z": "Close", "Q": "QuadraticBezier", "C": "CubicBezier"}


def _c05_shape(mod, case):
    sh = case["shape"]
    M = case["M"]
    desc = _shape_desc(sh)
    try:
        shape = _build_shape(mod, sh)
        if case["route"] == "segments":
            segs = list((shape * mod.Matrix(*M)).segments())
        else:
            segs = list(abs(mod.Path(shape) * mod.Matrix(*M)))
        got_kinds = [type(x).__name__ for x in segs]
        pts = []
        for sg in segs:
            pts.append([_xy(sg.point(t)) for t in (0.0,) + T_GRID + (1.0,)])
    except Exception as ex:
        return [_exc_fail("shape-times-matrix-%s" % case["route"], ex, "C02")]
    want_kinds = [_KIND_CLASS[d["t"]] for d in desc]
    key = "%s-affine-%s" % ("roundshape" if sh["type"] in ("Circle", "Ellipse") else sh["type"].lower(), case["route"])
    if got_kinds != want_kinds:
        return [{"key": key + "-segment-kinds", "prop": "C02", "expected": want_kinds, "got": got_kinds,
                 "explanation": "the transformed shape must decompose as SVG 2 section 10 prescribes"}]
    S = 0.0
    for d in desc:
        f = _seg_fn(d)
        for t in (0.0, 0.5, 1.0):
            q = _apply(M, f(t))
            S = max(S, abs(q[0]), abs(q[1]))
    ext = max(sh.get("r", 0), sh.get("rx", 0), sh.get("ry", 0), sh.get("w", 0), sh.get("h", 0))
    S = max(S, ext * math.sqrt(M[0] ** 2 + M[1] ** 2 + M[2] ** 2 + M[3] ** 2))
    worst = (0.0, None)
    for i, d in enumerate(desc):
        f = _seg_fn(d)
        for j, t in enumerate((0.0,) + T_GRID + (1.0,)):
            ex_p = _apply(M, f(t))
            dd = _dist(pts[i][j], ex_p)
            if dd > worst[0]:
                worst = (dd, i, t, pts[i][j], ex_p)
    if worst[0] > 1e-7 * S:
        # is the library's outline at least the right point set (every sampled point on the image curve)?
        inv_det = _det(M)
        inv = [M[3] / inv_det, -M[1] / inv_det, -M[2] / inv_det, M[0] / inv_det, 0.0, 0.0]
        inv[4] = -(inv[0] * M[4] + inv[2] * M[5])
        inv[5] = -(inv[1] * M[4] + inv[3] * M[5])
        off = 0.0
        for i, d in enumerate(desc):
            if d["t"] != "A":
                continue
            for q in pts[i]:
                u = _apply(inv, q)
                off = max(off, f65.ellipse_radial_deviation(d["c"][0], d["c"][1], d["rx"], d["ry"], 0.0, u[0], u[1])
                          / max(d["rx"], d["ry"]))
        if off > 1e-6:
            sub = "-off-image"
            expl = ("the transformed shape is not the image of the untransformed outline (ellipse points c + (rx cos, ry sin)) "
                    "under M: sampled points mapped back by M^-1 miss the original ellipse by %.3g of its radius" % off)
        else:
            sub = "-traversal"
            expl = ("the transformed outline is the right point set, but it is traversed differently from the image of the "
                    "untransformed outline (segment i at t is not M(segment i at t): direction or start differs)")
        return [{"key": key + sub, "prop": "C02",
                 "expected": "segment points == M(shape point) within 1e-7*%g" % S,
                 "got": "segment %d (%s) t=%g: %r vs %r, off by %g (det=%g cond=%g)" % (
                     worst[1], want_kinds[worst[1]], worst[2], worst[3], worst[4], worst[0], _det(M), _cond(M)),
                 "explanation": expl}]
    return []


def _c05_eval(mod, case):
    k = case["kind"]
    if k == "endpoint":
        return _c05_endpoint(mod, case)
    if k == "affine":
        return _c05_affine(mod, case)
    if k == "shape":
        return _c05_shape(mod, case)
    raise ValueError(k)


def _c05_shrink(case):
    if case["kind"] == "affine" and case.get("B") is not None:
        c = dict(case)
        c["B"] = None
        yield c
    for name in ("A", "B", "M"):
        m = case.get(name)
        if m:
            for simple in ([m[0], m[1], m[2], m[3], 0.0, 0.0], [1.0, 0.0, m[2], 1.0, 0.0, 0.0], [m[0], 0.0, 0.0, m[3], 0.0, 0.0]):
                if simple != m and abs(_det(simple)) > 1e-12:
                    c = dict(case)
                    c[name] = simple
                    yield c


C05_ROTS = (0.0, 30.0, 90.0, 180.0, 270.0, -400.0, 725.0, 45.5)


def _c05_cases(tier, rng):
    n_pts = 6 if tier == "quick" else 30
    ratios = (1e-3, 0.03, 0.3, 0.5, 0.75, 1.0, 3.0, 50.0, 1e3)
    # --- endpoint-form grid
    pairs = []
    for _ in range(n_pts):
        while True:
            s = [_coord(rng), _coord(rng)]
            e = [_coord(rng), _coord(rng)]
            if s != e:
                break
        pairs.append((s, e))
    pairs.append(([0.0, 0.0], [10.0, 0.0]))
    pairs.append(([10.0, 0.0], [0.0, 5.0]))
    pairs.append(([-3.0, 4.0], [-3.0, -4.0]))
    for s, e in pairs:
        chord = _dist(s, e)
        for rot in C05_ROTS:
            rsel = [(rng.choice(ratios), rng.choice(ratios)) for _ in range(3 if tier == "quick" else 12)]
            rsel.append((0.5, 0.5))  # lambda == 1 on a circle: exactly a half turn
            for r1, r2 in rsel:
                for fa in (0, 1):
                    for fs in (0, 1):
                        yield {"kind": "endpoint", "via": "Arc" if rng.random() < 0.7 else "Path", "s": s, "e": e,
                               "rx": _sig(r1 * chord, 6), "ry": _sig(r2 * chord, 6), "rot": rot, "fa": fa, "fs": fs}
            # negative radii through the path-data parser
            r1, r2 = rng.choice(ratios), rng.choice(ratios)
            sg = rng.choice(((-1, 1), (1, -1), (-1, -1)))
            fa, fs = rng.choice((0, 1)), rng.choice((0, 1))
            yield {"kind": "endpoint", "via": "Path", "s": s, "e": e, "rx": sg[0] * _sig(r1 * chord, 6),
                   "ry": sg[1] * _sig(r2 * chord, 6), "rot": rot, "fa": fa, "fs": fs}
            # zero radii
            for zr in ((0.0, _sig(chord, 3)), (_sig(chord, 3), 0.0), (0.0, 0.0)):
                yield {"kind": "endpoint", "via": rng.choice(("Arc", "Path")), "s": s, "e": e, "rx": zr[0], "ry": zr[1],
                       "rot": rot, "fa": rng.choice((0, 1)), "fs": rng.choice((0, 1))}
        # coincident endpoints
        for fa in (0, 1):
            for fs in (0, 1):
                yield {"kind": "endpoint", "via": rng.choice(("Arc", "Path")), "s": s, "e": list(s), "rx": _sig(1 + chord, 3),
                       "ry": _sig(0.5 + chord, 3), "rot": rng.choice(C05_ROTS), "fa": fa, "fs": fs}
    # --- affine maps of arcs
    ms = _matrices40()
    arcs = [{"s": [0.0, 0.0], "rx": 10.0, "ry": 5.0, "rot": 30.0, "fa": 0, "fs": 1, "e": [10.0, 3.0]},
            {"s": [1.0, 2.0], "rx": 3.0, "ry": 3.0, "rot": 0.0, "fa": 1, "fs": 0, "e": [4.0, -1.0]}]
    for _ in range(6 if tier == "quick" else 30):
        while True:
            s = [_coord(rng, -1, 3), _coord(rng, -1, 3)]
            e = [_coord(rng, -1, 3), _coord(rng, -1, 3)]
            if s != e:
                break
        chord = _dist(s, e)
        arcs.append({"s": s, "e": e, "rx": _sig(chord * 10 ** rng.uniform(-1, 1.5), 6), "ry": _sig(chord * 10 ** rng.uniform(-1, 1.5), 6),
                     "rot": rng.choice(C05_ROTS + (12.0, -77.0)), "fa": rng.choice((0, 1)), "fs": rng.choice((0, 1))})
    for a in arcs:
        for i, A in enumerate(ms):
            yield {"kind": "affine", "arc": a, "A": A, "B": None}
        for _ in range(10 if tier == "quick" else 40):
            yield {"kind": "affine", "arc": a, "A": rng.choice(ms), "B": rng.choice(ms)}
    # --- affine maps of round shapes
    shapes = [{"type": "Circle", "cx": 1.0, "cy": 2.0, "r": 3.0}, {"type": "Circle", "cx": 0.0, "cy": 0.0, "r": 1e-3},
              {"type": "Ellipse", "cx": 1.0, "cy": 2.0, "rx": 3.0, "ry": 4.0}, {"type": "Ellipse", "cx": -50.0, "cy": 1e4, "rx": 200.0, "ry": 2.0},
              {"type": "Rect", "x": 0.0, "y": 0.0, "w": 10.0, "h": 5.0, "rx": 2.0, "ry": 1.0},
              {"type": "Rect", "x": -7.0, "y": 3.0, "w": 4.0, "h": 40.0, "rx": 2.0, "ry": 20.0},
              {"type": "Rect", "x": 1.0, "y": 1.0, "w": 3.0, "h": 2.0, "rx": 0.0, "ry": 0.0}]
    # a rotation followed by an anisotropic scale has orthogonal rows and non-orthogonal columns, the opposite order
    # orthogonal columns and non-orthogonal rows: the two cases in which "are the images of the radii orthogonal" and
    # its transposed look-alike differ
    ms2 = list(ms)
    for ang in (30.0, -50.0, 75.0):
        for sx, sy in ((2.0, 1.0), (1.0, 3.0), (-2.0, 0.5)):
            sc = [sx, 0.0, 0.0, sy, 0.0, 0.0]
            for m in (_compose(_rot(ang), sc), _compose(sc, _rot(ang))):
                m = list(m)
                m[4], m[5] = 7.5, -3.25
                ms2.append(m)
    for sh in shapes:
        for M in ms2:
            for route in ("segments", "path"):
                yield {"kind": "shape", "shape": sh, "M": M, "route": route}


_c05_replay = _make_replay(_c05_eval)


@bounded("C05/endpoint_arcs", props=["C05", "C02", "C06"], replay=_c05_replay)
def c05_endpoint_arcs(mod, tier, seed):
    t0 = time.time()
    rng = random.Random(seed)
    col = _Collector(mod, _c05_eval, _c05_shrink)
    distinct = set()
    samples = []
    for case in _c05_cases(tier, rng):
        col.run_case(case)
        if case["kind"] == "endpoint":
            c = f65.endpoint_to_center(case["s"][0], case["s"][1], case["rx"], case["ry"], case["rot"], case["fa"], case["fs"],
                                       case["e"][0], case["e"][1])
            cls = (c["kind"], case["rot"], case["fa"], case["fs"], (c.get("lam", 0) > 1), case["rx"] < 0 or case["ry"] < 0,
                   case["via"], tuple(case["s"]), tuple(case["e"]), case["rx"], case["ry"])
        elif case["kind"] == "affine":
            cls = ("affine", repr(case["arc"]), tuple(case["A"]), tuple(case["B"]) if case["B"] else None)
        else:
            cls = ("shape", repr(case["shape"]), tuple(case["M"]), case["route"])
        distinct.add(cls)
        if len(samples) < 6 and col.evaluations % 97 == 1:
            samples.append(case)
    return _finish(
        col, tier,
        rule="endpoint-form arcs: start/end coordinates exactly 0 or +-10^[-3,5]; radii = chord * {1e-3..1e3} per axis "
             "(plus rx=ry=chord/2, the lambda==1 half turn), rotations %r, all four flag pairs, negative radii through "
             "Path('M.. A..'), zero radii (rx, ry or both), coincident endpoints; 40 fixed invertible matrices "
             "(rotations, reflections, uniform/anisotropic scales, skews, R*S*R products with translation, cond<=400, both "
             "determinant signs) applied to arcs (and 2-fold products), Circle/Ellipse/rounded Rect by (shape*M).segments() "
             "and abs(Path(shape)*M). distinct = distinct (input tuple); non-trivial = every case (each has a non-identity "
             "geometry or a stated degenerate class)" % (C05_ROTS,),
        bound="quick: 9 endpoint pairs x 8 rotations x (4 radius pairs x 4 flags + 1 negative + 3 zero) + 4 coincident; "
              "8 arcs x (40 + 10 pairs) matrices; 7 shapes x 40 x 2 routes; t grid %r. thorough: 33 pairs, 13 radius "
              "pairs, 32 arcs x (40+40)." % (T_GRID,),
        distinct=len(distinct), samples=samples, t0=t0,
        extra={"tolerances": "endpoints exact (==); implicit equation (distance form) 1e-9*S (1e-7*S when lambda >= 1-1e-9: the "
                             "centre is then sqrt(rounding noise) ~1e-8 ill-conditioned for any float implementation); point 1e-7*S; S = max |endpoint "
                             "coordinate| + larger effective radius; affine 1e-7 * max |coordinate| of the mapped ellipse frame"})


# =====================================================================================================================
# shared random generators of segment descriptions and paths
# =====================================================================================================================
def _rand_pt(rng, lo=-3.0, hi=5.0, p_zero=0.2):
    return [_coord(rng, lo, hi, p_zero), _coord(rng, lo, hi, p_zero)]


def _near(rng, p, scale):
    """A point at a distance of the order of `scale` from p (components exactly p's with probability 0.15)."""
    return [p[0] + (0.0 if rng.random() < 0.15 else rng.uniform(-1, 1) * scale),
            p[1] + (0.0 if rng.random() < 0.15 else rng.uniform(-1, 1) * scale)]


def _rand_seg(rng, kind, start, scale, end=None):
    """Random drawn segment of the given kind from `start`; control points within ~scale."""
    if end is None:
        end = _near(rng, start, scale)
    if kind == "L":
        return {"t": "L", "p": [list(start), end]}
    if kind == "Q":
        return {"t": "Q", "p": [list(start), _near(rng, start, scale), end]}
    if kind == "C":
        return {"t": "C", "p": [list(start), _near(rng, start, scale), _near(rng, end, scale), end]}
    if kind == "A":
        if end == list(start):
            end = [start[0] + scale, start[1]]
        chord = _dist(start, end)
        return {"t": "E", "s": list(start), "e": end, "rx": _sig(chord * 10 ** rng.uniform(-0.5, 1.0), 5),
                "ry": _sig(chord * 10 ** rng.uniform(-0.5, 1.0), 5),
                "rot": rng.choice((0.0, 30.0, 90.0, -45.0, 123.0, 270.0, _sig(rng.uniform(-360, 360), 3))),
                "fa": rng.choice((0, 1)), "fs": rng.choice((0, 1))}
    raise ValueError(kind)


def _rand_path(rng, n_sub=None, max_seg=4, scale=None, kinds="LQCA", closed_p=0.4):
    """Random well-formed path description: every subpath = Move, 1..max_seg drawn segments, optional Close."""
    if scale is None:
        scale = 10.0 ** rng.uniform(-3, 5)
    if n_sub is None:
        n_sub = rng.choice((1, 1, 2, 3))
    segs = []
    origin = [_coord(rng, -3, 5), _coord(rng, -3, 5)] if rng.random() < 0.5 else [0.0, 0.0]
    for _ in range(n_sub):
        start = _near(rng, origin, scale)
        segs.append({"t": "M", "p": [start]})
        cur = start
        for _ in range(rng.randint(1, max_seg)):
            d = _rand_seg(rng, rng.choice(kinds), cur, scale)
            segs.append(d)
            cur = list(_seg_end(d))
        if rng.random() < closed_p:
            segs.append({"t": "Z", "p": [list(cur), list(start)]})
    return segs


def _split_subpaths(segs):
    """Independent subpath splitting: a new subpath begins at every Move and after every Close."""
    out = []
    cur = []
    for d in segs:
        if d["t"] == "M" and cur:
            out.append(cur)
            cur = []
        cur.append(d)
        if d["t"] == "Z":
            out.append(cur)
            cur = []
    if cur:
        out.append(cur)
    return out


# =====================================================================================================================
# (2) C08/bbox
# =====================================================================================================================
_GOLD = (math.sqrt(5.0) - 1.0) / 2.0


def _golden_max(g, a, b, iters=48):
    """Maximise the unimodal function g on [a, b]."""
    c = b - _GOLD * (b - a)
    d = a + _GOLD * (b - a)
    gc = g(c)
    gd = g(d)
    for _ in range(iters):
        if gc > gd:
            b, d, gd = d, c, gc
            c = b - _GOLD * (b - a)
            gc = g(c)
        else:
            a, c, gc = c, d, gd
            d = a + _GOLD * (b - a)
            gd = g(d)
    return max(gc, gd, g(a), g(b))


def _sample_box(fns, M=None, n=2000):
    """Oracle bounding box of the union of curves t -> f(t), t in [0,1], optionally mapped by M: dense sampling
    (n points per curve) then golden-section refinement around the best sample of every curve for each side.
    Returns (xmin, ymin, xmax, ymax), per-curve boxes, and the largest |coordinate| seen."""
    boxes = []
    big = 0.0
    for f in fns:
        if M is not None:
            g0 = f
            f = (lambda ff: (lambda t: _apply(M, ff(t))))(g0)
        pts = [f(i / (n - 1.0)) for i in range(n)]
        sides = []
        for axis, sign in ((0, -1.0), (1, -1.0), (0, 1.0), (1, 1.0)):
            best_i = max(range(n), key=lambda i: sign * pts[i][axis])
            lo = max(best_i - 1, 0) / (n - 1.0)
            hi = min(best_i + 1, n - 1) / (n - 1.0)
            val = _golden_max(lambda t: sign * f(t)[axis], lo, hi)
            val = max(val, sign * pts[best_i][axis])
            sides.append(sign * val)
        boxes.append(tuple(sides))
        big = max(big, max(abs(v) for v in sides))
    if not boxes:
        return None, [], 0.0
    box = (min(b[0] for b in boxes), min(b[1] for b in boxes), max(b[2] for b in boxes), max(b[3] for b in boxes))
    return box, boxes, big


_CTOL = [1e-9]  # containment tolerance factor in force (set per case by _c08_eval; see _noisy_arcs)


def _noisy_arcs(obj):
    """Does the case contain an endpoint-form arc with lambda >= 1 - 1e-9 (radii scaled up / exactly sufficient)? Its centre
    is sqrt(rounding noise) ~ 1e-8 radii away from the exact one in ANY float implementation (see C05), so the oracle's
    arc and the library's arc legitimately differ by that much."""
    if isinstance(obj, dict):
        if obj.get("t") == "E":
            c = f65.endpoint_to_center(obj["s"][0], obj["s"][1], obj["rx"], obj["ry"], obj["rot"], obj["fa"], obj["fs"], obj["e"][0], obj["e"][1])
            return c["kind"] == "arc" and c["lam"] >= 1.0 - 1e-9
        return any(_noisy_arcs(v) for v in obj.values())
    if isinstance(obj, list):
        return any(_noisy_arcs(v) for v in obj)
    return False


def _judge_box(got, want, delta, S):
    """Classify a reported box against the oracle box grown by delta. Returns None or (class, text)."""
    if got is None:
        return ("missing", "bbox() returned None for a non-empty object")
    g = tuple(float(v) for v in got)
    if not all(math.isfinite(v) for v in g):
        return ("not-finite", "bbox()=%r" % (g,))
    if g[0] > g[2] or g[1] > g[3]:
        return ("unordered", "bbox()=%r has xmin>xmax or ymin>ymax; oracle %r" % (g, want))
    w = (want[0] - delta, want[1] - delta, want[2] + delta, want[3] + delta)
    inside = max(g[0] - w[0], g[1] - w[1], w[2] - g[2], w[3] - g[3])  # > 0: geometry sticks out of the reported box
    outside = max(w[0] - g[0], w[1] - g[1], g[2] - w[2], g[3] - w[3])  # > 0: reported box is loose
    if inside > _CTOL[0] * S or outside > 1e-6 * S:
        if delta == 0.0 or True:
            # a uniform offset on all four sides means only the stroke growth is wrong
            offs = (want[0] - g[0], want[1] - g[1], g[2] - want[2], g[3] - want[3])
            if max(offs) - min(offs) <= 1e-6 * S and abs(offs[0] - delta) > 1e-6 * S:
                return ("stroke-growth", "bbox()=%r grows the geometry box %r by %g on every side, expected %g" % (g, want, offs[0], delta))
        if inside > _CTOL[0] * S:
            # severity bucket: a miss below 1e-8 of the coordinate scale is cancellation in the extremum computation of a
            # small curve far from the origin (known finding); anything larger is a different failure and keeps the plain key
            cls = "not-containing" if inside > 1e-8 * S else "not-containing-below-1e-8-of-scale"
            return (cls, "bbox()=%r misses geometry by %g (oracle box %r grown by %g)" % (g, inside, want, delta))
        return ("not-tight", "bbox()=%r is loose by %g (oracle box %r grown by %g)" % (g, outside, want, delta))
    return None


def _stroke_delta(stroke, sw, M, transformed, with_stroke):
    if not with_stroke or stroke in (None, "none") or sw is None:
        return 0.0
    if transformed and M is not None:
        return sw * math.sqrt(abs(_det(M))) / 2.0
    return sw / 2.0


def _poly_desc(pts, closed):
    segs = [{"t": "M", "p": [list(pts[0])]}]
    for i in range(len(pts) - 1):
        segs.append({"t": "L", "p": [list(pts[i]), list(pts[i + 1])]})
    if closed:
        segs.append({"t": "Z", "p": [list(pts[-1]), list(pts[0])]})
    return segs


def _c08_obj_desc(o):
    """Segment descriptions of a leaf object (path or basic shape) in its own user space."""
    if o["obj"] == "path":
        return o["segs"]
    sh = o["shape"]
    if sh["type"] in ("Circle", "Ellipse", "Rect"):
        return _shape_desc(sh)
    if sh["type"] == "Polygon":
        return _poly_desc(sh["pts"], True)
    if sh["type"] == "Polyline":
        return _poly_desc(sh["pts"], False)
    if sh["type"] == "SimpleLine":
        return _poly_desc(sh["pts"], False)
    raise ValueError(sh["type"])


def _c08_build_leaf(mod, o):
    if o["obj"] == "path":
        x = _build_path(mod, o["segs"])
    else:
        sh = o["shape"]
        if sh["type"] in ("Circle", "Ellipse", "Rect"):
            x = _build_shape(mod, sh)
        elif sh["type"] == "Polygon":
            x = mod.Polygon(*[tuple(p) for p in sh["pts"]])
        elif sh["type"] == "Polyline":
            x = mod.Polyline(*[tuple(p) for p in sh["pts"]])
        else:
            x = mod.SimpleLine(sh["pts"][0][0], sh["pts"][0][1], sh["pts"][1][0], sh["pts"][1][1])
    st = o.get("stroke")
    x.stroke = None if st is None else mod.Color(st)
    x.stroke_width = o.get("sw")
    if o.get("M") is not None:
        x *= mod.Matrix(*o["M"])
    return x


def _drawn_fns(descs):
    return [_seg_fn(d) for d in descs]


def _leaf_oracle(o, transformed, with_stroke, extraM=None, n=2000):
    """Oracle box (already grown by the stroke) of a leaf; extraM is applied after the leaf's own matrix."""
    M = o.get("M")
    if extraM is not None:
        M = _compose(M, extraM) if M is not None else list(extraM)
    use = M if transformed else None
    box, boxes, big = _sample_box(_drawn_fns(_c08_obj_desc(o)), use, n)
    delta = _stroke_delta(o.get("stroke"), o.get("sw"), M, transformed, with_stroke)
    return box, boxes, big, delta


def _culprit(d):
    if d["t"] == "E":
        c = f65.endpoint_to_center(d["s"][0], d["s"][1], d["rx"], d["ry"], d["rot"], d["fa"], d["fs"], d["e"][0], d["e"][1])
        if c["kind"] == "line":
            return "zero-radius-arc"
        if c["kind"] == "empty":
            return "coincident-endpoint-arc"
        return "Arc"
    return _KIND_CLASS.get(d["t"], d["t"])


def _use_doc(o):
    leaf = o["ref"]
    st = leaf.get("stroke")
    attrs = ""
    if st is not None:
        attrs += ' stroke="%s"' % st
    if leaf.get("sw") is not None:
        attrs += ' stroke-width="%s"' % _fmt(leaf["sw"])
    if leaf["obj"] == "path":
        parts = []
        for d in leaf["segs"]:
            if d["t"] == "M":
                parts.append("M %s,%s" % (_fmt(d["p"][0][0]), _fmt(d["p"][0][1])))
            elif d["t"] == "Z":
                parts.append("Z")
            elif d["t"] in ("L", "Q", "C"):
                parts.append(d["t"] + " " + " ".join("%s,%s" % (_fmt(p[0]), _fmt(p[1])) for p in d["p"][1:]))
            elif d["t"] == "E":
                parts.append("A %s %s %s %d %d %s,%s" % (_fmt(d["rx"]), _fmt(d["ry"]), _fmt(d["rot"]), d["fa"], d["fs"],
                                                        _fmt(d["e"][0]), _fmt(d["e"][1])))
            else:
                raise ValueError(d["t"])
        el = '<path id="r" d="%s"%s/>' % (" ".join(parts), attrs)
    else:
        sh = leaf["shape"]
        if sh["type"] == "Circle":
            el = '<circle id="r" cx="%s" cy="%s" r="%s"%s/>' % (_fmt(sh["cx"]), _fmt(sh["cy"]), _fmt(sh["r"]), attrs)
        elif sh["type"] == "Ellipse":
            el = '<ellipse id="r" cx="%s" cy="%s" rx="%s" ry="%s"%s/>' % (_fmt(sh["cx"]), _fmt(sh["cy"]), _fmt(sh["rx"]), _fmt(sh["ry"]), attrs)
        else:
            el = '<rect id="r" x="%s" y="%s" width="%s" height="%s" rx="%s" ry="%s"%s/>' % (
                _fmt(sh["x"]), _fmt(sh["y"]), _fmt(sh["w"]), _fmt(sh["h"]), _fmt(sh["rx"]), _fmt(sh["ry"]), attrs)
    um = "matrix(%s)" % ",".join(_fmt(v) for v in o["UM"])
    gm = "matrix(%s)" % ",".join(_fmt(v) for v in o["GM"])
    return ('<svg xmlns="http://www.w3.org/2000/svg"><defs>%s</defs><g transform="%s"><use href="#r" x="%s" y="%s" '
            'transform="%s"/></g></svg>' % (el, gm, _fmt(o["x"]), _fmt(o["y"]), um))


def _c08_eval(mod, case):
    _CTOL[0] = 1e-7 if _noisy_arcs(case) else 1e-9
    obj = case["obj"]
    tr = bool(case.get("transformed", True))
    ws = bool(case.get("with_stroke", False))
    n = int(case.get("n", 2000))
    fails = []

    def fail(cls, culprit, text, want, extra=""):
        fails.append({"key": "bbox-%s:%s" % (cls, culprit), "prop": "C08",
                      "expected": "box containing the geometry within 1e-9*S, tight within 1e-6*S, ordered; oracle %r" % (want,),
                      "got": text,
                      "explanation": "bounding box of %s is %s%s" % (culprit, cls, extra)})

    if obj == "segment":
        d = case["seg"]
        try:
            seg = _build_seg(mod, d)
            got = seg.bbox()
        except Exception as ex:
            return [_exc_fail("segment-bbox-%s" % _culprit(d), ex, "C08")]
        box, _, big = _sample_box([_seg_fn(d)], None, n)
        S = max(big, 1e-300)
        j = _judge_box(got, box, 0.0, S)
        if j:
            fail(j[0], _culprit(d), j[1], box)
        return fails

    if obj in ("path", "shape"):
        try:
            x = _c08_build_leaf(mod, case)
            target = x
            sub = case.get("sub")
            if sub is not None:
                target = x.subpath(sub)
            got = target.bbox(transformed=tr, with_stroke=ws)
            per = None
            if obj == "path" and sub is None:
                per = [tuple(float(v) for v in s.bbox()) for s in x.segments(transformed=tr)]
        except Exception as ex:
            return [_exc_fail("%s-bbox" % (obj if case.get("sub") is None else "subpath"), ex, "C08")]
        o = dict(case)
        descs = _c08_obj_desc(case)
        if case.get("sub") is not None:
            descs = _split_subpaths(descs)[case["sub"]]
            o = dict(case)
            o["obj"] = "path"
            o["segs"] = descs
        box, boxes, big, delta = _leaf_oracle(o, tr, ws, None, n)
        S = max(big + delta, 1e-300)
        j = _judge_box(got, box, delta, S)
        if j:
            culprit = None
            if j[0] == "stroke-growth":
                culprit = "stroke"
            elif per is not None and len(per) == len(boxes):
                for d, pb, ob in zip(descs, per, boxes):
                    if _judge_box(pb, ob, 0.0, S):
                        culprit = _culprit(d)
                        break
                if culprit is None:
                    culprit = "path-union"
            elif obj == "shape":
                culprit = case["shape"]["type"] + ("-transformed" if (tr and case.get("M") is not None) else "")
                if case["shape"]["type"] in ("Circle", "Ellipse"):
                    culprit = "roundshape" + ("-transformed" if (tr and case.get("M") is not None) else "")
            else:
                culprit = "subpath"
            fail(j[0], culprit, j[1], box, " (transformed=%r with_stroke=%r stroke delta %g)" % (tr, ws, delta))
        return fails

    if obj == "group":
        try:
            def build(node):
                if node["obj"] == "group":
                    g = mod.Group()
                    for ch in node["children"]:
                        g.append(build(ch))
                    if node.get("GM") is not None:
                        g *= mod.Matrix(*node["GM"])
                    return g
                return _c08_build_leaf(mod, node)

            g = build(case)
            got = g.bbox(transformed=tr, with_stroke=ws)
            kid_boxes = []

            def leaves(grp):
                for e in grp:
                    if isinstance(e, mod.Group):
                        for z in leaves(e):
                            yield z
                    else:
                        yield e

            for e in leaves(g):
                kid_boxes.append(e.bbox(transformed=tr, with_stroke=ws))
        except Exception as ex:
            return [_exc_fail("group-bbox", ex, "C08")]
        # oracle: union over leaves, each under its own matrix followed by the matrices of the enclosing groups
        wants = []

        def walk(node, outer):
            if node["obj"] == "group":
                gm = node.get("GM")
                o2 = outer if gm is None else (_compose(gm, outer) if outer is not None else list(gm))
                for ch in node["children"]:
                    walk(ch, o2)
            else:
                box, _, big, delta = _leaf_oracle(node, tr, ws, outer, n)
                wants.append((box, big, delta))

        walk(case, None)
        S = max(max(b[1] + b[2] for b in wants), 1e-300)
        union = (min(b[0][0] - b[2] for b in wants), min(b[0][1] - b[2] for b in wants),
                 max(b[0][2] + b[2] for b in wants), max(b[0][3] + b[2] for b in wants))
        j = _judge_box(got, union, 0.0, S)
        if j:
            # is it only the union that is wrong, or a child?
            kids_ok = all(k is not None and _judge_box(k, w[0], w[2], S) is None for k, w in zip(kid_boxes, wants))
            lib_union = None
            if all(k is not None for k in kid_boxes):
                lib_union = (min(k[0] for k in kid_boxes), min(k[1] for k in kid_boxes), max(k[2] for k in kid_boxes), max(k[3] for k in kid_boxes))
            culprit = "group-union" if kids_ok or (lib_union is not None and tuple(got) != lib_union) else "group-child"
            fail(j[0], culprit, j[1], union, " (transformed=%r with_stroke=%r)" % (tr, ws))
        return fails

    if obj == "use":
        import io
        try:
            svg = mod.SVG.parse(io.StringIO(_use_doc(case)), reify=bool(case.get("reify", False)))
            uses = list(svg.select(lambda e: isinstance(e, mod.Use)))
            if len(uses) != 1:
                return [{"key": "use-not-parsed", "prop": "C08", "expected": "one Use", "got": len(uses), "explanation": "document with one <use>"}]
            got = uses[0].bbox(transformed=tr, with_stroke=ws)
        except Exception as ex:
            return [_exc_fail("use-bbox", ex, "C08")]
        total = _compose(_compose([1.0, 0.0, 0.0, 1.0, case["x"], case["y"]], case["UM"]), case["GM"])
        leaf = dict(case["ref"])
        if leaf.get("sw") is None:
            leaf["sw"] = 1.0  # SVG initial value of stroke-width
        leaf["M"] = total
        if case.get("reify", False):
            # reified children carry their geometry in document space: 'untransformed' is the same space
            box, _, big, _ = _leaf_oracle(leaf, True, ws, None, n)
            delta = _stroke_delta(leaf.get("stroke"), leaf.get("sw"), total, True, ws)
        else:
            box, _, big, delta = _leaf_oracle(leaf, tr, ws, None, n)
        S = max(big + delta, 1e-300)
        j = _judge_box(got, box, delta, S)
        if j:
            culprit = "use"
            if leaf["obj"] == "shape" and leaf["shape"]["type"] in ("Circle", "Ellipse") and tr:
                culprit = "roundshape-transformed"
            fail(j[0], culprit, j[1], box, " (transformed=%r with_stroke=%r reify=%r)" % (tr, ws, case.get("reify", False)))
        return fails
    raise ValueError(obj)


def _c08_shrink(case):
    if case.get("n", 2000) > 400:
        pass
    if case["obj"] == "group":
        ch = case["children"]
        if len(ch) > 1:
            for i in range(len(ch)):
                c = dict(case)
                c["children"] = ch[:i] + ch[i + 1:]
                yield c
        if len(ch) == 1 and ch[0]["obj"] != "group" and case.get("GM") is None:
            c = dict(ch[0])
            c["transformed"] = case.get("transformed", True)
            c["with_stroke"] = case.get("with_stroke", False)
            yield c
        if case.get("GM") is not None:
            c = dict(case)
            c["GM"] = None
            yield c
    if case["obj"] == "path":
        subs = _split_subpaths(case["segs"])
        if len(subs) > 1 and case.get("sub") is None:
            for i in range(len(subs)):
                c = dict(case)
                c["segs"] = [d for k, sp in enumerate(subs) if k != i for d in sp]
                yield c
        # drop one drawn segment, reconnecting the next one
        segs = case["segs"]
        for i, d in enumerate(segs):
            if d["t"] in ("L", "Q", "C", "E", "A") and len([x for x in segs if x["t"] not in ("M", "Z")]) > 1:
                prev_end = list(_seg_start(d))
                rest = [dict(x) for x in segs[i + 1:]]
                if rest and rest[0]["t"] in ("L", "Q", "C", "Z"):
                    rest[0]["p"] = [prev_end] + rest[0]["p"][1:]
                elif rest and rest[0]["t"] == "E":
                    rest[0]["s"] = prev_end
                elif rest and rest[0]["t"] == "A":
                    continue
                c = dict(case)
                c["segs"] = segs[:i] + rest
                yield c
        if len(segs) == 2 and segs[0]["t"] == "M" and case.get("M") is None and not case.get("with_stroke") and case.get("sub") is None:
            yield {"obj": "segment", "seg": segs[1]}
    if case["obj"] in ("path", "shape"):
        if case.get("M") is not None:
            c = dict(case)
            c["M"] = None
            yield c
            m = case["M"]
            for simple in ([m[0], m[1], m[2], m[3], 0.0, 0.0], [1.0, 0.0, m[2], 1.0, 0.0, 0.0], [m[0], 0.0, 0.0, m[3], 0.0, 0.0],
                           [1.0, 0.0, 1.0, 1.0, 0.0, 0.0], [2.0, 0.0, 0.0, 2.0, 0.0, 0.0]):
                if simple != m and abs(_det(simple)) > 1e-12:
                    c = dict(case)
                    c["M"] = simple
                    yield c
        if case.get("with_stroke") and case.get("stroke") not in (None, "none"):
            pass
        elif case.get("stroke") is not None or case.get("sw") is not None:
            c = dict(case)
            c["stroke"] = None
            c["sw"] = None
            yield c
    if case["obj"] == "use":
        for name in ("UM", "GM"):
            if case[name] != [1.0, 0.0, 0.0, 1.0, 0.0, 0.0]:
                c = dict(case)
                c[name] = [1.0, 0.0, 0.0, 1.0, 0.0, 0.0]
                yield c


def _count_extrema(vals):
    """Number of interior stationary points of a 1-D Bezier with the given control values."""
    if len(vals) == 3:
        den = vals[0] - 2 * vals[1] + vals[2]
        if den == 0:
            return 0
        t = (vals[0] - vals[1]) / den
        return 1 if 0 < t < 1 else 0
    a = -vals[0] + 3 * vals[1] - 3 * vals[2] + vals[3]
    b = 2 * (vals[0] - 2 * vals[1] + vals[2])
    c = vals[1] - vals[0]
    return len([t for t in f65._quadratic_roots(a, b, c) if 0 < t < 1])


def _power_cubic(x0, c1, c2, c3):
    """Bezier control values of x0 + c1 t + c2 t^2 + c3 t^3."""
    return [x0, x0 + c1 / 3.0, x0 + 2 * c1 / 3.0 + c2 / 3.0, x0 + c1 + c2 + c3]


def _c08_cases(tier, rng):
    q = tier == "quick"
    # ---- Beziers with 0/1/2 interior extrema per axis
    want = {}
    target = 6 if q else 30
    tries = 0
    while tries < 4000:
        tries += 1
        kind = rng.choice("QC")
        sc = 10.0 ** rng.uniform(-3, 5)
        o = [_coord(rng), _coord(rng)] if rng.random() < 0.5 else [0.0, 0.0]
        d = _rand_seg(rng, kind, _near(rng, o, sc), sc)
        cls = (kind, _count_extrema([p[0] for p in d["p"]]), _count_extrema([p[1] for p in d["p"]]))
        if want.get(cls, 0) < target:
            want[cls] = want.get(cls, 0) + 1
            yield {"obj": "segment", "seg": d, "_class": "bezier-extrema-%s-%d-%d" % cls}
        if len(want) >= 4 + 9 and all(v >= target for v in want.values()):
            break
    # ---- axis-degenerate and repeated control points
    for kind in "QC":
        for _ in range(4 if q else 20):
            sc = 10.0 ** rng.uniform(-3, 5)
            d = _rand_seg(rng, kind, _rand_pt(rng), sc)
            ax = rng.choice((0, 1))
            for p in d["p"]:
                p[ax] = d["p"][0][ax]
            yield {"obj": "segment", "seg": d, "_class": "axis-degenerate-" + kind}
            d2 = _rand_seg(rng, kind, _rand_pt(rng), sc)
            d2["p"][1] = list(d2["p"][0])
            yield {"obj": "segment", "seg": d2, "_class": "coincident-control-" + kind}
    # ---- near-linear cubics: cubic coefficient ~1e-9 (below the library's 1e-8 switch) in one or both axes
    for _ in range(16 if q else 80):
        vals = []
        for ax in (0, 1):
            x0 = rng.choice((0.0, 1.0, -2.5, 100.0))
            if rng.random() < 0.7:
                c3 = rng.choice((-1.0, 1.0)) * rng.choice((1e-9, 3e-9, 9e-9, 1e-10))
                c2 = rng.choice((0.0, 0.0, 2.0, -0.75, 1e-9, -4e-9))
                c1 = rng.choice((1.0, -1.0, 0.5, 0.0, 1e-9, -2e-9, 1.5e-9))
            else:
                c3, c2, c1 = rng.uniform(-5, 5), rng.uniform(-5, 5), rng.uniform(-5, 5)
            vals.append(_power_cubic(x0, c1, c2, c3))
        d = {"t": "C", "p": [[vals[0][i], vals[1][i]] for i in range(4)]}
        if max(abs(v) for pt_ in d["p"] for v in pt_) < 1e-3:
            continue  # the whole curve is microscopic: outside the quantified range (0 or 1e-3 .. 1e5)
        yield {"obj": "segment", "seg": d, "_class": "near-linear-cubic"}
    # ---- arcs: centre form, any rotation, extents from tiny to beyond a full turn
    rots = (0.0, 90.0, 180.0, 270.0, -90.0, 30.0, 45.0, 123.4, -200.0)
    exts = (1e-6, 1e-3, 0.1, 1.0, math.pi / 2, math.pi, 3.0, TAU - 1e-3, TAU, 7.0, 2 * TAU + 1.0, 15.0)
    for rot in rots:
        for ext in exts:
            for _ in range(1 if q else 4):
                r = 10.0 ** rng.uniform(-3, 5)
                ratio = rng.choice((1.0, 2.0, 0.5, 100.0, 0.01, 7.3))
                c = [_coord(rng), _coord(rng)] if rng.random() < 0.6 else [0.0, 0.0]
                yield {"obj": "segment", "_class": "arc-centre-form",
                       "seg": {"t": "A", "c": c, "rx": _sig(r, 4), "ry": _sig(r * ratio, 4), "phi": rot,
                               "th": rng.choice((0.0, math.pi / 2, -math.pi, _sig(rng.uniform(-math.pi, math.pi), 4))),
                               "dth": ext * rng.choice((-1.0, 1.0))}}
    # ---- zero-extent arcs and endpoint-form arcs
    for _ in range(4 if q else 20):
        c = _rand_pt(rng)
        yield {"obj": "segment", "_class": "arc-zero-extent",
               "seg": {"t": "A", "c": c, "rx": 2.0, "ry": 1.0, "phi": rng.choice(rots), "th": _sig(rng.uniform(-3, 3), 3), "dth": 0.0}}
    for _ in range(12 if q else 60):
        s = _rand_pt(rng)
        sc = 10.0 ** rng.uniform(-3, 5)
        d = _rand_seg(rng, "A", s, sc)
        yield {"obj": "segment", "seg": d, "_class": "arc-endpoint-form"}
    for s, e in (([10.0, 0.0], [0.0, 5.0]), ([0.0, 0.0], [3.0, 4.0]), ([1.0, 1.0], [-2.0, 7.0]), ([5.0, 5.0], [5.0, 5.0])):
        for rx, ry in ((0.0, 5.0), (5.0, 0.0), (0.0, 0.0)):
            yield {"obj": "segment", "_class": "arc-zero-radius",
                   "seg": {"t": "E", "s": s, "e": e, "rx": rx, "ry": ry, "rot": 0.0, "fa": 0, "fs": 1}}
    for d in ({"t": "L", "p": [[0.0, 0.0], [0.0, 0.0]]}, {"t": "L", "p": [[3.0, -1.0], [-1e5, 2e-3]]}):
        yield {"obj": "segment", "seg": d, "_class": "line"}
    # ---- paths under transforms, with stroke, subpaths
    ms = _matrices40()
    strokes = (("black", 2.0), ("none", 3.0), (None, 1.5), ("#f00", 0.5), ("blue", None), ("black", 0.0))
    for i in range(30 if q else 200):
        segs = _rand_path(rng, max_seg=3)
        st = strokes[i % len(strokes)]
        M = None if i % 5 == 0 else ms[(i * 7) % len(ms)]
        for tr in (True, False):
            for ws in (True, False):
                yield {"obj": "path", "segs": segs, "M": M, "stroke": st[0], "sw": st[1], "transformed": tr, "with_stroke": ws,
                       "n": 2000, "_class": "path"}
        subs = _split_subpaths(segs)
        if len(subs) > 1:
            k = rng.randrange(len(subs))
            yield {"obj": "path", "segs": segs, "M": M, "stroke": st[0], "sw": st[1], "transformed": bool(i % 2), "with_stroke": bool(i % 3),
                   "sub": k, "n": 2000, "_class": "subpath"}
    # a path with an arc beyond a full turn in the middle
    for i in range(4 if q else 16):
        a = {"t": "A", "c": [0.0, 0.0], "rx": 3.0, "ry": 1.0, "phi": rng.choice(rots), "th": 0.5, "dth": rng.choice((7.0, -9.0, 13.0))}
        s = list(_seg_start(a))
        e = list(_seg_end(a))
        segs = [{"t": "M", "p": [[s[0] - 1.0, s[1]]]}, {"t": "L", "p": [[s[0] - 1.0, s[1]], s]}, a, {"t": "Q", "p": [e, [e[0], e[1] + 2.0], [e[0] + 1.0, e[1]]]}]
        yield {"obj": "path", "segs": segs, "M": ms[(i * 11 + 3) % len(ms)], "stroke": "black", "sw": 1.0, "transformed": True,
               "with_stroke": bool(i % 2), "n": 2000, "_class": "path-long-arc"}
    # ---- shapes
    shapes = [{"type": "Circle", "cx": 1.0, "cy": 2.0, "r": 3.0}, {"type": "Ellipse", "cx": 1.0, "cy": 2.0, "rx": 3.0, "ry": 4.0},
              {"type": "Ellipse", "cx": -50.0, "cy": 1e4, "rx": 200.0, "ry": 2.0},
              {"type": "Rect", "x": 0.0, "y": 0.0, "w": 10.0, "h": 5.0, "rx": 2.0, "ry": 1.0},
              {"type": "Rect", "x": 1.0, "y": 1.0, "w": 3.0, "h": 2.0, "rx": 0.0, "ry": 0.0},
              {"type": "Polygon", "pts": [[0.0, 0.0], [10.0, 0.0], [5.0, 5.0]]},
              {"type": "Polyline", "pts": [[0.0, 0.0], [-1e3, 2.0], [5.0, 5e-3], [1.0, 1.0]]},
              {"type": "SimpleLine", "pts": [[0.0, 1.0], [5.0, 6.0]]}]
    for si, sh in enumerate(shapes):
        for mi in range(0, 40, 5 if q else 1):
            M = ms[(mi + si) % 40]
            st = strokes[(mi + si) % len(strokes)]
            for tr in (True, False):
                for ws in (True, False):
                    yield {"obj": "shape", "shape": sh, "M": M, "stroke": st[0], "sw": st[1], "transformed": tr, "with_stroke": ws,
                           "n": 2000, "_class": "shape-" + sh["type"]}
        yield {"obj": "shape", "shape": sh, "M": None, "stroke": "black", "sw": 2.0, "transformed": True, "with_stroke": True, "n": 2000,
               "_class": "shape-" + sh["type"]}
        # rotation then anisotropic scale (orthogonal rows, non-orthogonal columns) and the opposite order
        for ang, (sx, sy) in ((30.0, (2.0, 1.0)), (45.0, (1.0, 4.0)), (-50.0, (-2.0, 0.5))):
            sc = [sx, 0.0, 0.0, sy, 0.0, 0.0]
            for M in (_compose(_rot(ang), sc), _compose(sc, _rot(ang))):
                yield {"obj": "shape", "shape": sh, "M": list(M), "stroke": "black", "sw": 1.0, "transformed": True,
                       "with_stroke": False, "n": 2000, "_class": "shape-" + sh["type"]}
    # ---- groups (one nesting level) and use
    for i in range(8 if q else 40):
        kids = []
        for k in range(rng.randint(1, 3)):
            st = strokes[(i + k) % len(strokes)]
            if rng.random() < 0.6:
                kids.append({"obj": "path", "segs": _rand_path(rng, n_sub=1, max_seg=2, scale=10.0 ** rng.uniform(-1, 2)),
                             "M": rng.choice(ms + [None]), "stroke": st[0], "sw": st[1]})
            else:
                kids.append({"obj": "shape", "shape": rng.choice(shapes[3:]), "M": rng.choice(ms + [None]), "stroke": st[0], "sw": st[1]})
        if i % 3 == 0:
            kids = [{"obj": "group", "children": kids[:1], "GM": rng.choice(ms)}] + kids[1:]
        for tr, ws in ((True, False), (True, True), (False, False), (False, True)):
            yield {"obj": "group", "children": kids, "GM": rng.choice(ms + [None]) if i % 2 else None, "transformed": tr,
                   "with_stroke": ws, "n": 1000, "_class": "group"}
    refs = [{"obj": "path", "segs": [{"t": "M", "p": [[0.0, 0.0]]}, {"t": "L", "p": [[0.0, 0.0], [10.0, 0.0]]},
                                     {"t": "Q", "p": [[10.0, 0.0], [15.0, 5.0], [10.0, 10.0]]}], "stroke": "black", "sw": 2.0},
            {"obj": "shape", "shape": shapes[3], "stroke": "red", "sw": None},
            {"obj": "shape", "shape": shapes[1], "stroke": None, "sw": 3.0},
            {"obj": "path", "segs": [{"t": "M", "p": [[1.0, 1.0]]}, {"t": "E", "s": [1.0, 1.0], "e": [4.0, 3.0], "rx": 3.0, "ry": 2.0, "rot": 20.0, "fa": 1, "fs": 0}],
             "stroke": "none", "sw": 2.0}]
    for i, ref in enumerate(refs):
        for k in range(2 if q else 8):
            UM = ms[(i * 9 + k * 5) % 40]
            GM = ms[(i * 3 + k * 11 + 1) % 40]
            for tr, ws, rf in ((True, True, False), (True, False, True), (False, True, False)):
                yield {"obj": "use", "ref": ref, "x": rng.choice((0.0, 10.0, -2.5)), "y": rng.choice((0.0, 5.0)), "UM": UM, "GM": GM,
                       "transformed": tr, "with_stroke": ws, "reify": rf, "n": 1000, "_class": "use"}


_c08_replay = _make_replay(_c08_eval)


@bounded("C08/bbox", props=["C08"], replay=_c08_replay)
def c08_bbox(mod, tier, seed):
    t0 = time.time()
    rng = random.Random(seed)
    col = _Collector(mod, _c08_eval, _c08_shrink)
    classes = {}
    samples = []
    for case in _c08_cases(tier, rng):
        cls = case.pop("_class", case["obj"])
        classes[cls] = classes.get(cls, 0) + 1
        col.run_case(case)
        if len(samples) < 6 and col.evaluations % 61 == 1:
            samples.append(case)
    return _finish(
        col, tier,
        rule="segments: quadratic/cubic Beziers binned by the number of interior extrema per axis (0/1 resp. 0/1/2), axis-degenerate, "
             "coincident controls, near-linear cubics (cubic coefficient 1e-10..9e-9), centre-form arcs (rotations incl. multiples of 90, "
             "extents 1e-6 .. 15 rad in both directions, radii ratio 0.01..100, coordinates 0 or 10^[-3,5]), zero-extent, endpoint-form and "
             "zero-radius arcs; paths (1-3 subpaths, 1-3 segments each) and one subpath view under the 40 matrices, 6 stroke settings, "
             "transformed x with_stroke; basic shapes; groups (one nesting level); <use> through SVG.parse. Oracle: >=2000 samples per "
             "segment (1000 inside groups/use) + golden-section refinement per side. distinct = every generated case (random "
             "coordinates); non-trivial = all but the single-point lines; classes: %s" % (sorted(classes.items()),),
        bound="containment 1e-9*S (1e-7*S when the object contains an endpoint-form arc with lambda >= 1-1e-9, whose centre is only "
              "determined to sqrt(eps)), tightness 1e-6*S (S = largest |coordinate| of the sampled geometry + stroke), stroke growth = "
              "stroke_width*sqrt(|det|)/2 (transformed) or stroke_width/2, only when stroke is a paint; quick sizes as in classes",
        distinct=col.evaluations - 1, samples=samples, t0=t0)


# =====================================================================================================================
# (3) C15/length_and_point
# =====================================================================================================================
# Stated tolerance: |length(error=e) - true| <= 10*e + 1e-9*true.  The factor 10 absorbs any reasonable reading of
# "within the requested error" (per-call constant factors); 1e-9*true absorbs float rounding of closed forms.
def _len_tol(e, true):
    return 10.0 * e + 1e-9 * true


def _desc_kind(d):
    if d["t"] in ("A", "E"):
        if d["t"] == "E":
            c = f65.endpoint_to_center(d["s"][0], d["s"][1], d["rx"], d["ry"], d["rot"], d["fa"], d["fs"], d["e"][0], d["e"][1])
            if c["kind"] != "arc":
                return "zero-radius-arc" if c["kind"] == "line" else "coincident-endpoint-arc"
            circ = abs(c["rx"] - c["ry"]) <= 1e-12 * max(c["rx"], c["ry"])
        else:
            circ = d["rx"] == d["ry"]
        return "Arc"
    return _KIND_CLASS[d["t"]]


def _map_desc(d, M):
    """Image of a segment description under a similarity M (rotation/reflection/uniform scale/translation)."""
    t = d["t"]
    if t in ("L", "Z", "Q", "C", "M"):
        return {"t": t, "p": [list(_apply(M, p)) for p in d["p"]]}
    raise ValueError("only polynomial segments are mapped symbolically")


_C15_NOTES = {
    "CubicBezier": "(Without scipy the length is the recursive chord refinement PathSegment.segment_length: `error` is compared with the gain of "
                   "ONE bisection step, not with the total, so the total error grows with the number of leaves, roughly like (length/error)^(1/3) "
                   "* error: tens of times the requested error at length/error = 1e7, ~2000 times at 1e11.)",
    "Arc": "(Without scipy a non-circular arc - or a circle whose |rx-ry| exceeds the absolute 1e-12 test after rounding - is measured by the "
           "recursive chord refinement PathSegment.segment_length: `error` is compared with the gain of ONE bisection step, not with the total, "
           "so the total error grows roughly like (length/error)^(1/3) * error.)",
    "QuadraticBezier": "(The closed form divides by powers of |start - 2*control + end|; when the control point is (almost) the midpoint of the "
                       "chord that quantity is rounding noise instead of 0 and the formula loses most digits; only the exact-zero case is "
                       "caught by the ZeroDivisionError fallback. `error` is ignored.)",
}
_C15_SIMS = (("rotate37", _rot(37.0)), ("translate", [1.0, 0.0, 0.0, 1.0, 12.5, -3.25]),
             ("reflect", [1.0, 0.0, 0.0, -1.0, 0.0, 0.0]),
             ("rotate-reflect-translate", _compose(_compose(_rot(-112.0), [-1.0, 0.0, 0.0, 1.0, 0.0, 0.0]), [1.0, 0.0, 0.0, 1.0, -7.0, 2.0])))
_C15_SCALES = (0.5, -3.0, 40.0)


def _c15_segment(mod, case):
    d = case["seg"]
    e = case["e"]
    kind = _desc_kind(d)
    fails = []
    true = _seg_length(d)
    S = max(_seg_scale(d), 1e-300)
    try:
        seg = _build_seg(mod, d)
        L = float(seg.length(error=e))
        p0 = _xy(seg.point(0.0))
        p1 = _xy(seg.point(1.0))
    except Exception as ex:
        return [_exc_fail("segment-length-%s" % kind, ex, "C15")]
    if abs(L - true) > _len_tol(e, true):
        # severity bucket: the known defect (error semantics of the chord subdivision / quadratic closed form) stays
        # below 2e-3 relative; anything grosser is a different failure and gets its own key
        _bucket = "[rel<=2e-3]" if (true and abs(L - true) / true <= 2e-3) else "[gross]"
        fails.append({"key": "length-accuracy:%s%s" % (kind, _bucket), "prop": "C15",
                      "expected": "length(error=%g) == %r within 10*error + 1e-9*length = %g" % (e, true, _len_tol(e, true)),
                      "got": "%r (off by %g = %.3g x requested error, %.3g relative)" % (L, L - true, abs(L - true) / e, abs(L - true) / true if true else float("inf")),
                      "explanation": "the reported length differs from the arc length (Gauss-Legendre quadrature of the speed) by more "
                                     "than the requested error. " + _C15_NOTES.get(kind, "")})
    if _dist(p0, _seg_start(d)) > 1e-12 * S or _dist(p1, _seg_end(d)) > 1e-12 * S:
        fails.append({"key": "segment-point-endpoints:%s" % kind, "prop": "C15", "expected": "point(0)=%r point(1)=%r" % (_seg_start(d), _seg_end(d)),
                      "got": "%r %r" % (p0, p1), "explanation": "point(0) is the first and point(1) the last point"})
    if case.get("ops", True):
        try:
            acc = []
            inv = []
            variants = [(name, mod.Matrix(*M), 1.0) for name, M in _C15_SIMS]
            for sc in _C15_SCALES:
                if S * abs(sc) / e <= case.get("cap", 1e7) * 10:
                    variants.append(("scale %g" % sc, mod.Matrix(sc, 0.0, 0.0, sc, 0.0, 0.0), abs(sc)))
            for name, M, k in variants:
                LM = float((seg * M).length(error=e))
                if abs(LM - k * true) > _len_tol(e, k * true):
                    acc.append("%s: %r vs %r (off by %.3g x error, %.3g relative)" % (name, LM, k * true, abs(LM - k * true) / e,
                                                                                      abs(LM - k * true) / (k * true) if true else float("inf")))
                elif k == 1.0 and abs(LM - L) > 2e-9 * max(L, true) + 2 * 10.0 * e:
                    inv.append("%s: %r vs %r" % (name, LM, L))
            r = seg * mod.Matrix()
            r.reverse()
            LR = float(r.length(error=e))
            if abs(LR - true) > _len_tol(e, true):
                acc.append("reversed: %r vs %r" % (LR, true))
            elif abs(LR - L) > 2e-9 * max(L, true) + 2 * 10.0 * e:
                inv.append("reverse: %r vs %r" % (LR, L))
            if acc and abs(L - true) <= _len_tol(e, true):
                fails.append({"key": "length-accuracy:%s" % kind, "prop": "C15",
                              "expected": "length(error=%g) of the rotated/translated/reflected/reversed copy == %r and of the copy scaled by s == |s| * "
                                          "that, within 10*error + 1e-9*length" % (e, true),
                              "got": "; ".join(acc),
                              "explanation": "the segment itself met the tolerance but an isometric / uniformly scaled / reversed copy of it does "
                                             "not: its reported length differs from the true arc length by more than the requested error. "
                                             + _C15_NOTES.get(kind, "")})
            if inv and abs(L - true) <= _len_tol(e, true):
                # (when the segment's own length already misses the tolerance - reported above under its accuracy key - a
                # copy that is measured accurately necessarily differs from it: a consequence, not a second failure)
                fails.append({"key": "length-invariance:%s" % kind, "prop": "C15", "expected": "length unchanged by rotation, translation, reflection, reversal (2e-9 relative + 20*error: twice the accuracy tolerance)",
                              "got": "; ".join(inv), "explanation": "isometries and reversal must not change the length"})
        except Exception as ex:
            fails.append(_exc_fail("segment-length-transformed-%s" % kind, ex, "C15"))
    return fails


def _c15_descs(case):
    if case["obj"] == "path":
        return case["segs"]
    return _c08_obj_desc(case)


def _c15_path(mod, case):
    descs = _c15_descs(case)
    e = case["e"]
    fails = []
    what = "path" if case["obj"] == "path" else case["shape"]["type"]
    try:
        if case["obj"] == "path":
            x = _build_path(mod, descs)
        else:
            x = _c08_build_leaf(mod, {"obj": "shape", "shape": case["shape"]})
        L = float(x.length(error=e))
        segs = list(x.segments(False))
        lens = [float(s.length(error=e)) for s in segs]
    except Exception as ex:
        return [_exc_fail("%s-length" % what, ex, "C15")]
    if [type(s).__name__ for s in segs] != [_KIND_CLASS[d["t"]] if d["t"] != "E" else "Arc" for d in descs]:
        return [{"key": "%s-decomposition" % what, "prop": "C15", "expected": [d["t"] for d in descs], "got": [type(s).__name__ for s in segs],
                 "explanation": "the object does not decompose into the expected segments"}]
    trues = [_seg_length(d) for d in descs]
    total = math.fsum(trues)
    S = max(max(_seg_scale(d) for d in descs), 1e-300)
    # additivity, moves contribute nothing
    if abs(L - math.fsum(lens)) > 1e-12 * max(L, total) + 1e-300:
        fails.append({"key": "%s-length-not-additive" % what, "prop": "C15", "expected": "sum of segment lengths %r" % math.fsum(lens), "got": L,
                      "explanation": "the length of a path is the sum of its segments' lengths"})
    for d, ln in zip(descs, lens):
        if d["t"] == "M" and ln != 0:
            fails.append({"key": "move-has-length", "prop": "C15", "expected": 0, "got": ln, "explanation": "moves contribute nothing"})
    seg_ok = all(abs(a - b) <= _len_tol(e, b) for a, b in zip(lens, trues))
    n_drawn = len([d for d in descs if d["t"] != "M"])
    if seg_ok and abs(L - total) > n_drawn * 10.0 * e + 1e-9 * total:
        fails.append({"key": "%s-length-accuracy" % what, "prop": "C15", "expected": total, "got": L,
                      "explanation": "every segment length is within tolerance but the total is not"})
    if not seg_ok:
        worst = max(range(len(descs)), key=lambda i: abs(lens[i] - trues[i]) - _len_tol(e, trues[i]))
        kind = _desc_kind(descs[worst])
        fails.append({"key": "length-accuracy:%s" % kind, "prop": "C15",
                      "expected": "segment %d length(error=%g) == %r within %g" % (worst, e, trues[worst], _len_tol(e, trues[worst])),
                      "got": "%r (off by %.3g x requested error)" % (lens[worst], abs(lens[worst] - trues[worst]) / e),
                      "explanation": "a segment of the %s misses its arc length by more than the requested error" % what})
    # the walk
    try:
        first = _xy(x.point(0.0, error=e))
        last = _xy(x.point(1.0, error=e))
    except Exception as ex:
        return fails + [_exc_fail("%s-point" % what, ex, "C15")]
    drawn = [i for i, d in enumerate(descs) if d["t"] != "M"]
    exp_first = _seg_start(descs[0]) if descs[0]["t"] != "M" else _xy(descs[0]["p"][0])
    exp_last = _seg_end(descs[-1])
    if _dist(first, exp_first) > 1e-12 * S or _dist(last, exp_last) > 1e-12 * S:
        fails.append({"key": "%s-point-endpoints" % what, "prop": "C15", "expected": "point(0)=%r point(1)=%r" % (exp_first, exp_last),
                      "got": "%r %r" % (first, last), "explanation": "point(0) is the first point, point(1) the last"})
    slack = math.fsum(abs(a - b) for a, b in zip(lens, trues)) + n_drawn * 10.0 * e + 1e-9 * total
    if total > 0:
        cum = 0.0
        worst = (0.0, None)
        for i, d in enumerate(descs):
            ln = trues[i]
            if d["t"] != "M" and ln > 1e-6 * total and ln > 100 * slack:
                f = _seg_fn(d)
                for frac in (0.25, 0.5, 0.8):
                    t = (cum + frac * ln) / total
                    try:
                        p = _xy(x.point(t, error=e))
                    except Exception as ex:
                        return fails + [_exc_fail("%s-point" % what, ex, "C15")]
                    tol = _seg_maxspeed(d) * 2.0 * slack / ln + 1e-9 * S
                    dd = _dist(p, f(frac))
                    if dd - tol > worst[0]:
                        worst = (dd - tol, i, frac, t, p, f(frac), tol)
            cum += ln
        if worst[1] is not None:
            fails.append({"key": "%s-point-walk" % what, "prop": "C15",
                          "expected": "point(%r) = segment %d (%s) at its own parameter %g = %r (tolerance %g)" % (
                              worst[3], worst[1], descs[worst[1]]["t"], worst[2], worst[5], worst[6]),
                          "got": "%r" % (worst[4],),
                          "explanation": "point(t) must lie on the segment whose cumulative-length interval contains t, at the corresponding "
                                         "fraction of that segment"})
    else:
        try:
            mids = [_xy(x.point(t, error=e)) for t in (0.3, 0.5, 0.9)]
        except Exception as ex:
            return fails + [_exc_fail("%s-point-zero-length" % what, ex, "C15")]
        pts = [_seg_start(d) for d in descs] + [_seg_end(d) for d in descs]
        if any(min(_dist(m, q) for q in pts) > 1e-12 * S for m in mids):
            fails.append({"key": "%s-point-zero-length" % what, "prop": "C15", "expected": "one of %r" % (pts[:4],), "got": mids,
                          "explanation": "a zero-length path only has its own points"})
    # reversal and isometries of the whole path
    if case["obj"] == "path" and case.get("ops", True):
        try:
            bad = []
            r = mod.Path(*[mod.copy(s) for s in segs]) if len(segs) != 1 else mod.Path(mod.copy(segs[0]))
            r.reverse()
            LR = float(r.length(error=e))
            if abs(LR - L) > 2e-9 * max(L, total) + 2 * n_drawn * 10.0 * e:
                bad.append("reverse: %r vs %r" % (LR, L))
            for name, M in _C15_SIMS[:2] + _C15_SIMS[3:]:
                LM = float(abs(x * mod.Matrix(*M)).length(error=e))
                if abs(LM - L) > 2e-9 * max(L, total) + 2 * n_drawn * 10.0 * e:
                    bad.append("%s: %r vs %r" % (name, LM, L))
            if bad:
                fails.append({"key": "path-length-invariance", "prop": "C15", "expected": "unchanged length", "got": "; ".join(bad),
                              "explanation": "reversal and isometries must not change the length of a path"})
        except Exception as ex:
            fails.append(_exc_fail("path-length-transformed", ex, "C15"))
    return fails


def _c15_probe(mod, case):
    """length() with the DEFAULT error on an eccentric arc with large coordinates, under a wall-clock limit."""
    d = case["seg"]
    try:
        seg = _build_seg(mod, d)
        done, val = _with_alarm(case["limit_s"], lambda: float(seg.length()))
    except Exception as ex:
        return [_exc_fail("segment-length-default-error", ex, "C15")]
    if not done:
        _OBSERVATIONS["default-error-length"] = (
            "Arc(rx=%g, ry=%g, extent %g rad).length() with the default error 1e-12 did not return within %g s (about 2^20 chord "
            "refinements; terminates eventually - a run-time observation, not counted as a violation of C15)" % (d["rx"], d["ry"], d["dth"], case["limit_s"]))
        return []
        return [{"key": "length-default-error-runaway-recursion", "prop": "C15",
                 "expected": "length() returns (true length %r)" % _seg_length(d), "got": "no result after %g s" % case["limit_s"],
                 "explanation": "with the default error (1e-12) the chord-refinement criterion 'length2 - length > error' is below the float "
                                "resolution of coordinates of this magnitude, so the recursion keeps bisecting (no depth limit) and does "
                                "not return in practical time"}]
    true = _seg_length(d)
    if abs(val - true) > 1e-9 * true + 1e-11:
        return [{"key": "length-accuracy:%s" % _desc_kind(d), "prop": "C15", "expected": true, "got": val, "explanation": "default error"}]
    return []


def _c15_eval(mod, case):
    if case["obj"] == "segment":
        return _c15_segment(mod, case)
    if case["obj"] == "probe":
        return _c15_probe(mod, case)
    return _c15_path(mod, case)


def _c15_shrink(case):
    if case["obj"] == "path":
        for c in _c08_shrink(case):
            if c.get("obj") == "segment":
                yield {"obj": "segment", "seg": c["seg"], "e": case["e"], "ops": case.get("ops", True)}
            else:
                yield c
    for e in (1e-4, 1e-6):
        if case.get("e") is not None and e > case["e"]:
            c = dict(case)
            c["e"] = e
            yield c


def _scaled(d, s):
    return {"t": d["t"], "p": [[p[0] * s, p[1] * s] for p in d["p"]]}


def _c15_special_segments():
    """Collinear / coincident control points, cusps, zero length (unit scale)."""
    out = []
    out.append({"t": "L", "p": [[0.0, 0.0], [0.0, 0.0]]})
    out.append({"t": "L", "p": [[1.0, 2.0], [4.0, 6.0]]})
    out.append({"t": "Q", "p": [[0.0, 0.0], [0.0, 0.0], [0.0, 0.0]]})
    out.append({"t": "Q", "p": [[0.0, 0.0], [0.0, 0.0], [4.0, 3.0]]})          # control == start
    out.append({"t": "Q", "p": [[0.0, 0.0], [4.0, 3.0], [4.0, 3.0]]})          # control == end
    out.append({"t": "Q", "p": [[0.0, 0.0], [2.0, 1.5], [4.0, 3.0]]})          # control at the middle: a straight line
    out.append({"t": "Q", "p": [[0.0, 0.0], [1.0, 0.75], [4.0, 3.0]]})         # collinear, inside
    out.append({"t": "Q", "p": [[0.0, 0.0], [8.0, 6.0], [4.0, 3.0]]})          # collinear, overshoots and comes back
    out.append({"t": "Q", "p": [[0.0, 0.0], [-4.0, -3.0], [4.0, 3.0]]})        # collinear, starts backwards
    out.append({"t": "Q", "p": [[0.0, 0.0], [4.0, 3.0], [0.0, 0.0]]})          # out and back (start == end)
    out.append({"t": "Q", "p": [[0.0, 0.0], [2.0, 1.5000001], [4.0, 3.0]]})    # almost collinear
    out.append({"t": "Q", "p": [[0.0, 0.0], [8.0, 6.0000001], [4.0, 3.0]]})    # almost collinear, overshooting
    out.append({"t": "C", "p": [[0.0, 0.0], [0.0, 0.0], [0.0, 0.0], [0.0, 0.0]]})
    out.append({"t": "C", "p": [[0.0, 0.0], [0.0, 0.0], [4.0, 3.0], [4.0, 3.0]]})
    out.append({"t": "C", "p": [[0.0, 0.0], [10.0, 0.0], [-5.0, 0.0], [5.0, 0.0]]})   # collinear with two reversals
    out.append({"t": "C", "p": [[0.0, 0.0], [1.0, 1.0], [0.0, 1.0], [1.0, 0.0]]})     # cusp at t = 1/2
    out.append({"t": "C", "p": [[0.0, 0.0], [3.0, 3.0], [-2.0, 3.0], [1.0, 0.0]]})    # loop
    out.append({"t": "C", "p": [[0.0, 0.0], [1.0, 2.0], [3.0, -1.0], [4.0, 1.0]]})
    out.append({"t": "C", "p": [[0.0, 0.0], [4.0, 3.0], [4.0, 3.0], [0.0, 0.0]]})     # start == end
    return out


def _c15_cases(tier, rng):
    q = tier == "quick"
    errors = (1e-4, 1e-6, 1e-9)
    cap = 1e7 if q else 1e9
    # special Beziers at several scales
    for d in _c15_special_segments():
        for s in (1.0, 1e-3, 250.0, 1e5) if q else (1.0, 1e-3, 0.07, 250.0, 3e3, 1e5):
            ds = _scaled(d, s)
            for e in errors:
                if d["t"] == "C" and s / e > cap:
                    continue
                yield {"obj": "segment", "seg": ds, "e": e, "cap": cap, "_class": "special-" + d["t"]}
    # random Beziers
    for kind in "LQC":
        for _ in range(12 if q else 80):
            sc = 10.0 ** rng.uniform(-3, 5)
            o = _rand_pt(rng) if rng.random() < 0.5 else [0.0, 0.0]
            d = _rand_seg(rng, kind, _near(rng, o, sc), sc)
            big = _seg_scale(d)
            es = [e for e in errors if kind != "C" or big / e <= cap]
            if not es:
                es = [big / cap]
            yield {"obj": "segment", "seg": d, "e": rng.choice(es), "cap": cap, "_class": "random-" + kind}
    # arcs: circular and eccentric, any extent
    exts = (1e-3, 0.5, math.pi / 2, math.pi, 4.0, TAU, 7.5, 13.0)
    for ext in exts:
        for ratio in (1.0, 1.0, 2.0, 0.3, 25.0) if q else (1.0, 1.0, 2.0, 0.3, 25.0, 100.0, 0.01, 1.5):
            r = 10.0 ** rng.uniform(-3, 5)
            c = _rand_pt(rng) if rng.random() < 0.5 else [0.0, 0.0]
            d = {"t": "A", "c": c, "rx": _sig(r, 4), "ry": _sig(r, 4) * ratio, "phi": rng.choice((0.0, 90.0, 33.0, -120.0)),
                 "th": _sig(rng.uniform(-3, 3), 3), "dth": ext * rng.choice((-1.0, 1.0))}
            big = max(d["rx"], d["ry"]) * max(1.0, ext)
            es = [e for e in errors if ratio == 1.0 or big / e <= cap]
            if not es:
                es = [_sig(big / cap, 1)]
            yield {"obj": "segment", "seg": d, "e": rng.choice(es), "cap": cap, "_class": "arc-circular" if ratio == 1.0 else "arc-elliptical"}
    for _ in range(8 if q else 40):
        sc = 10.0 ** rng.uniform(-3, 4)
        d = _rand_seg(rng, "A", _rand_pt(rng), sc)
        big = _seg_scale(d)
        es = [e for e in errors if big / e <= cap] or [_sig(big / cap, 1)]
        yield {"obj": "segment", "seg": d, "e": rng.choice(es), "cap": cap, "_class": "arc-endpoint-form"}
    # a few expensive ones: scale/error = 1e9, accuracy only
    for d in ({"t": "C", "p": [[0.0, 0.0], [1e5, 2e5], [3e5, -1e5], [4e5, 1e5]]},
              {"t": "A", "c": [0.0, 0.0], "rx": 3e5, "ry": 1e5, "phi": 20.0, "th": 0.3, "dth": 4.0}):
        yield {"obj": "segment", "seg": d, "e": 1e-4, "ops": False, "_class": "large-scale-over-error"}
    # paths: composed of all kinds; zero-length closes; zero-length paths
    for i in range(24 if q else 150):
        sc = 10.0 ** rng.uniform(-3, 5)
        segs = _rand_path(rng, max_seg=3, scale=sc)
        if i % 4 == 0:  # zero-length close: the last drawn segment returns to the start
            sub = _split_subpaths(segs)[-1]
            start = list(sub[0]["p"][0])
            last = [d for d in sub if d["t"] not in ("M", "Z")][-1]
            if last["t"] in ("L", "Q", "C"):
                last["p"][-1] = start
            else:
                last["e"] = start
            if sub[-1]["t"] == "Z":
                sub[-1]["p"] = [start, start]
            else:
                segs.append({"t": "Z", "p": [start, start]})
        big = max(_seg_scale(d) for d in segs)
        es = [e for e in errors if big / e <= cap] or [_sig(big / cap, 1)]
        yield {"obj": "path", "segs": segs, "e": rng.choice(es), "_class": "path"}
    yield {"obj": "path", "segs": [{"t": "M", "p": [[1.0, 1.0]]}, {"t": "L", "p": [[1.0, 1.0], [1.0, 1.0]]}, {"t": "Z", "p": [[1.0, 1.0], [1.0, 1.0]]}],
           "e": 1e-6, "_class": "path-zero-length"}
    yield {"obj": "path", "segs": [{"t": "M", "p": [[0.0, 0.0]]}, {"t": "L", "p": [[0.0, 0.0], [10.0, 0.0]]}, {"t": "L", "p": [[10.0, 0.0], [10.0, 0.0]]},
                                   {"t": "M", "p": [[20.0, 5.0]]}, {"t": "Q", "p": [[20.0, 5.0], [25.0, 10.0], [30.0, 5.0]]}, {"t": "Z", "p": [[30.0, 5.0], [20.0, 5.0]]}],
           "e": 1e-6, "_class": "path-zero-length-segment-inside"}
    # shapes
    shapes = [{"type": "Circle", "cx": 1.0, "cy": 2.0, "r": 3.0}, {"type": "Circle", "cx": 0.0, "cy": 0.0, "r": 2e4},
              {"type": "Ellipse", "cx": 1.0, "cy": 2.0, "rx": 3.0, "ry": 4.0}, {"type": "Ellipse", "cx": -5.0, "cy": 0.0, "rx": 0.02, "ry": 0.001},
              {"type": "Rect", "x": 0.0, "y": 0.0, "w": 10.0, "h": 5.0, "rx": 2.0, "ry": 1.0},
              {"type": "Rect", "x": 1.0, "y": 1.0, "w": 3e3, "h": 2e-2, "rx": 0.0, "ry": 0.0},
              {"type": "Polygon", "pts": [[0.0, 0.0], [10.0, 0.0], [5.0, 5.0]]},
              {"type": "Polyline", "pts": [[0.0, 0.0], [-1e3, 2.0], [5.0, 5e-3], [1.0, 1.0]]},
              {"type": "SimpleLine", "pts": [[0.0, 1.0], [5.0, 6.0]]}]
    for sh in shapes:
        for e in errors:
            big = max(abs(v) for v in sh.values() if isinstance(v, float)) if sh["type"] not in ("Polygon", "Polyline", "SimpleLine") else 1.0
            if big / e > cap:
                continue
            yield {"obj": "shape", "shape": sh, "e": e, "_class": "shape-" + sh["type"]}
    # the default error on a large eccentric arc, under a wall-clock limit
    yield {"obj": "probe", "seg": {"t": "A", "c": [0.0, 0.0], "rx": 3e5, "ry": 1e5, "phi": 20.0, "th": 0.3, "dth": 4.0}, "limit_s": 6.0 if q else 60.0,
           "_class": "default-error-probe"}


_OBSERVATIONS = {}
_c15_replay = _make_replay(_c15_eval)


@bounded("C15/length_and_point", props=["C15"], replay=_c15_replay)
def c15_length_and_point(mod, tier, seed):
    t0 = time.time()
    rng = random.Random(seed)
    col = _Collector(mod, _c15_eval, _c15_shrink)
    cap = 1e7 if tier == "quick" else 1e9
    classes = {}
    samples = []
    for case in _c15_cases(tier, rng):
        cls = case.pop("_class", case["obj"])
        classes[cls] = classes.get(cls, 0) + 1
        col.run_case(case)
        if len(samples) < 6 and col.evaluations % 41 == 1:
            samples.append(case)
    return _finish(
        col, tier,
        rule="segments: lines, quadratic/cubic Beziers incl. collinear / coincident controls, cusp, loop, zero length at scales 1e-3..1e5; "
             "circular and elliptical arcs (ratio 0.01..100, extents 1e-3..13 rad both ways, centre and endpoint form); paths of 1-3 "
             "subpaths with zero-length closes and zero-length segments; Rect/Circle/Ellipse/Polygon/Polyline/SimpleLine. error in "
             "{1e-4,1e-6,1e-9} subject to scale/error <= %g for the kinds that use recursive chord refinement (cubics, elliptical arcs; "
             "run time), min_depth default. Per case: accuracy, point(0)/point(1), 4 isometries + reversal, 3 uniform scalings, path "
             "additivity, point(t) walk at fractions .25/.5/.8 of every non-negligible segment. Tolerance (stated): |length - true| <= "
             "10*error + 1e-9*true, true = adaptive 24-point Gauss-Legendre quadrature of the speed to 1e-13 relative; invariances "
             "2e-9 relative + 20*error (= twice the accuracy tolerance, so two accurate values can never fail it); walk tolerance = maxspeed * 2*(observed length discrepancy + 10*error per segment)/segment "
             "length + 1e-9*S. distinct = every case; classes %s" % (cap, sorted(classes.items())),
        bound="coordinates exactly 0 or 10^[-3,5]; up to 3 subpaths x 3 segments; one probe of the default error under a wall-clock limit",
        distinct=col.evaluations, samples=samples, t0=t0, extra={"observations": dict(_OBSERVATIONS)})


# =====================================================================================================================
# (4) C16/reverse
# =====================================================================================================================
# case: {"subs": [{"move": bool, "segs": [descs of drawn segments], "close": "open"|"zclose"|"close", "start": [x,y]}],
#        "hist": "whole" | "twice" | "sub" | "subtwice" | "transform", "i": subpath index (for sub*), "M": matrix}
def _c16_structures(max_total, max_sub=3, max_per=5):
    out = []

    def rec(prefix, used):
        if prefix:
            out.append(list(prefix))
        if len(prefix) == max_sub:
            return
        prev_closed = bool(prefix) and prefix[-1][2] != "open"
        first = not prefix
        for has_move in (True, False):
            if not has_move and not (first or prev_closed):
                continue
            for m in range(0, min(max_per, max_total - used) + 1):
                for close in ("open", "zclose", "close"):
                    if close == "close" and m == 0:
                        continue
                    if not has_move and first and (close != "open" or m == 0):
                        continue  # a closed fragment without any move has no defined close point
                    if not has_move and m == 0 and close == "open":
                        continue
                    rec(prefix + [(has_move, m, close)], used + m)

    rec([], 0)
    return out


def _c16_rand_pt(rng):
    return [round(rng.uniform(-50, 50), 2), round(rng.uniform(-50, 50), 2)]


def _c16_make(struct, kinds, rng):
    """Concrete subpaths with random, pairwise distinct coordinates for a structure and a kind assignment."""
    subs = []
    zpoint = None
    k = 0
    for has_move, m, close in struct:
        if has_move:
            start = _c16_rand_pt(rng)
            zpoint = start
        elif zpoint is not None:
            start = list(zpoint)  # directly after a close: the current point is the close point
        else:
            start = _c16_rand_pt(rng)  # a fragment without leading move
        cur = start
        segs = []
        for j in range(m):
            end = _c16_rand_pt(rng)
            if j == m - 1 and close == "zclose":
                end = list(start)
            kind = kinds[k]
            k += 1
            if kind == "A" and end == cur:
                # an endpoint-form arc with coincident endpoints draws nothing (C05); use a full-turn free closed curve instead
                kind = "C"
            d = _rand_seg(rng, kind, cur, 30.0, end=end)
            if d["t"] == "E":
                chord = _dist(cur, end)
                d["rx"] = round(chord * rng.uniform(0.6, 3.0), 2) + 0.01
                d["ry"] = round(chord * rng.uniform(0.6, 3.0), 2) + 0.01
            elif d["t"] in ("Q", "C"):
                d["p"] = [[round(p[0], 2), round(p[1], 2)] for p in d["p"]]
                d["p"][0] = list(cur)
                d["p"][-1] = list(end)
            segs.append(d)
            cur = end
        subs.append({"move": has_move, "segs": segs, "close": close, "start": start})
    return subs


def _c16_dstring(subs):
    parts = []
    for sp in subs:
        if sp["move"]:
            parts.append("M %s,%s" % (_fmt(sp["start"][0]), _fmt(sp["start"][1])))
        for d in sp["segs"]:
            if d["t"] in ("L", "Q", "C"):
                parts.append(d["t"] + " " + " ".join("%s,%s" % (_fmt(p[0]), _fmt(p[1])) for p in d["p"][1:]))
            else:
                parts.append("A %s %s %s %d %d %s,%s" % (_fmt(d["rx"]), _fmt(d["ry"]), _fmt(d["rot"]), d["fa"], d["fs"], _fmt(d["e"][0]), _fmt(d["e"][1])))
        if sp["close"] != "open":
            parts.append("Z")
    return " ".join(parts)


def _c16_build(mod, subs):
    """Through the public API: path data for everything that starts with a move; a leading fragment without a move
    is given as segment objects and the rest is appended as path data."""
    if subs[0]["move"]:
        return mod.Path(_c16_dstring(subs))
    objs = [_build_seg(mod, d) for d in subs[0]["segs"]]
    p = mod.Path(objs[0]) if len(objs) == 1 else mod.Path(*objs)
    if len(subs) > 1:
        p += _c16_dstring(subs[1:])
    return p


def _c16_trace(subs):
    """Oracle model of a path: per subpath (start point, closed?, [(kind class, point fn)] incl. a non-degenerate
    closing line)."""
    out = []
    for sp in subs:
        pieces = []
        cur = _xy(sp["start"])
        for d in sp["segs"]:
            pieces.append(("lin" if d["t"] == "L" else d["t"], _seg_fn(d)))
            cur = _seg_end(d)
        closed = sp["close"] != "open"
        if closed and cur != _xy(sp["start"]):
            a, b = cur, _xy(sp["start"])
            pieces.append(("lin", (lambda a, b: (lambda t: (a[0] + (b[0] - a[0]) * t, a[1] + (b[1] - a[1]) * t)))(a, b)))
        out.append({"start": _xy(sp["start"]), "closed": closed, "pieces": pieces, "has_move": sp["move"]})
    return out


def _rev_fn(f):
    return lambda t: f(1.0 - t)


def _c16_reverse_trace(tr):
    """The statement's reversal of one subpath trace: pieces in reverse order, each reversed; same closedness."""
    pieces = [(k, _rev_fn(f)) for k, f in reversed(tr["pieces"])]
    if tr["closed"]:
        start = tr["start"]  # any rotation of the loop is accepted by the comparison
    else:
        start = tr["pieces"][-1][1](1.0) if tr["pieces"] else tr["start"]
    return {"start": start, "closed": tr["closed"], "pieces": pieces, "has_move": tr["has_move"]}


def _c16_observe(mod, path):
    """Model of the library's path: same shape as _c16_trace, from the segment objects (class, start, end, point())."""
    subs = []
    cur = None
    for seg in path:
        name = type(seg).__name__
        if name == "Move":
            if cur is not None:
                subs.append(cur)
            cur = {"start": _xy(seg.end), "closed": False, "pieces": [], "has_move": True, "raw": [seg], "conn": []}
            continue
        if cur is None:
            cur = {"start": _xy(seg.start) if seg.start is not None else None, "closed": False, "pieces": [], "has_move": False, "raw": [], "conn": []}
        cur["raw"].append(seg)
        s0 = _xy(seg.start) if seg.start is not None else None
        e0 = _xy(seg.end) if seg.end is not None else None
        cur["conn"].append((name, s0, e0))
        if name == "Close":
            cur["closed"] = True
            cur["close_end"] = e0
            if s0 != e0:
                cur["pieces"].append(("lin", _c16_samples(seg, s0, e0)))
            subs.append(cur)
            cur = None
        else:
            kind = {"Line": "lin", "QuadraticBezier": "Q", "CubicBezier": "C", "Arc": "E"}[name]
            cur["pieces"].append((kind, _c16_samples(seg, s0, e0)))
    if cur is not None:
        subs.append(cur)
    return subs


_C16_T = (0.0, 0.2, 0.5, 0.85, 1.0)


def _c16_samples(seg, s0, e0):
    """Sampled points of a library segment (evaluated eagerly); None when the segment has lost an endpoint."""
    if s0 is None or e0 is None:
        return None
    table = {t: _xy(seg.point(t)) for t in _C16_T}
    return lambda t: table[t]


def _pieces_match(got, want, tol):
    if len(got) != len(want):
        return "piece count %d != %d" % (len(got), len(want))
    for i, ((gk, gf), (wk, wf)) in enumerate(zip(got, want)):
        if gf is None:
            return "piece %d (%s) has lost an endpoint (start or end is None)" % (i, gk)
        if gk != wk:
            return "piece %d is %s, expected %s" % (i, gk, wk)
        for t in _C16_T:
            g = gf(t)
            w = wf(t)
            if _dist(g, w) > tol:
                return "piece %d (%s) at t=%g is %r, expected %r" % (i, gk, t, g, w)
    return None


def _sub_matches(obs, want, tol):
    """Does the observed subpath trace the wanted one? Closed loops are compared up to rotation of the piece list."""
    if obs["closed"] != want["closed"]:
        return "closed=%r, expected closed=%r" % (obs["closed"], want["closed"])
    if not want["closed"]:
        if want["pieces"] or obs["pieces"]:
            why = _pieces_match(obs["pieces"], want["pieces"], tol)
            if why:
                return why
        if obs["start"] is None or _dist(obs["start"], want["start"]) > tol:
            return "starts at %r, expected %r" % (obs["start"], want["start"])
        return None
    n = len(want["pieces"])
    if len(obs["pieces"]) != n:
        return "closed loop has %d non-degenerate pieces, expected %d" % (len(obs["pieces"]), n)
    if n == 0:
        if obs["start"] is None or _dist(obs["start"], want["start"]) > tol:
            return "degenerate closed subpath at %r, expected %r" % (obs["start"], want["start"])
        return None
    whys = []
    for r in range(n):
        why = _pieces_match(obs["pieces"], want["pieces"][r:] + want["pieces"][:r], tol)
        if why is None:
            return None
        whys.append(why)
    whys.sort(key=lambda w: (w.startswith("piece") and " is " in w and "expected" in w and "at t=" not in w, w))
    return "no rotation of the reversed loop matches (closest: %s)" % whys[0]


def _connectivity(obs, tol):
    """A connected path: inside each subpath every segment starts where the previous one ended, the move points at the
    first segment's start, and a close returns to the subpath's start."""
    for si, sp in enumerate(obs):
        prev = sp["start"] if sp["has_move"] else None
        for name, s0, e0 in sp["conn"]:
            if s0 is None or e0 is None:
                return "subpath %d: %s has a missing endpoint (start=%r end=%r)" % (si, name, s0, e0)
            if prev is not None and _dist(prev, s0) > tol:
                return "subpath %d: %s starts at %r but the previous point is %r" % (si, name, s0, prev)
            prev = e0
        if sp["closed"]:
            first = sp["start"] if sp["start"] is not None else None
            if first is not None and _dist(sp["close_end"], first) > tol:
                return "subpath %d: close ends at %r, the subpath starts at %r" % (si, sp["close_end"], first)
    return None


def _trace_identical(obs, want, tol):
    """Same subpath, same direction, same start (used for 'restores the original' and 'other subpaths untouched')."""
    if obs["closed"] != want["closed"]:
        return "closed=%r, expected %r" % (obs["closed"], want["closed"])
    why = _pieces_match(obs["pieces"], want["pieces"], tol)
    if why:
        return why
    if obs["start"] is None or _dist(obs["start"], want["start"]) > tol:
        return "starts at %r, expected %r" % (obs["start"], want["start"])
    return None


def _map_trace(tr, M):
    return {"start": _apply(M, tr["start"]), "closed": tr["closed"], "has_move": tr["has_move"],
            "pieces": [(k, (lambda f: (lambda t: _apply(M, f(t))))(f)) for k, f in tr["pieces"]]}


def _c16_class(subs, i=None):
    """Defect-class suffix from the structure of the (affected) subpath(s)."""
    tags = set()
    rng_ = range(len(subs)) if i is None else (i,)
    for k in rng_:
        sp = subs[k]
        if not sp["move"] and sp["segs"]:
            tags.add("moveless-subpath" if k > 0 else "leading-fragment")
        if not sp["move"] and not sp["segs"]:
            tags.add("moveless-bare-close")  # a bare 'Z' directly after a close ("M0,0 L1,1 Z Z")
    for t in ("leading-fragment", "moveless-subpath", "moveless-bare-close"):
        if t in tags:
            return t
    return "plain"


def _c16_canon(subs):
    """Re-chain a (possibly mutated) case so that it is a valid path again: every segment starts where the previous one
    ended, a subpath without its own move starts at the close point in force, the close label follows the geometry.
    Returns None when that is impossible (e.g. an arc whose endpoints coincide)."""
    out = []
    z = None
    for k, sp in enumerate(subs):
        sp = dict(sp)
        if sp["move"]:
            z = list(sp["start"])
        elif k > 0:
            if z is None or out[-1]["close"] == "open":
                return None
            sp["start"] = list(z)
        else:
            if sp["close"] != "open" or not sp["segs"]:
                return None
        cur = list(sp["start"])
        segs = []
        for d in sp["segs"]:
            d = dict(d)
            if d["t"] == "E":
                d["s"] = list(cur)
                if d["s"] == list(d["e"]) or d["rx"] <= 0 or d["ry"] <= 0:
                    return None
                cur = list(d["e"])
            else:
                d["p"] = [list(cur)] + [list(x) for x in d["p"][1:]]
                if all(list(x) == d["p"][0] for x in d["p"]):
                    return None  # a segment degenerated to a point is outside the family
                cur = list(d["p"][-1])
            segs.append(d)
        sp["segs"] = segs
        if sp["close"] != "open":
            sp["close"] = "zclose" if cur == list(sp["start"]) else "close"
        out.append(sp)
    return out


def _c16_single_ok(mod, p, want, hist, i, tol):
    """Is the single reversal (whole path or subpath i) right? Used so that 'twice' only reports its own defect."""
    q = mod.copy(p)
    if hist == "twice":
        q.reverse()
        got = _c16_observe(mod, q)
        exp = [_c16_reverse_trace(t) for t in reversed(want)]
        return len(got) == len(exp) and all(_sub_matches(o, w, tol) is None for o, w in zip(got, exp)) and _connectivity(got, tol) is None
    q.subpath(i).reverse()
    got = _c16_observe(mod, q)
    if len(got) != len(want):
        return False
    for k, (o, w) in enumerate(zip(got, want)):
        if (_sub_matches(o, _c16_reverse_trace(w), tol) if k == i else _trace_identical(o, w, tol)) is not None:
            return False
    return _connectivity(got, tol) is None


def _c16_eval(mod, case):
    subs = _c16_canon(case["subs"])
    if subs is None:
        return []
    hist = case["hist"]
    want = _c16_trace(subs)
    tol = 1e-9 * 100.0
    fails = []

    text = _c16_dstring(subs) if subs[0]["move"] else "Path(%s) + %r" % (", ".join("%s%r" % (d["t"], d.get("p", d)) for d in subs[0]["segs"]), _c16_dstring(subs[1:]))

    def fail(key, expected, got, expl):
        fails.append({"key": key, "prop": "C16", "expected": expected, "got": "path %s, history %s%s: %s" % (
            text, hist, "" if case.get("i") is None else " i=%d" % case["i"], got), "explanation": expl})

    try:
        p = _c16_build(mod, subs)
        base = _c16_observe(mod, p)
    except Exception as ex:
        return [_exc_fail("path-construction", ex, "C16")]
    # sanity of the construction itself (not a property of reverse): the library must see the intended path
    if len(base) != len(want) or any(_trace_identical(o, w, tol) for o, w in zip(base, want)):
        return [{"key": "construction-differs-from-model", "prop": "C16", "expected": "%d subpaths as modelled" % len(want),
                 "got": "%d subpaths: %s" % (len(base), [(_trace_identical(o, w, tol)) for o, w in zip(base, want)]),
                 "explanation": "the path built through the public API is not the modelled path (checker or parser problem, not reverse)"}]
    cls = _c16_class(subs, case.get("i") if hist in ("sub", "subtwice") else None)
    try:
        if hist in ("twice", "subtwice") and not _c16_single_ok(mod, p, want, hist, case.get("i"), tol):
            return []  # the single reversal is already wrong: reported by the 'whole' / 'sub' history of the same path
        if hist in ("whole", "twice"):
            q = mod.copy(p)
            q.reverse()
            if hist == "twice":
                q.reverse()
        elif hist in ("sub", "subtwice"):
            q = mod.copy(p)
            q.subpath(case["i"]).reverse()
            if hist == "subtwice":
                q.subpath(case["i"]).reverse()
        else:
            M = case["M"]
            q = abs(mod.copy(p) * mod.Matrix(*M))
            q.reverse()
            q2 = mod.copy(p)
            q2.reverse()
            q2 = abs(q2 * mod.Matrix(*M))
        got = _c16_observe(mod, q)
        got2 = _c16_observe(mod, q2) if hist == "transform" else None
    except Exception as ex:
        f = _exc_fail("reverse-%s[%s]" % ("subpath" if hist.startswith("sub") else "path", cls), ex, "C16")
        return [f]
    where = "Subpath.reverse" if hist.startswith("sub") else "Path.reverse"
    if hist in ("whole", "transform"):
        exp = [_c16_reverse_trace(t) for t in reversed(want)]
        if hist == "transform":
            exp = [_map_trace(t, case["M"]) for t in exp]
            tol = tol * max(1.0, math.sqrt(sum(v * v for v in case["M"][:4]))) + 1e-9 * (abs(case["M"][4]) + abs(case["M"][5]))
        for name, g in (("reverse", got),) + ((("reverse-then-transform", got2),) if got2 is not None else ()):
            why = None
            if len(g) != len(exp):
                why = "%d subpaths, expected %d" % (len(g), len(exp))
            else:
                for k, (o, w) in enumerate(zip(g, exp)):
                    why = _sub_matches(o, w, tol)
                    if why:
                        why = "result subpath %d (reversal of original subpath %d): %s" % (k, len(exp) - 1 - k, why)
                        break
            if why:
                fail("path-reverse-wrong-geometry[%s]" % cls, "subpaths in reverse order, each the reversal of the original", "%s: %s; result %r" % (name, why, q if name == "reverse" else q2),
                     "%s does not trace the same geometry in the opposite direction (a point is lost, a segment is not its own "
                     "reversal, or closedness changed)" % where)
                break
            why = _connectivity(g, tol)
            if why:
                fail("path-reverse-disconnected[%s]" % cls, "connected path", "%s: %s; result %r" % (name, why, q if name == "reverse" else q2),
                     "the reversed path is not connected")
                break
    elif hist in ("twice", "subtwice"):
        why = None
        if len(got) != len(want):
            why = "%d subpaths, expected %d" % (len(got), len(want))
        else:
            for k, (o, w) in enumerate(zip(got, want)):
                why = _trace_identical(o, w, tol)
                if why:
                    why = "subpath %d: %s" % (k, why)
                    break
        if why is None:
            why = _connectivity(got, tol)
        if why:
            fail("%s-twice-not-identity[%s]" % ("subpath-reverse" if hist == "subtwice" else "path-reverse", cls), "the original path", "%s; result %r" % (why, q),
                 "reversing twice must restore the original path")
    else:
        i = case["i"]
        why = None
        if len(got) != len(want):
            why = ("other", "%d subpaths, expected %d" % (len(got), len(want)))
        else:
            for k, (o, w) in enumerate(zip(got, want)):
                if k == i:
                    y = _sub_matches(o, _c16_reverse_trace(w), tol)
                    if y:
                        why = ("self", "subpath %d is not the reversal of the original: %s" % (k, y))
                        break
                else:
                    y = _trace_identical(o, w, tol)
                    if y:
                        why = ("other", "subpath %d was changed although subpath %d was reversed: %s" % (k, i, y))
                        break
        if why is None:
            y = _connectivity(got, tol)
            if y:
                why = ("conn", y)
        if why:
            key = {"self": "subpath-reverse-wrong-geometry", "other": "subpath-reverse-changes-other-subpath", "conn": "subpath-reverse-disconnected"}[why[0]]
            fail("%s[%s]" % (key, cls), "only subpath %d changes, into its reversal; the path stays connected" % i, "%s; result %r" % (why[1], q),
                 "reversing a subpath view must change only that subpath of the backing path, into its own reversal")
    return fails


def _c16_shrink(case):
    subs = case["subs"]
    i = case.get("i")
    # drop a whole subpath (keeping the structure valid)
    for k in range(len(subs)):
        if len(subs) == 1 or k == i:
            continue
        rest = subs[:k] + subs[k + 1:]
        ok = True
        for j, sp in enumerate(rest):
            if not sp["move"] and j > 0 and rest[j - 1]["close"] == "open":
                ok = False
            if not sp["move"] and j == 0 and (sp["close"] != "open" or not sp["segs"]):
                ok = False
            if not sp["move"] and j > 0:
                # its start must still be the close point in force
                z = None
                for b in rest[:j]:
                    if b["move"]:
                        z = b["start"]
                if z is None or list(z) != list(sp["start"]):
                    ok = False
        if ok:
            c = dict(case)
            c["subs"] = rest
            if i is not None:
                c["i"] = i - 1 if k < i else i
            yield c
    # drop one drawn segment inside a subpath (reconnecting the next one / the close)
    for k, sp in enumerate(subs):
        segs = sp["segs"]
        for j in range(len(segs)):
            if len(segs) == 1 and (sp["close"] == "close" or not sp["move"]):
                continue
            new = [dict(d) for d in segs[:j] + segs[j + 1:]]
            cur = list(sp["start"])
            okk = True
            for d in new:
                if d["t"] == "E":
                    d["s"] = list(cur)
                    if d["s"] == d["e"]:
                        okk = False
                    cur = list(d["e"])
                else:
                    d["p"] = [list(cur)] + [list(x) for x in d["p"][1:]]
                    cur = list(d["p"][-1])
            if not okk:
                continue
            if sp["close"] == "zclose" and new and cur != list(sp["start"]):
                if new[-1]["t"] == "E":
                    continue
                new[-1]["p"][-1] = list(sp["start"])
            if sp["close"] == "close" and cur == list(sp["start"]):
                continue
            c = dict(case)
            c["subs"] = subs[:k] + [dict(sp, segs=new)] + subs[k + 1:]
            yield c
    # simpler kinds
    for k, sp in enumerate(subs):
        for j, d in enumerate(sp["segs"]):
            if d["t"] != "L":
                c = dict(case)
                nd = {"t": "L", "p": [list(_seg_start(d)), list(_seg_end(d))]}
                c["subs"] = subs[:k] + [dict(sp, segs=sp["segs"][:j] + [nd] + sp["segs"][j + 1:])] + subs[k + 1:]
                yield c
    if case["hist"] == "transform":
        c = dict(case)
        c["hist"] = "whole"
        c.pop("M", None)
        yield c


def _c16_cases(tier, rng):
    q = tier == "quick"
    max_total = 5 if q else 6
    exhaustive_kinds_upto = 2 if q else 3
    per_struct = 1 if q else 3
    ms = _matrices40()
    import itertools
    n = 0
    for struct in _c16_structures(max_total):
        total = sum(s[1] for s in struct)
        if total <= exhaustive_kinds_upto:
            assignments = list(itertools.product("LQCA", repeat=total))
        else:
            assignments = [tuple(rng.choice("LQCA") for _ in range(total)) for _ in range(per_struct)]
        for kinds in assignments:
            subs = _c16_make(struct, kinds, rng)
            n += 1
            yield {"subs": subs, "hist": "whole"}
            yield {"subs": subs, "hist": "twice"}
            i = n % len(subs)
            idxs = range(len(subs)) if (not q or total > exhaustive_kinds_upto) else (i,)
            for i in idxs:
                yield {"subs": subs, "hist": "sub", "i": i}
                yield {"subs": subs, "hist": "subtwice", "i": i}
            if n % 4 == 0:
                yield {"subs": subs, "hist": "transform", "M": ms[n % 40]}


_c16_replay = _make_replay(_c16_eval)


@bounded("C16/reverse", props=["C16"], replay=_c16_replay)
def c16_reverse(mod, tier, seed):
    t0 = time.time()
    rng = random.Random(seed)
    col = _Collector(mod, _c16_eval, _c16_shrink,
                     normalise=lambda c: (lambda cs: None if cs is None else dict(c, subs=cs))(_c16_canon(c["subs"])))
    structs = set()
    samples = []
    for case in _c16_cases(tier, rng):
        col.run_case(case)
        structs.add((tuple((s["move"], tuple(d["t"] for d in s["segs"]), s["close"]) for s in case["subs"]), case["hist"], case.get("i")))
        if len(samples) < 6 and col.evaluations % 997 == 1:
            samples.append(case)
    q = tier == "quick"
    return _finish(
        col, tier,
        rule="ALL valid path structures with <=3 subpaths, <=5 drawn segments per subpath and <=%d drawn segments in total, where a "
             "subpath = (own move or none [allowed first = fragment, or directly after a close], 0..5 drawn segments, open | closed by a "
             "zero-length close | closed by a non-zero close), including move-only subpaths, 'M Z' and a bare 'Z' after a close; segment "
             "kinds from {Line, Quadratic, Cubic, Arc}: exhaustive for totals <= %d, otherwise %d pseudo-random assignment(s) per "
             "structure; coordinates random with 2 decimals in [-50,50] (pairwise distinct except where a zero-length close requires "
             "equality). Histories: reverse the whole path; twice; p.subpath(i).reverse() (every i for the larger structures); twice; "
             "transform-then-reverse vs reverse-then-transform under one of 40 matrices (every 4th path). Oracle: own model of the "
             "trace (pieces as point functions, q(t) = p(1-t), subpaths reversed in order, closed loops compared up to rotation, Close and "
             "Line interchangeable for the closing edge), pointwise at t in %r to 1e-7, connectivity by endpoint equality. distinct = "
             "distinct (structure with kinds, history, index); all are non-trivial except the 20 structures without drawn segments"
             % (5 if q else 6, 2 if q else 3, 1 if q else 3, _C16_T),
        bound="<=3 subpaths, <=5 segments per subpath, total <= %d; paths built through Path(d-string) (fragments through segment objects)" % (5 if q else 6),
        distinct=len(structs), samples=samples, t0=t0)


# =====================================================================================================================
# (5) C19/arc_to_bezier
# =====================================================================================================================
_C19_BOUND = {"cubic": 1e-3, "quad": 1e-2}
_C19_TS = tuple(i / 16.0 for i in range(17))


def _arc_ellipse(d):
    """(cx, cy, rx, ry, phi_rad, theta1, dtheta) of an arc description, from the oracle."""
    if d["t"] == "A":
        cp, sp = _phi_exact(d["phi"])
        return (d["c"][0], d["c"][1], abs(d["rx"]), abs(d["ry"]), math.atan2(sp, cp), d["th"], d["dth"])
    c = f65.endpoint_to_center(d["s"][0], d["s"][1], d["rx"], d["ry"], d["rot"], d["fa"], d["fs"], d["e"][0], d["e"][1])
    if c["kind"] != "arc":
        return None
    return (c["cx"], c["cy"], c["rx"], c["ry"], c["phi"], c["theta1"], c["dtheta"])


def _chain_report(mod, curves, d, mode, start, end):
    """Structural problems of a chain of curves replacing arc d, and its largest relative deviation from the ellipse."""
    want_cls = "CubicBezier" if mode == "cubic" else "QuadraticBezier"
    el = _arc_ellipse(d)
    problems = []
    if not curves:
        return ["no curves for an arc of extent %g" % el[6]], None, None
    for k, c in enumerate(curves):
        if type(c).__name__ != want_cls:
            problems.append("curve %d is a %s" % (k, type(c).__name__))
    if _xy(curves[0].start) != start:
        problems.append("chain starts at %r, the arc starts at %r" % (_xy(curves[0].start), start))
    if _xy(curves[-1].end) != end:
        problems.append("chain ends at %r, the arc ends at %r" % (_xy(curves[-1].end), end))
    for k in range(len(curves) - 1):
        if _xy(curves[k].end) != _xy(curves[k + 1].start):
            problems.append("curves %d and %d do not join: %r vs %r" % (k, k + 1, _xy(curves[k].end), _xy(curves[k + 1].start)))
            break
    R = max(el[2], el[3])
    dev = 0.0
    mid = 0.0
    n = len(curves)
    for k, c in enumerate(curves):
        for t in _C19_TS:
            p = _xy(c.point(t))
            dv = min(f65.ellipse_normal_deviation(el[0], el[1], el[2], el[3], el[4], p[0], p[1]),
                     f65.ellipse_radial_deviation(el[0], el[1], el[2], el[3], el[4], p[0], p[1])) / R
            dev = max(dev, dv)
        m = _xy(c.point(0.5))
        w = f65.ellipse_point(el[0], el[1], el[2], el[3], el[4], el[5] + el[6] * (k + 0.5) / n)
        mid = max(mid, _dist(m, w) / R)
    return problems, dev, mid


def _c19_floor(d):
    """Float noise floor of a relative deviation: a few ulps of the largest coordinate, relative to the larger radius."""
    el = _arc_ellipse(d)
    big = abs(el[0]) + abs(el[1]) + 2 * max(el[2], el[3])
    # the start parameter goes through atan2(a * tan(angle), b): rounding of the coordinates is amplified by the axis
    # ratio before it reaches the curve points
    ratio = max(el[2], el[3]) / min(el[2], el[3]) if min(el[2], el[3]) > 0 else 1.0
    floor = 1e-12 + 16 * 2.3e-16 * big / max(el[2], el[3]) * max(1.0, ratio)
    if d.get("t") == "E":
        # endpoint form whose radii just span the chord (given so, or scaled up by F.6.6): the centre is the square
        # root of a difference that vanishes - sqrt(rounding) = 1e-8 relative is the best any double computation can do,
        # in the library and in the reference ellipse alike
        try:
            phi = math.radians(d["rot"])
            dx, dy = (d["s"][0] - d["e"][0]) / 2.0, (d["s"][1] - d["e"][1]) / 2.0
            x1 = math.cos(phi) * dx + math.sin(phi) * dy
            y1 = -math.sin(phi) * dx + math.cos(phi) * dy
            lam = (x1 / d["rx"]) ** 2 + (y1 / d["ry"]) ** 2
            if lam > 1.0 - 1e-9:
                floor = max(floor, 1e-7)
        except (ZeroDivisionError, OverflowError, KeyError):
            pass
    return floor


def _c19_arc(mod, case):
    d = case["seg"]
    mode = case["mode"]
    fails = []
    el = _arc_ellipse(d)
    try:
        arc = _build_seg(mod, d)
        conv = (lambda n=None: list(arc.as_cubic_curves(n) if mode == "cubic" else arc.as_quad_curves(n)))
        default = conv()
    except Exception as ex:
        return [_exc_fail("arc-as-%s-curves" % mode, ex, "C19")]
    start = _seg_start(d)
    end = _seg_end(d)
    if el is None or el[6] == 0:
        if default:
            fails.append({"key": "zero-extent-arc-yields-curves", "prop": "C19", "expected": "no curves", "got": "%d curves" % len(default),
                          "explanation": "an arc of zero extent yields no curves"})
        return fails
    n0 = len(default)
    try:
        chains = [("default", default)] + [("n=%d" % (k * n0), conv(k * n0)) for k in (1, 2, 4)] if n0 else [("default", default)]
        reports = [(name, len(ch)) + tuple(_chain_report(mod, ch, d, mode, start, end)) for name, ch in chains]
    except Exception as ex:
        return [_exc_fail("arc-as-%s-curves" % mode, ex, "C19")]
    bound = _C19_BOUND[mode]
    for name, cnt, problems, dev, mid in reports:
        if problems:
            fails.append({"key": "%s-chain-not-connected-to-arc" % mode, "prop": "C19", "expected": "chain from arc.start to arc.end, exact joins",
                          "got": "%s: %s" % (name, "; ".join(problems)), "explanation": "the curves must form a connected chain that starts and ends exactly at the arc's endpoints"})
            return fails
    name, cnt, _, dev, mid = reports[0]
    if dev > bound:
        fails.append({"key": "%s-deviation-above-bound" % mode, "prop": "C19", "expected": "deviation <= %g of the larger radius at the default subdivision" % bound,
                      "got": "%g with %d curves for an extent of %g rad (radii %g, %g)" % (dev, cnt, el[6], el[2], el[3]),
                      "explanation": "points of the curves stray from the arc's ellipse by more than the stated bound"})
    if mid > 5 * bound:
        fails.append({"key": "%s-chain-off-the-arc" % mode, "prop": "C19", "expected": "curve k covers the k-th slice of the arc (midpoints within %g of the larger radius)" % (5 * bound),
                      "got": "midpoint mismatch %g with %d curves, extent %g" % (mid, cnt, el[6]),
                      "explanation": "the chain lies on the ellipse but does not follow the arc (wrong direction or extent)"})
    for (na, ca, _, da, _), (nb, cb, _, db, _) in zip(reports[1:], reports[2:]):
        if cb != 2 * ca:
            fails.append({"key": "%s-curve-count" % mode, "prop": "C19", "expected": "%d curves" % (2 * ca), "got": "%d" % cb, "explanation": "explicit count not honoured"})
        elif db > da * (1 + 1e-6) + _c19_floor(d):
            fails.append({"key": "%s-deviation-grows-with-finer-subdivision" % mode, "prop": "C19", "expected": "deviation(%s) <= deviation(%s) = %g" % (nb, na, da),
                          "got": "%g" % db, "explanation": "the deviation must shrink (not grow) as a finer subdivision is requested"})
    return fails


def _seg_signature(seg):
    return (type(seg).__name__,) + tuple(_xy(p) for p in seg if p is not None)


def _c19_path(mod, case):
    segs = case["segs"]
    mode = case["mode"]
    fails = []
    devs = []
    for err in case["errs"]:
        try:
            p = _build_path(mod, segs)
            before = [_seg_signature(s) for s in p]
            if err is None:
                (p.approximate_arcs_with_cubics if mode == "cubic" else p.approximate_arcs_with_quads)()
            else:
                (p.approximate_arcs_with_cubics if mode == "cubic" else p.approximate_arcs_with_quads)(err)
            after = list(p)
        except Exception as ex:
            return [_exc_fail("path-approximate-arcs-with-%ss" % mode, ex, "C19")]
        pos = 0
        worst = 0.0
        for i, d in enumerate(segs):
            if d["t"] in ("A", "E"):
                el = _arc_ellipse(d)
                start = _seg_start(d)
                end = _seg_end(d)
                if el is None or el[6] == 0:
                    kind = _culprit(d) if d["t"] == "E" else "zero-extent"
                    if kind == "zero-radius-arc":
                        # SVG: a zero radius arc is the straight line; the conversion must not delete it
                        nxt = after[pos] if pos < len(after) else None
                        if nxt is None or _xy(nxt.start) != start or _xy(nxt.end) != end:
                            fails.append({"key": "zero-radius-arc-dropped-by-conversion", "prop": "C19", "expected": "the straight line %r -> %r stays in the path" % (start, end),
                                          "got": "next segment %r; result %r" % (nxt, p), "explanation": "an arc with a zero radius is a straight line (SVG F.6.2), not an arc of zero extent; "
                                                                                                        "the conversion removed it and re-linked the neighbours"})
                            return fails
                        pos += 1
                    continue
                chain = []
                want_cls = "CubicBezier" if mode == "cubic" else "QuadraticBezier"
                while pos < len(after) and type(after[pos]).__name__ == want_cls and (not chain or _xy(chain[-1].end) != end or (start == end and len(chain) < 3)):
                    chain.append(after[pos])
                    pos += 1
                problems, dev, mid = _chain_report(mod, chain, d, mode, start, end)
                if problems:
                    fails.append({"key": "%s-chain-not-connected-to-arc" % mode, "prop": "C19", "expected": "chain from arc.start to arc.end",
                                  "got": "error=%r, arc at index %d: %s; result %r" % (err, i, "; ".join(problems), p),
                                  "explanation": "in a path, each arc must be replaced by a connected chain with the arc's endpoints"})
                    return fails
                worst = max(worst, dev)
                if mid > 5 * _C19_BOUND[mode]:
                    fails.append({"key": "%s-chain-off-the-arc" % mode, "prop": "C19", "expected": "chain follows the arc", "got": "midpoint mismatch %g (error=%r)" % (mid, err),
                                  "explanation": "the chain lies on the ellipse but does not follow the arc"})
            else:
                if pos >= len(after) or _seg_signature(after[pos]) != before[i]:
                    fails.append({"key": "non-arc-segment-changed-by-%s-conversion" % mode, "prop": "C19", "expected": "segment %d unchanged: %r" % (i, before[i]),
                                  "got": "%r; result %r" % (_seg_signature(after[pos]) if pos < len(after) else None, p),
                                  "explanation": "the rest of the path must be untouched"})
                    return fails
                pos += 1
        if pos != len(after):
            fails.append({"key": "%s-conversion-extra-segments" % mode, "prop": "C19", "expected": "%d segments consumed" % len(after), "got": pos, "explanation": "unexpected segments"})
            return fails
        prev = None
        for sgm in after:
            if type(sgm).__name__ != "Move" and prev is not None and (sgm.start is None or _xy(sgm.start) != prev):
                fails.append({"key": "path-disconnected-after-%s-conversion" % mode, "prop": "C19", "expected": "segment starts at %r" % (prev,), "got": "%r; result %r" % (sgm, p),
                              "explanation": "the path must stay connected"})
                return fails
            prev = _xy(sgm.end) if sgm.end is not None else None
        devs.append((err, worst))
    if devs and devs[0][1] > _C19_BOUND[mode]:
        fails.append({"key": "%s-deviation-above-bound" % mode, "prop": "C19", "expected": "<= %g at the default subdivision" % _C19_BOUND[mode], "got": "%g" % devs[0][1],
                      "explanation": "points of the curves stray from the arc's ellipse by more than the stated bound (path conversion, default error)"})
    floor = max([_c19_floor(d) for d in segs if d["t"] in ("A", "E") and _arc_ellipse(d) is not None] or [1e-12])
    # the error settings of a path conversion give curve counts that are not multiples of one another (7, 13, 26 for a
    # 4 rad arc), so the joints of the finer chain are not joints of the coarser one: on an eccentric ellipse the slice
    # that happens to straddle the tip dominates and the maximum may rise a little from one setting to the next although
    # it falls like h^3 overall.  Exact monotonicity is demanded where it is a theorem (nested subdivisions, explicit
    # counts n and 2n above); here: never beyond the stated bound and never more than doubled.
    for (ea, da), (eb, db) in zip(devs, devs[1:]):
        if db > _C19_BOUND[mode]:
            fails.append({"key": "%s-deviation-above-bound" % mode, "prop": "C19", "expected": "<= %g also at error=%r" % (_C19_BOUND[mode], eb),
                          "got": "%g" % db, "explanation": "a finer setting must stay within the bound stated for the default"})
    if len(devs) >= 3:
        (e0, d0), (e1, d1) = devs[0], devs[-1]
        # default (0.1) against the finest setting (a quarter of it: about four times as many curves)
        if d1 > d0 * (1 + 1e-6) + floor:
            fails.append({"key": "%s-deviation-grows-with-finer-subdivision" % mode, "prop": "C19",
                          "expected": "deviation(error=%r) <= deviation(default) = %g" % (e1, d0), "got": "%g" % d1,
                          "explanation": "a four times finer subdivision must not increase the deviation"})
    return fails


def _c19_eval(mod, case):
    if case["kind"] == "arc":
        return _c19_arc(mod, case)
    return _c19_path(mod, case)


def _c19_shrink(case):
    if case["kind"] == "path":
        for c in _c08_shrink({"obj": "path", "segs": case["segs"]}):
            if c.get("obj") == "path":
                yield dict(case, segs=c["segs"])
        arcs = [d for d in case["segs"] if d["t"] in ("A", "E")]
        if len(arcs) == 1 and len(case["segs"]) <= 3:
            yield {"kind": "arc", "seg": arcs[0], "mode": case["mode"]}


def _c19_cases(tier, rng):
    q = tier == "quick"
    rots = (0.0, 90.0, 30.0, -45.0, 123.4, 270.0, 200.0)
    exts = (1e-3, 0.02, 0.5, math.pi / 6, math.pi / 2, 2.0, math.pi, 4.0, TAU - 1e-3, TAU, 7.0, 2 * TAU + 1.0)
    ratios = (1.0, 2.0, 0.5, 10.0, 100.0, 0.01, 3.7)
    for ext in exts:
        for sign in (1.0, -1.0):
            for ratio in ratios if not q else rng.sample(ratios, 4):
                r = 10.0 ** rng.uniform(-3, 5)
                c = _rand_pt(rng) if rng.random() < 0.6 else [0.0, 0.0]
                d = {"t": "A", "c": c, "rx": _sig(r, 4), "ry": _sig(r, 4) * ratio, "phi": rng.choice(rots),
                     "th": rng.choice((0.0, math.pi / 2, _sig(rng.uniform(-math.pi, math.pi), 4))), "dth": ext * sign}
                for mode in ("cubic", "quad"):
                    yield {"kind": "arc", "seg": d, "mode": mode, "_class": "arc-centre-form"}
    for _ in range(10 if q else 60):
        d = _rand_seg(rng, "A", _rand_pt(rng), 10.0 ** rng.uniform(-3, 5))
        for mode in ("cubic", "quad"):
            yield {"kind": "arc", "seg": d, "mode": mode, "_class": "arc-endpoint-form"}
    for mode in ("cubic", "quad"):
        yield {"kind": "arc", "seg": {"t": "A", "c": [1.0, 2.0], "rx": 3.0, "ry": 2.0, "phi": 30.0, "th": 0.7, "dth": 0.0}, "mode": mode, "_class": "zero-extent"}
        yield {"kind": "arc", "seg": {"t": "E", "s": [1.0, 2.0], "e": [1.0, 2.0], "rx": 3.0, "ry": 2.0, "rot": 30.0, "fa": 1, "fs": 0}, "mode": mode, "_class": "zero-extent"}
    # arcs embedded at any position of a path
    for i in range(30 if q else 200):
        sc = 10.0 ** rng.uniform(-3, 5)
        n = rng.randint(1, 4)
        pos = rng.randrange(n)
        origin = _rand_pt(rng) if rng.random() < 0.5 else [0.0, 0.0]
        start = _near(rng, origin, sc)
        segs = [{"t": "M", "p": [start]}]
        cur = start
        for k in range(n):
            if k == pos or rng.random() < 0.25:
                if rng.random() < 0.5:
                    d = _rand_seg(rng, "A", cur, sc)
                else:
                    rx = _sig(sc * 10 ** rng.uniform(-1, 0.5), 4)
                    ratio = rng.choice(ratios)
                    th = _sig(rng.uniform(-3, 3), 3)
                    d = {"t": "A", "c": [0.0, 0.0], "rx": rx, "ry": rx * ratio, "phi": rng.choice(rots), "th": th,
                         "dth": rng.choice(exts) * rng.choice((-1.0, 1.0))}
                    off = _arc_centre_point(d, th)
                    d["c"] = [cur[0] - off[0], cur[1] - off[1]]
                    # the segment objects are given this start explicitly; the previous segment ends exactly there
                    new_start = list(_arc_centre_point(d, th))
                    if segs[-1]["t"] == "M":
                        segs[-1]["p"] = [new_start]
                    elif segs[-1]["t"] in ("L", "Q", "C"):
                        segs[-1]["p"][-1] = new_start
                    elif segs[-1]["t"] == "E":
                        segs[-1]["e"] = new_start
                    else:
                        continue
            else:
                d = _rand_seg(rng, rng.choice("LQC"), cur, sc)
            segs.append(d)
            cur = list(_seg_end(d))
        if rng.random() < 0.3:
            first = segs[0]["p"][0]
            segs.append({"t": "Z", "p": [list(cur), list(first)]})
        # starts of segments following an A-form arc
        for k in range(1, len(segs)):
            prev_end = list(_seg_end(segs[k - 1])) if segs[k - 1]["t"] != "M" else list(segs[k - 1]["p"][0])
            if segs[k]["t"] in ("L", "Q", "C", "Z"):
                segs[k]["p"][0] = prev_end
            elif segs[k]["t"] == "E":
                segs[k]["s"] = prev_end
        if any(d["t"] == "A" and k > 0 and _dist(_seg_start(d), _seg_end(segs[k - 1]) if segs[k - 1]["t"] != "M" else segs[k - 1]["p"][0]) != 0 for k, d in enumerate(segs)):
            continue
        for mode in ("cubic", "quad"):
            yield {"kind": "path", "segs": segs, "mode": mode, "errs": [None, 0.05, 0.025], "_class": "path"}
    # zero-extent and zero-radius arcs inside a path
    for mode in ("cubic", "quad"):
        yield {"kind": "path", "mode": mode, "errs": [None], "_class": "path-zero-extent",
               "segs": [{"t": "M", "p": [[0.0, 0.0]]}, {"t": "L", "p": [[0.0, 0.0], [5.0, 0.0]]},
                        {"t": "E", "s": [5.0, 0.0], "e": [5.0, 0.0], "rx": 2.0, "ry": 1.0, "rot": 0.0, "fa": 0, "fs": 1}, {"t": "L", "p": [[5.0, 0.0], [5.0, 5.0]]}]}
        yield {"kind": "path", "mode": mode, "errs": [None], "_class": "path-zero-radius",
               "segs": [{"t": "M", "p": [[0.0, 0.0]]}, {"t": "L", "p": [[0.0, 0.0], [5.0, 0.0]]},
                        {"t": "E", "s": [5.0, 0.0], "e": [9.0, 3.0], "rx": 0.0, "ry": 1.0, "rot": 0.0, "fa": 0, "fs": 1}, {"t": "L", "p": [[9.0, 3.0], [5.0, 5.0]]}]}


_c19_replay = _make_replay(_c19_eval)


@bounded("C19/arc_to_bezier", props=["C19"], replay=_c19_replay)
def c19_arc_to_bezier(mod, tier, seed):
    t0 = time.time()
    rng = random.Random(seed)
    col = _Collector(mod, _c19_eval, _c19_shrink)
    classes = {}
    samples = []
    for case in _c19_cases(tier, rng):
        cls = case.pop("_class", case["kind"])
        classes[cls] = classes.get(cls, 0) + 1
        col.run_case(case)
        if len(samples) < 6 and col.evaluations % 37 == 1:
            samples.append(case)
    return _finish(
        col, tier,
        rule="arcs alone: centre form with extents %r rad in both directions, radii ratio in {0.01..100}, rotations incl. multiples of 90, "
             "radius 10^[-3,5], centre 0 or 10^[-3,5]; endpoint-form arcs; zero extent; list(as_cubic_curves()) / as_quad_curves() at the "
             "default count n and explicitly n, 2n, 4n. arcs in paths: 1-4 segments with an arc at every position (plus random extra arcs), "
             "approximate_arcs_with_cubics/quads at the default error, 0.05 and 0.025; zero-extent and zero-radius arcs inside a path. Checks: "
             "exact chain endpoints and joins, class of the curves, deviation (implicit equation / gradient, 17 samples per curve) relative to "
             "max(rx, ry) <= 1e-3 (cubic) / 1e-2 (quad) at the default, non-increasing under doubling (up to a float noise floor of 16 ulp of the largest coordinate), chain follows the arc (midpoints), "
             "non-arc segments bit-identical, path connected. distinct = every case; classes %s" % (exts_repr(), sorted(classes.items())),
        bound="extent up to 2 turns + 1 rad; ratio up to 100; paths up to 4 drawn segments",
        distinct=col.evaluations, samples=samples, t0=t0)


def exts_repr():
    return "(1e-3, .02, .5, pi/6, pi/2, 2, pi, 4, 2pi-1e-3, 2pi, 7, 4pi+1)"
